package rules

import (
	"go/token"
	"go/types"
	"strings"

	"golang.org/x/tools/go/ssa"

	"mastcheck/ir"
)

// normalised describes the effect of a normalising loop
//
//	for i := 0; i < len(S); i++ { if !S[i].f.dirty { S[i].f = S[i].f.ToMut(); S[i].f.dirty = true … } }
//
// after which every S[j].f is a dirty — hence, by the FLAGS invariant,
// unshared — node. The recogniser checks the shape semantically on SSA:
// a counted loop over the whole slice without any other exit, on every path
// of whose body the element's node is either tested dirty or replaced by an
// unshared node that is then marked dirty.
type normalised struct {
	slice string // Sym of S
	field string // field of the element holding the *mastNode
	exit  *ssa.BasicBlock
	why   string
}

func (A *ownAnalysis) normalisedLoops(fn *ssa.Function) []normalised {
	if r, ok := A.normMemo[fn]; ok {
		return r
	}
	A.normMemo[fn] = nil
	var out []normalised
	for _, h := range fn.Blocks {
		if len(h.Instrs) == 0 {
			continue
		}
		iff, ok := h.Instrs[len(h.Instrs)-1].(*ssa.If)
		if !ok {
			continue
		}
		cmp, ok := iff.Cond.(*ssa.BinOp)
		if !ok || cmp.Op != token.LSS {
			continue
		}
		lenCall, ok := cmp.Y.(*ssa.Call)
		if !ok {
			continue
		}
		if b, ok := lenCall.Call.Value.(*ssa.Builtin); !ok || b.Name() != "len" {
			continue
		}
		S := lenCall.Call.Args[0]
		if _, isParam := ir.ResolveCell(S).(*ssa.Parameter); !isParam {
			continue // only a slice owned by this invocation
		}
		body, exit := h.Succs[0], h.Succs[1]
		loop := ir.ReachableFrom(body, func(from, to *ssa.BasicBlock) bool { return to == h })
		if loop[exit] {
			continue
		}
		// the index: either `i = phi(0, i+1); i < len` (three-clause loop) or
		// `j = phi(-1, i); i = j+1; i < len` (range loop as go/ssa builds it)
		var idx ssa.Value
		okPhi := false
		if phi, isPhi := cmp.X.(*ssa.Phi); isPhi && phi.Block() == h && len(phi.Edges) >= 2 {
			okPhi = true
			for i, e := range phi.Edges {
				if loop[h.Preds[i]] {
					inc, ok := e.(*ssa.BinOp)
					if !ok || inc.Op != token.ADD || inc.X != ssa.Value(phi) || ir.Sym(inc.Y) != "1" {
						okPhi = false
					}
				} else if ir.Sym(e) != "0" {
					okPhi = false
				}
			}
			idx = phi
		} else if inc, isInc := cmp.X.(*ssa.BinOp); isInc && inc.Op == token.ADD && ir.Sym(inc.Y) == "1" && inc.Block() == h {
			if phi, isPhi := inc.X.(*ssa.Phi); isPhi && phi.Block() == h && len(phi.Edges) >= 2 {
				okPhi = true
				for i, e := range phi.Edges {
					if loop[h.Preds[i]] {
						if e != ssa.Value(inc) {
							okPhi = false
						}
					} else if ir.Sym(e) != "-1" {
						okPhi = false
					}
				}
				idx = inc
			}
		}
		if !okPhi || idx == nil {
			continue
		}
		// no exit from the loop body except back to the header
		closed := true
		for b := range loop {
			if len(b.Succs) == 0 {
				closed = false // return or panic inside the body
			}
			for _, s := range b.Succs {
				if !loop[s] && s != h {
					closed = false
				}
			}
		}
		if !closed {
			continue
		}
		elem := ir.Sym(S) + "[" + ir.Sym(idx) + "]"
		// which field of the element is the node pointer? find loads of elem.<f> of node type
		fields := map[string]bool{}
		for b := range loop {
			for _, ins := range b.Instrs {
				if fa, ok := ins.(*ssa.FieldAddr); ok && ir.Sym(fa.X) == elem {
					if pt, ok := fa.Type().Underlying().(*types.Pointer); ok && isNodePtr(pt.Elem()) {
						fields[ir.FieldName(fa.X.Type(), fa.Field)] = true
					}
				}
			}
		}
		for f := range fields {
			nodeAddr := elem + "." + f
			dirtyLoad := "**" + nodeAddr + ".dirty"
			memo := map[*ssa.BasicBlock]int{}
			// edgeEst: the edge p→b is taken only when S[i].f.dirty is true
			edgeEst := func(p, b *ssa.BasicBlock) bool {
				if len(p.Instrs) == 0 || len(p.Succs) != 2 || p.Succs[0] == p.Succs[1] {
					return false
				}
				pif, ok := p.Instrs[len(p.Instrs)-1].(*ssa.If)
				if !ok {
					return false
				}
				cond, truth := pif.Cond, true
				for {
					u, ok := cond.(*ssa.UnOp)
					if !ok || u.Op != token.NOT {
						break
					}
					truth = !truth
					cond = u.X
				}
				if ir.Sym(cond) != dirtyLoad {
					return false
				}
				if truth {
					return p.Succs[0] == b
				}
				return p.Succs[1] == b
			}
			var est func(b *ssa.BasicBlock) bool
			est = func(b *ssa.BasicBlock) bool {
				switch memo[b] {
				case 1:
					return false // cycle inside the body: not established
				case 2:
					return true
				case 3:
					return false
				}
				memo[b] = 1
				res := false
				// (b) at the end of this block the slot holds an unshared node that was marked dirty:
				// either `S[i].f.dirty = true` through a load of the slot made after the last store into
				// it, or `v.dirty = true` for the very value v that the block stores into the slot
				slotStored := false
				{
					var cur ssa.Value
					var lastSlotStore ssa.Instruction
					marked := map[ssa.Value]bool{}
					estB := false
					for _, ins := range b.Instrs {
						st, ok := ins.(*ssa.Store)
						if !ok {
							continue
						}
						if ir.Sym(st.Addr) == nodeAddr {
							slotStored = true
							cur, lastSlotStore = st.Val, st
							estB = marked[st.Val]
							continue
						}
						fa, ok := st.Addr.(*ssa.FieldAddr)
						if !ok || !isNodePtr(fa.X.Type()) || ir.FieldName(fa.X.Type(), fa.Field) != "dirty" {
							continue
						}
						if v, ok := ir.ConstBool(st.Val); !ok || !v {
							if fa.X == cur || ir.Sym(fa.X) == "*"+nodeAddr {
								estB = false
							}
							delete(marked, fa.X)
							continue
						}
						if cl := A.Classify(fa.X, st); cl.Own > Unshared {
							continue
						}
						switch {
						case cur != nil && fa.X == cur:
							estB = true
						case ir.Sym(fa.X) == "*"+nodeAddr:
							// a load of the slot: it must read what the block last stored there
							if ld, ok := fa.X.(*ssa.UnOp); ok && (lastSlotStore == nil || (ld.Block() == b && ir.Before(lastSlotStore, ld))) {
								estB = true
							}
						default:
							marked[fa.X] = true
						}
					}
					res = estB
				}
				// (a) a dominating test `S[i].f.dirty` is true, and this block leaves the slot alone
				if !res && !slotStored {
					for _, fct := range ir.FactsAt(b) {
						if fct.Truth && ir.Sym(fct.Cond) == dirtyLoad && loop[fct.From] {
							res = true
						}
					}
				}
				// (c) all predecessors inside the body establish it, and this
				// block does not overwrite the slot
				if !res && b != body && !slotStored {
					all := len(b.Preds) > 0
					for _, p := range b.Preds {
						if !loop[p] || !(edgeEst(p, b) || est(p)) {
							all = false
						}
					}
					res = all
				}
				if res {
					memo[b] = 2
				} else {
					memo[b] = 3
				}
				return res
			}
			good := true
			n := 0
			for _, p := range h.Preds {
				if loop[p] {
					n++
					if !(edgeEst(p, h) || est(p)) {
						good = false
					}
				}
			}
			if !good || n == 0 {
				continue
			}
			// every store into the slot inside the loop stores an unshared node
			for b := range loop {
				for _, ins := range b.Instrs {
					if st, ok := ins.(*ssa.Store); ok && ir.Sym(st.Addr) == nodeAddr {
						if cl := A.Classify(st.Val, st); cl.Own > Unshared {
							good = false
						}
					}
				}
			}
			if !good {
				continue
			}
			out = append(out, normalised{slice: ir.Sym(S), field: f, exit: exit,
				why: "every " + ir.Sym(S) + "[*]." + f + " was made dirty/unshared by the normalising loop at " + A.F.P.Pos(iff.Pos())})
		}
	}
	A.normMemo[fn] = out
	return out
}

// normalisedAt: is the node loaded by ld (address path s) covered by a
// normalising loop that dominates it, with no later store into the slots?
func (A *ownAnalysis) normalisedAt(ld *ssa.UnOp, s string) string {
	fn := ld.Parent()
	for _, n := range A.normalisedLoops(fn) {
		pre := n.slice + "["
		suf := "]." + n.field
		if !strings.HasPrefix(s, pre) || !strings.HasSuffix(s, suf) {
			continue
		}
		if !n.exit.Dominates(ld.Block()) {
			continue
		}
		// no store to any S[*].f, and no clearing of a dirty flag, after the loop
		clean := true
		for _, b := range fn.Blocks {
			if !n.exit.Dominates(b) {
				continue
			}
			for _, ins := range b.Instrs {
				st, ok := ins.(*ssa.Store)
				if !ok {
					continue
				}
				as := addrSym(st.Addr)
				if strings.HasPrefix(as, pre) && strings.HasSuffix(as, suf) {
					clean = false
				}
				if fa, ok := st.Addr.(*ssa.FieldAddr); ok && isNodePtr(fa.X.Type()) {
					nm := ir.FieldName(fa.X.Type(), fa.Field)
					if nm == "dirty" || nm == "shared" {
						clean = false
					}
				}
			}
		}
		if clean {
			return n.why
		}
	}
	if S, f, ok := slotOf(ld.X); ok && fn != nil {
		if why := A.establishedAt(fn, sliceRootOf(S), f, ld, false, 0); why != "" {
			return why
		}
	}
	return ""
}

// ---- normalisation across function boundaries -----------------------------------------
//
// The normalising loop, and the code that relies on it, may live in different
// functions (savePathForRoot split into dirtyPath / relinkPath / root
// assignment). Two more ways of establishing "every S[*].f is a dirty, hence
// unshared, node" at an instruction are therefore recognised, both demanding
// exactly what the local form demands:
//
//   - a dominating call of a *normaliser*: a function that runs a normalising
//     loop (as recognised above) over its slice parameter, through which every
//     return passes, and that leaves the slots and the flags alone afterwards;
//   - S is a slice parameter of a private function all of whose callers are
//     known, which itself leaves the slots and the flags alone, and at every
//     call site the fact is established for the argument (by a local loop, a
//     normaliser call, or — boundedly — that function's own callers).
//
// After the establishing point nothing may store into a slot (or a whole
// element) of such a slice, write a dirty/shared flag, append/copy into such a
// slice, capture it in a closure, or hand it to a callee that is not checked
// to observe the same restrictions (unknown callee: refused).

type normInter struct {
	preserveMemo map[string]int // 1 computing, 2 yes, 3 no
	summaryMemo  map[*ssa.Function][]normSummary
	summaryBusy  map[*ssa.Function]bool
	callerBusy   map[string]bool
	wrapped      map[types.Object]bool // functions that also exist as a bound-method / thunk wrapper operand
	invoked      map[string]bool       // method names called through an interface
}

type normSummary struct {
	idx   int // index in Params of the slice whose elements are normalised
	field string
}

var normInters = map[*ownAnalysis]*normInter{}

func (A *ownAnalysis) inter() *normInter {
	if x := normInters[A]; x != nil {
		return x
	}
	x := &normInter{preserveMemo: map[string]int{}, summaryMemo: map[*ssa.Function][]normSummary{},
		summaryBusy: map[*ssa.Function]bool{}, callerBusy: map[string]bool{},
		wrapped: map[types.Object]bool{}, invoked: map[string]bool{}}
	for _, fn := range A.F.P.Funcs {
		for _, b := range fn.Blocks {
			for _, ins := range b.Instrs {
				if ci, ok := ins.(ssa.CallInstruction); ok && ci.Common().IsInvoke() {
					x.invoked[ci.Common().Method.Name()] = true
				}
				for _, op := range ins.Operands(nil) {
					if op == nil || *op == nil {
						continue
					}
					if f, ok := (*op).(*ssa.Function); ok && f.Synthetic != "" && f.Object() != nil {
						x.wrapped[f.Object()] = true
					}
				}
			}
		}
	}
	normInters[A] = x
	return x
}

// slotOf: addr is the address of field f of an element of a slice S — &S[i].f,
// or &e.f for a struct variable e initialised exactly once by copying S[i]
// (the forwarding addrSym performs).
func slotOf(addr ssa.Value) (S ssa.Value, field string, ok bool) {
	fa, isFA := addr.(*ssa.FieldAddr)
	if !isFA {
		return nil, "", false
	}
	field = ir.FieldName(fa.X.Type(), fa.Field)
	var ia *ssa.IndexAddr
	switch x := fa.X.(type) {
	case *ssa.IndexAddr:
		ia = x
	case *ssa.Alloc:
		if x.Referrers() == nil {
			return nil, "", false
		}
		var st *ssa.Store
		for _, r := range *x.Referrers() {
			switch y := r.(type) {
			case *ssa.Store:
				if y.Addr != x || st != nil {
					return nil, "", false
				}
				st = y
			case *ssa.FieldAddr, *ssa.DebugRef, *ssa.UnOp:
			default:
				return nil, "", false
			}
		}
		if st == nil {
			return nil, "", false
		}
		ld, isLd := st.Val.(*ssa.UnOp)
		if !isLd || ld.Op != token.MUL {
			return nil, "", false
		}
		ia, _ = ld.X.(*ssa.IndexAddr)
	}
	if ia == nil {
		return nil, "", false
	}
	if _, isSlice := ia.X.Type().Underlying().(*types.Slice); !isSlice {
		return nil, "", false
	}
	return ia.X, field, true
}

// sliceRootOf strips reslicing and the cell of a captured variable.
func sliceRootOf(v ssa.Value) ssa.Value {
	for i := 0; i < 8; i++ {
		s, ok := v.(*ssa.Slice)
		if !ok {
			break
		}
		v = s.X
	}
	return ir.ResolveCell(v)
}

func sliceElem(v ssa.Value) types.Type {
	if v == nil {
		return nil
	}
	if st, ok := v.Type().Underlying().(*types.Slice); ok {
		return st.Elem()
	}
	return nil
}

// carriesElems: a value of type t can give a callee access to elements of a
// []elemT (the slice, a pointer to it, a pointer to an element, an array of them).
func carriesElems(t types.Type, elemT types.Type, d int) bool {
	if t == nil || d > 3 {
		return false
	}
	if types.Identical(t, elemT) {
		return false // an element by value is a copy
	}
	switch u := t.Underlying().(type) {
	case *types.Slice:
		return types.Identical(u.Elem(), elemT) || carriesElems(u.Elem(), elemT, d+1)
	case *types.Array:
		return false
	case *types.Pointer:
		return types.Identical(u.Elem(), elemT) || carriesElems(u.Elem(), elemT, d+1)
	}
	return false
}

// instrPreserves: executing ins cannot undo "every element's .field of a
// []elemT is a dirty node" (see the list above).
func (A *ownAnalysis) instrPreserves(ins ssa.Instruction, elemT types.Type, field string) bool {
	switch x := ins.(type) {
	case *ssa.Store:
		if pt, ok := x.Addr.Type().Underlying().(*types.Pointer); ok && types.Identical(pt.Elem(), elemT) {
			if _, local := x.Addr.(*ssa.Alloc); !local {
				return false // whole element overwritten
			}
		}
		if _, isSlice := x.Val.Type().Underlying().(*types.Slice); isSlice && carriesElems(x.Val.Type(), elemT, 0) {
			if _, local := x.Addr.(*ssa.Alloc); !local {
				return false // the slice is published somewhere
			}
		}
		if fa, ok := x.Addr.(*ssa.FieldAddr); ok {
			if pt, ok := fa.X.Type().Underlying().(*types.Pointer); ok && types.Identical(pt.Elem(), elemT) &&
				ir.FieldName(fa.X.Type(), fa.Field) == field {
				return false // a slot is overwritten
			}
			if isNodePtr(fa.X.Type()) {
				if nm := ir.FieldName(fa.X.Type(), fa.Field); nm == "dirty" || nm == "shared" {
					return false
				}
			}
		}
		if isNodePtr(x.Addr.Type()) {
			return false // whole node overwritten
		}
	case *ssa.MakeClosure:
		for _, b := range x.Bindings {
			if carriesElems(b.Type(), elemT, 0) {
				return false
			}
		}
	case ssa.CallInstruction:
		com := x.Common()
		carries := false
		for _, a := range com.Args {
			if carriesElems(a.Type(), elemT, 0) {
				carries = true
			}
		}
		if !carries {
			return true
		}
		if b, ok := com.Value.(*ssa.Builtin); ok {
			return b.Name() == "len" || b.Name() == "cap"
		}
		if _, ok := x.(*ssa.Call); !ok {
			return false // go / defer: runs at another time
		}
		cs := A.F.Callees(x)
		if len(cs) == 0 || com.IsInvoke() {
			return false
		}
		for _, c := range cs {
			if !A.preserves(c, elemT, field) {
				return false
			}
		}
	}
	return true
}

func (A *ownAnalysis) preserves(fn *ssa.Function, elemT types.Type, field string) bool {
	x := A.inter()
	key := fn.String() + "|" + types.TypeString(elemT, nil) + "|" + field
	switch x.preserveMemo[key] {
	case 1, 2:
		return true // coinductive for recursion
	case 3:
		return false
	}
	if fn.Blocks == nil {
		x.preserveMemo[key] = 3
		return false
	}
	x.preserveMemo[key] = 1
	ok := true
	for _, b := range fn.Blocks {
		for _, ins := range b.Instrs {
			if !A.instrPreserves(ins, elemT, field) {
				ok = false
			}
		}
	}
	for _, an := range fn.AnonFuncs {
		if !A.preserves(an, elemT, field) {
			ok = false
		}
	}
	if ok {
		x.preserveMemo[key] = 2
	} else {
		x.preserveMemo[key] = 3
	}
	return ok
}

// cleanAfter: every instruction that can execute after the establishing point
// (the start of block blk, or the instruction `after` inside it) and before a
// use it dominates preserves the fact.
func (A *ownAnalysis) cleanAfter(fn *ssa.Function, blk *ssa.BasicBlock, after ssa.Instruction, elemT types.Type, field string) bool {
	for _, b := range fn.Blocks {
		if !blk.Dominates(b) {
			continue
		}
		for _, ins := range b.Instrs {
			if b == blk && after != nil && (ins == after || ir.Before(ins, after)) {
				continue
			}
			if !A.instrPreserves(ins, elemT, field) {
				return false
			}
		}
	}
	return true
}

// normaliserSummaries: the slice parameters of fn whose elements' node field
// is normalised whenever fn returns.
func (A *ownAnalysis) normaliserSummaries(fn *ssa.Function) []normSummary {
	x := A.inter()
	if r, ok := x.summaryMemo[fn]; ok {
		return r
	}
	if x.summaryBusy[fn] || fn.Blocks == nil {
		return nil
	}
	x.summaryBusy[fn] = true
	defer delete(x.summaryBusy, fn)
	var out []normSummary
	rets := ir.Returns(fn)
	for _, n := range A.normalisedLoops(fn) {
		idx := -1
		for i, p := range fn.Params {
			if sliceElem(p) != nil && ir.Sym(p) == n.slice && ir.ResolveCell(p) == ssa.Value(p) {
				idx = i
			}
		}
		if idx < 0 || len(rets) == 0 || len(n.exit.Preds) != 1 {
			continue
		}
		all := true
		for _, r := range rets {
			if !n.exit.Dominates(r.Block()) {
				all = false
			}
		}
		if !all || !A.cleanAfter(fn, n.exit, nil, sliceElem(fn.Params[idx]), n.field) {
			continue
		}
		out = append(out, normSummary{idx: idx, field: n.field})
	}
	x.summaryMemo[fn] = out
	return out
}

// callersKnown: fn is a private, named function that is only ever called
// directly (never used as a value, never reached through an interface).
func (A *ownAnalysis) callersKnown(fn *ssa.Function) bool {
	x := A.inter()
	if fn.Parent() != nil || fn.Synthetic != "" || fn.Object() == nil || fn.Object().Exported() {
		return false
	}
	if A.F.addrTaken[fn] || x.wrapped[fn.Object()] {
		return false
	}
	if fn.Signature.Recv() != nil && x.invoked[fn.Name()] {
		return false
	}
	return len(A.rcallers[fn]) > 0
}

// establishedAt: at instruction `at` of fn every S[*].field is a dirty node.
// S is a slice root (sliceRootOf). local=false skips the purely local form,
// which normalisedAt has already tried.
func (A *ownAnalysis) establishedAt(fn *ssa.Function, S ssa.Value, field string, at ssa.Instruction, local bool, depth int) string {
	elemT := sliceElem(S)
	if elemT == nil || fn == nil || at == nil || at.Block() == nil {
		return ""
	}
	if local {
		for _, n := range A.normalisedLoops(fn) {
			if n.slice != ir.Sym(S) || n.field != field || len(n.exit.Preds) != 1 || !n.exit.Dominates(at.Block()) {
				continue
			}
			if A.cleanAfter(fn, n.exit, nil, elemT, field) {
				return n.why
			}
		}
	}
	// a dominating call of a normaliser
	for _, b := range fn.Blocks {
		if !b.Dominates(at.Block()) {
			continue
		}
		for _, ins := range b.Instrs {
			call, ok := ins.(*ssa.Call)
			if !ok || call.Common().IsInvoke() {
				continue
			}
			if b == at.Block() && !ir.Before(call, at) {
				continue
			}
			cs := A.F.Callees(call)
			if len(cs) == 0 {
				continue
			}
			args := call.Common().Args
			hit := true
			for _, c := range cs {
				found := false
				for _, sm := range A.normaliserSummaries(c) {
					if sm.field == field && sm.idx < len(args) && sliceRootOf(args[sm.idx]) == S {
						found = true
					}
				}
				if !found {
					hit = false
				}
			}
			if !hit || !A.cleanAfter(fn, b, call, elemT, field) {
				continue
			}
			return "every " + ir.Sym(S) + "[*]." + field + " was made dirty/unshared by the normalising loop of " + ir.FuncName(cs[0]) + ", called at " + A.F.P.InstrPos(call)
		}
	}
	// established by every caller
	p, isParam := S.(*ssa.Parameter)
	if !isParam || p.Parent() != fn || depth >= 3 || !A.callersKnown(fn) || !A.preserves(fn, elemT, field) {
		return ""
	}
	x := A.inter()
	key := fn.String() + "|" + p.Name() + "|" + field
	if x.callerBusy[key] {
		return ""
	}
	x.callerBusy[key] = true
	defer delete(x.callerBusy, key)
	idx := paramIndex(p)
	for _, cs := range A.rcallers[fn] {
		call, ok := cs.(*ssa.Call)
		if !ok || idx >= len(call.Common().Args) || call.Common().IsInvoke() {
			return ""
		}
		if A.establishedAt(call.Parent(), sliceRootOf(call.Common().Args[idx]), field, call, true, depth+1) == "" {
			return ""
		}
	}
	return "every " + ir.Sym(S) + "[*]." + field + " is a dirty/unshared node at every call of " + ir.FuncName(fn) + " (normalised by its callers)"
}
