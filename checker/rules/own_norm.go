package rules

import (
	"go/token"
	"go/types"
	"strings"

	"golang.org/x/tools/go/ssa"

	"mastcheck/ir"
)

// normalised describes the effect of a normalising loop
//
//	for i := 0; i < len(S); i++ { if !S[i].f.dirty { S[i].f = S[i].f.ToMut(); S[i].f.dirty = true … } }
//
// after which every S[j].f is a dirty — hence, by the FLAGS invariant,
// unshared — node. The recogniser checks the shape semantically on SSA:
// a counted loop over the whole slice without any other exit, on every path
// of whose body the element's node is either tested dirty or replaced by an
// unshared node that is then marked dirty.
type normalised struct {
	slice string // Sym of S
	field string // field of the element holding the *mastNode
	exit  *ssa.BasicBlock
	why   string
}

func (A *ownAnalysis) normalisedLoops(fn *ssa.Function) []normalised {
	if r, ok := A.normMemo[fn]; ok {
		return r
	}
	A.normMemo[fn] = nil
	var out []normalised
	for _, h := range fn.Blocks {
		if len(h.Instrs) == 0 {
			continue
		}
		iff, ok := h.Instrs[len(h.Instrs)-1].(*ssa.If)
		if !ok {
			continue
		}
		cmp, ok := iff.Cond.(*ssa.BinOp)
		if !ok || cmp.Op != token.LSS {
			continue
		}
		lenCall, ok := cmp.Y.(*ssa.Call)
		if !ok {
			continue
		}
		if b, ok := lenCall.Call.Value.(*ssa.Builtin); !ok || b.Name() != "len" {
			continue
		}
		S := lenCall.Call.Args[0]
		if _, isParam := ir.ResolveCell(S).(*ssa.Parameter); !isParam {
			continue // only a slice owned by this invocation
		}
		body, exit := h.Succs[0], h.Succs[1]
		loop := ir.ReachableFrom(body, func(from, to *ssa.BasicBlock) bool { return to == h })
		if loop[exit] {
			continue
		}
		// the index: either `i = phi(0, i+1); i < len` (three-clause loop) or
		// `j = phi(-1, i); i = j+1; i < len` (range loop as go/ssa builds it)
		var idx ssa.Value
		okPhi := false
		if phi, isPhi := cmp.X.(*ssa.Phi); isPhi && phi.Block() == h && len(phi.Edges) >= 2 {
			okPhi = true
			for i, e := range phi.Edges {
				if loop[h.Preds[i]] {
					inc, ok := e.(*ssa.BinOp)
					if !ok || inc.Op != token.ADD || inc.X != ssa.Value(phi) || ir.Sym(inc.Y) != "1" {
						okPhi = false
					}
				} else if ir.Sym(e) != "0" {
					okPhi = false
				}
			}
			idx = phi
		} else if inc, isInc := cmp.X.(*ssa.BinOp); isInc && inc.Op == token.ADD && ir.Sym(inc.Y) == "1" && inc.Block() == h {
			if phi, isPhi := inc.X.(*ssa.Phi); isPhi && phi.Block() == h && len(phi.Edges) >= 2 {
				okPhi = true
				for i, e := range phi.Edges {
					if loop[h.Preds[i]] {
						if e != ssa.Value(inc) {
							okPhi = false
						}
					} else if ir.Sym(e) != "-1" {
						okPhi = false
					}
				}
				idx = inc
			}
		}
		if !okPhi || idx == nil {
			continue
		}
		// no exit from the loop body except back to the header
		closed := true
		for b := range loop {
			if len(b.Succs) == 0 {
				closed = false // return or panic inside the body
			}
			for _, s := range b.Succs {
				if !loop[s] && s != h {
					closed = false
				}
			}
		}
		if !closed {
			continue
		}
		elem := ir.Sym(S) + "[" + ir.Sym(idx) + "]"
		// which field of the element is the node pointer? find loads of elem.<f> of node type
		fields := map[string]bool{}
		for b := range loop {
			for _, ins := range b.Instrs {
				if fa, ok := ins.(*ssa.FieldAddr); ok && ir.Sym(fa.X) == elem {
					if pt, ok := fa.Type().Underlying().(*types.Pointer); ok && isNodePtr(pt.Elem()) {
						fields[ir.FieldName(fa.X.Type(), fa.Field)] = true
					}
				}
			}
		}
		for f := range fields {
			nodeAddr := elem + "." + f
			dirtyLoad := "**" + nodeAddr + ".dirty"
			memo := map[*ssa.BasicBlock]int{}
			// edgeEst: the edge p→b is taken only when S[i].f.dirty is true
			edgeEst := func(p, b *ssa.BasicBlock) bool {
				if len(p.Instrs) == 0 || len(p.Succs) != 2 || p.Succs[0] == p.Succs[1] {
					return false
				}
				pif, ok := p.Instrs[len(p.Instrs)-1].(*ssa.If)
				if !ok {
					return false
				}
				cond, truth := pif.Cond, true
				for {
					u, ok := cond.(*ssa.UnOp)
					if !ok || u.Op != token.NOT {
						break
					}
					truth = !truth
					cond = u.X
				}
				if ir.Sym(cond) != dirtyLoad {
					return false
				}
				if truth {
					return p.Succs[0] == b
				}
				return p.Succs[1] == b
			}
			var est func(b *ssa.BasicBlock) bool
			est = func(b *ssa.BasicBlock) bool {
				switch memo[b] {
				case 1:
					return false // cycle inside the body: not established
				case 2:
					return true
				case 3:
					return false
				}
				memo[b] = 1
				res := false
				// (b) at the end of this block the slot holds an unshared node that was marked dirty:
				// either `S[i].f.dirty = true` through a load of the slot made after the last store into
				// it, or `v.dirty = true` for the very value v that the block stores into the slot
				slotStored := false
				{
					var cur ssa.Value
					var lastSlotStore ssa.Instruction
					marked := map[ssa.Value]bool{}
					estB := false
					for _, ins := range b.Instrs {
						st, ok := ins.(*ssa.Store)
						if !ok {
							continue
						}
						if ir.Sym(st.Addr) == nodeAddr {
							slotStored = true
							cur, lastSlotStore = st.Val, st
							estB = marked[st.Val]
							continue
						}
						fa, ok := st.Addr.(*ssa.FieldAddr)
						if !ok || !isNodePtr(fa.X.Type()) || ir.FieldName(fa.X.Type(), fa.Field) != "dirty" {
							continue
						}
						if v, ok := ir.ConstBool(st.Val); !ok || !v {
							if fa.X == cur || ir.Sym(fa.X) == "*"+nodeAddr {
								estB = false
							}
							delete(marked, fa.X)
							continue
						}
						if cl := A.Classify(fa.X, st); cl.Own > Unshared {
							continue
						}
						switch {
						case cur != nil && fa.X == cur:
							estB = true
						case ir.Sym(fa.X) == "*"+nodeAddr:
							// a load of the slot: it must read what the block last stored there
							if ld, ok := fa.X.(*ssa.UnOp); ok && (lastSlotStore == nil || (ld.Block() == b && ir.Before(lastSlotStore, ld))) {
								estB = true
							}
						default:
							marked[fa.X] = true
						}
					}
					res = estB
				}
				// (a) a dominating test `S[i].f.dirty` is true, and this block leaves the slot alone
				if !res && !slotStored {
					for _, fct := range ir.FactsAt(b) {
						if fct.Truth && ir.Sym(fct.Cond) == dirtyLoad && loop[fct.From] {
							res = true
						}
					}
				}
				// (c) all predecessors inside the body establish it, and this
				// block does not overwrite the slot
				if !res && b != body && !slotStored {
					all := len(b.Preds) > 0
					for _, p := range b.Preds {
						if !loop[p] || !(edgeEst(p, b) || est(p)) {
							all = false
						}
					}
					res = all
				}
				if res {
					memo[b] = 2
				} else {
					memo[b] = 3
				}
				return res
			}
			good := true
			n := 0
			for _, p := range h.Preds {
				if loop[p] {
					n++
					if !(edgeEst(p, h) || est(p)) {
						good = false
					}
				}
			}
			if !good || n == 0 {
				continue
			}
			// every store into the slot inside the loop stores an unshared node
			for b := range loop {
				for _, ins := range b.Instrs {
					if st, ok := ins.(*ssa.Store); ok && ir.Sym(st.Addr) == nodeAddr {
						if cl := A.Classify(st.Val, st); cl.Own > Unshared {
							good = false
						}
					}
				}
			}
			if !good {
				continue
			}
			out = append(out, normalised{slice: ir.Sym(S), field: f, exit: exit,
				why: "every " + ir.Sym(S) + "[*]." + f + " was made dirty/unshared by the normalising loop at " + A.F.P.Pos(iff.Pos())})
		}
	}
	A.normMemo[fn] = out
	return out
}

// normalisedAt: is the node loaded by ld (address path s) covered by a
// normalising loop that dominates it, with no later store into the slots?
func (A *ownAnalysis) normalisedAt(ld *ssa.UnOp, s string) string {
	fn := ld.Parent()
	for _, n := range A.normalisedLoops(fn) {
		pre := n.slice + "["
		suf := "]." + n.field
		if !strings.HasPrefix(s, pre) || !strings.HasSuffix(s, suf) {
			continue
		}
		if !n.exit.Dominates(ld.Block()) {
			continue
		}
		// no store to any S[*].f, and no clearing of a dirty flag, after the loop
		clean := true
		for _, b := range fn.Blocks {
			if !n.exit.Dominates(b) {
				continue
			}
			for _, ins := range b.Instrs {
				st, ok := ins.(*ssa.Store)
				if !ok {
					continue
				}
				as := addrSym(st.Addr)
				if strings.HasPrefix(as, pre) && strings.HasSuffix(as, suf) {
					clean = false
				}
				if fa, ok := st.Addr.(*ssa.FieldAddr); ok && isNodePtr(fa.X.Type()) {
					nm := ir.FieldName(fa.X.Type(), fa.Field)
					if nm == "dirty" || nm == "shared" {
						clean = false
					}
				}
			}
		}
		if clean {
			return n.why
		}
	}
	return ""
}
