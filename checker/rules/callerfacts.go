package rules

import (
	"strings"

	"golang.org/x/tools/go/ssa"

	"mastcheck/ir"
)

// A guard and the use it protects may be split by an extracted helper: the caller tests
// `next < len(node.Link) && node.Link[next] != nil` and the helper, handed the entry, indexes
// `pe.node.Link[pe.linkIndex+1]`. Access paths (ir.Sym) are compositional, so a path rooted at a parameter of
// the helper is rewritten into the caller's terms by substituting the argument's path for "P:<param>".
//
// viaCallers reports whether a requirement that could not be established inside fn holds at every call site of fn:
//   - fn must be a private helper (unexported, never used as a value, at least one static call site);
//   - nothing between fn's entry and the use may invalidate the requirement (kills);
//   - check is evaluated at each call instruction with the rewriting function for that site.
func viaCallers(c *Ctx, fn *ssa.Function, use ssa.Instruction, kills func(ssa.Instruction) bool,
	check func(rewrite func(string) string, at ssa.Instruction) bool) (bool, string) {
	outer := fn
	if outer.Parent() != nil || outer.Object() == nil || outer.Object().Exported() || c.Facts.addrTaken[outer] {
		return false, ""
	}
	callers := c.P.Callers[outer]
	if len(callers) == 0 {
		return false, ""
	}
	// no invalidating instruction can run in fn before the use
	for _, b := range fn.Blocks {
		for _, ins := range b.Instrs {
			if ins == use {
				break
			}
			if kills != nil && kills(ins) && ir.InstrReaches(ins, use) {
				return false, ""
			}
		}
	}
	var names []string
	for _, cs := range callers {
		call, isCall := cs.(*ssa.Call)
		if !isCall {
			return false, ""
		}
		args := call.Call.Args
		if len(args) != len(fn.Params) {
			return false, ""
		}
		rewrite := func(s string) string {
			// longest parameter names first, so that P:pe is not rewritten inside P:peer
			type kv struct{ from, to string }
			var subs []kv
			for i, p := range fn.Params {
				subs = append(subs, kv{"P:" + p.Name(), ir.Sym(args[i])})
			}
			for i := range subs {
				for j := i + 1; j < len(subs); j++ {
					if len(subs[j].from) > len(subs[i].from) {
						subs[i], subs[j] = subs[j], subs[i]
					}
				}
			}
			for _, kvp := range subs {
				s = replaceToken(s, kvp.from, kvp.to)
			}
			return s
		}
		if !check(rewrite, call) {
			return false, ""
		}
		names = append(names, ir.FuncName(cs.Parent()))
	}
	return true, "established at every call site (" + strings.Join(uniq(names), ", ") + ")"
}

// replaceToken replaces from by to where from is not followed by an identifier character.
func replaceToken(s, from, to string) string {
	var b strings.Builder
	for {
		i := strings.Index(s, from)
		if i < 0 {
			b.WriteString(s)
			return b.String()
		}
		end := i + len(from)
		if end < len(s) {
			ch := s[end]
			if ch == '_' || (ch >= '0' && ch <= '9') || (ch >= 'a' && ch <= 'z') || (ch >= 'A' && ch <= 'Z') {
				b.WriteString(s[:end])
				s = s[end:]
				continue
			}
		}
		b.WriteString(s[:i])
		b.WriteString(to)
		s = s[end:]
	}
}

// symInCaller rewrites an access path of the callee h (rooted at its parameters) into the terms of a call with the
// given arguments; ok is false when the path is not rooted at a parameter.
func symInCaller(h *ssa.Function, args []ssa.Value, s string) (string, bool) {
	if len(args) != len(h.Params) || !strings.Contains(s, "P:") {
		return s, false
	}
	type kv struct{ from, to string }
	var subs []kv
	for i, p := range h.Params {
		subs = append(subs, kv{"P:" + p.Name(), ir.Sym(args[i])})
	}
	for i := range subs {
		for j := i + 1; j < len(subs); j++ {
			if len(subs[j].from) > len(subs[i].from) {
				subs[i], subs[j] = subs[j], subs[i]
			}
		}
	}
	// substitute through placeholders so that an argument's own path is not rewritten again
	for i, kvp := range subs {
		s = replaceToken(s, kvp.from, "\x00"+string(rune('A'+i))+"\x00")
	}
	for i, kvp := range subs {
		s = strings.ReplaceAll(s, "\x00"+string(rune('A'+i))+"\x00", kvp.to)
	}
	return s, true
}
