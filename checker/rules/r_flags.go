package rules

import (
	"fmt"
	"go/token"
	"go/types"
	"strings"

	"golang.org/x/tools/go/ssa"

	"mastcheck/ir"
)

func init() {
	Register(&Rule{ID: "FLAGS", Props: []string{"C02", "C11", "C13"}, Min: 3,
		Doc: "flag invariant shared ⇒ ¬dirty ∧ source≠nil, on which the ownership argument rests: every function that stores shared=true on a node also stores a non-nil source " +
			"on the same node on every path through that store, and never stores dirty=true on it.",
		Run: runFLAGS})
	Register(&Rule{ID: "SHAREDPUB", Props: []string{"C02", "C11"}, Min: 3,
		Doc: "a node reaches other trees only through NodeCache.Add or as the result of the loader; on every path to either, shared=true has been stored on that node " +
			"(directly, or by a decoder whose summary 'sets shared on its node parameter on every successful return' is itself checked): otherwise ToMut would treat a cached node as private and edit it in place.",
		Run: runSHAREDPUB})
	Register(&Rule{ID: "ALIAS", Props: []string{"C02"}, Min: 20,
		Doc: "a slice stored into a node's Key/Value/Link field is fresh-backed (make, literal, nil, or append whose first operand is fresh-backed or the node's own field), so no two nodes share a backing array; " +
			"a whole-node struct copy is allowed only into a local that never escapes.",
		Run: runALIAS})
	Register(&Rule{ID: "CLONE", Props: []string{"C02", "C16"}, Min: 3,
		Doc: "Clone installs as root the result of ToShared applied to the loaded root; ToShared returns its receiver only under `shared`, otherwise a fresh copy whose in-memory child links are themselves replaced by their ToShared.",
		Run: runCLONE})
	Register(&Rule{ID: "ESCAPE", Props: []string{"C02", "C11"}, Min: 10,
		Doc: "no exported function, method, field or variable of package mast has a type that mentions mastNode: user code can never obtain (and mutate) a node.",
		Run: runESCAPE})
	Register(&Rule{ID: "GLOBAL", Props: []string{"C11"}, Min: 1,
		Doc: "no function stores to a package-level variable (directly or through a field/element of one) outside the package initialiser: independent trees share no mutable global state.",
		Run: runGLOBAL})
}

// flagStore decodes a store to node.<flag>.
func flagStore(ins ssa.Instruction) (base ssa.Value, field string, st *ssa.Store, ok bool) {
	st, ok = ins.(*ssa.Store)
	if !ok {
		return
	}
	fa, isFA := st.Addr.(*ssa.FieldAddr)
	if !isFA || !isNodePtr(fa.X.Type()) {
		return nil, "", nil, false
	}
	return fa.X, ir.FieldName(fa.X.Type(), fa.Field), st, true
}

func sameBase(a, b ssa.Value) bool {
	return ir.Sym(ir.ResolveCell(a)) == ir.Sym(ir.ResolveCell(b))
}

func runFLAGS(c *Ctx) {
	P := c.P
	for _, fn := range P.Funcs {
		if fn.Pkg.Pkg.Path() != ir.MastPath {
			continue
		}
		for _, b := range fn.Blocks {
			for _, ins := range b.Instrs {
				base, field, st, ok := flagStore(ins)
				if !ok || field != "shared" {
					continue
				}
				v, isConst := ir.ConstBool(st.Val)
				if isConst && !v {
					continue // shared=false: ToMut's copy
				}
				if ir.DeadByConst(b) {
					continue
				}
				pos := P.InstrPos(st)
				what := fmt.Sprintf("%s.shared = %s in %s", ir.Sym(base), ir.Sym(st.Val), ir.FuncName(fn))
				if !isConst {
					// copied from another node's flag (xcopy): the copy must also copy/clear consistently; the
					// only consumer that keeps such a copy shared is none (ToMut clears it) — accept struct copies
					// whose source field is the same flag of another node.
					if ld, ok := st.Val.(*ssa.UnOp); ok && ld.Op == token.MUL {
						if fa, ok := ld.X.(*ssa.FieldAddr); ok && isNodePtr(fa.X.Type()) && ir.FieldName(fa.X.Type(), fa.Field) == "shared" {
							c.OK(pos, what, "flag copied from another node's shared flag (struct copy)", true)
							continue
						}
					}
					// a constructor helper taking the flags as parameters (emptyLike(dirty, shared)): decided by what
					// every call site passes — the constant false, or another node's shared flag (a copy)
					if prm, isP := ir.ResolveCell(st.Val).(*ssa.Parameter); isP && prm.Parent() == fn && fn.Parent() == nil &&
						fn.Object() != nil && !fn.Object().Exported() && !c.Facts.addrTaken[fn] && len(P.Callers[fn]) > 0 {
						allOK := true
						for _, cs := range P.Callers[fn] {
							args := cs.Common().Args
							if paramIndex(prm) >= len(args) {
								allOK = false
								continue
							}
							a := args[paramIndex(prm)]
							if cv, isC := ir.ConstBool(a); isC && !cv {
								continue
							}
							if ld, ok := a.(*ssa.UnOp); ok && ld.Op == token.MUL {
								if fa, ok := ld.X.(*ssa.FieldAddr); ok && isNodePtr(fa.X.Type()) && ir.FieldName(fa.X.Type(), fa.Field) == "shared" {
									continue
								}
							}
							allOK = false
						}
						if allOK {
							c.OK(pos, what, "constructor parameter: every caller passes false or another node's shared flag (a copy)", true)
							continue
						}
					}
					c.Undecided(fn, pos, "shared set from a non-constant", "cannot tell whether the node becomes shared here")
					continue
				}
				// on every path through this store to a return: a non-nil source store on the same base (before or after)
				srcStore := func(i ssa.Instruction) bool {
					bb, f, s, ok := flagStore(i)
					return ok && f == "source" && sameBase(bb, base) && !ir.IsNilConst(s.Val)
				}
				okAll := true
				for _, r := range ir.Returns(fn) {
					if !ir.InstrReaches(st, r) {
						continue
					}
					if ei := ir.ErrorResultIndex(fn.Signature); ei >= 0 && !ir.IsNilConst(r.Results[ei]) {
						if _, isCall := r.Results[ei].(*ssa.Call); !isCall {
							continue // error path: node is discarded
						}
					}
					if !ir.MustPass(r, srcStore) {
						okAll = false
					}
				}
				dirtyTrue := false
				for _, bb := range fn.Blocks {
					for _, i := range bb.Instrs {
						b2, f, s, ok := flagStore(i)
						if ok && f == "dirty" && sameBase(b2, base) {
							if v, isC := ir.ConstBool(s.Val); !isC || v {
								if ir.InstrReaches(st, i) {
									dirtyTrue = true
								}
							}
						}
					}
				}
				// dirty must be false whenever shared becomes true: stored false on every path, or the node is a
				// zero-initialised local of the loader (decoders write into `var node mastNode`)
				cleared := func(i ssa.Instruction) bool {
					bb, f, s, ok := flagStore(i)
					if !ok || f != "dirty" || !sameBase(bb, base) {
						return false
					}
					v, isC := ir.ConstBool(s.Val)
					return isC && !v
				}
				dirtyCleared := true
				for _, r := range ir.Returns(fn) {
					if ir.InstrReaches(st, r) && !ir.MustPass(r, cleared) {
						dirtyCleared = false
					}
				}
				if !dirtyCleared && paramIsZeroLocal(c, fn, base, 0) {
					dirtyCleared = true
				}
				// the decoder declares the node itself (`var node mastNode` in decodeNode, returned as &node): the same
				// zero-initialised local, without a caller in between
				// (only when the flag is set after everything that fills the variable: no live call that is handed the
				// variable can follow the store — a decoder that runs afterwards may replace the whole struct)
				if al, isAl := ir.ResolveCell(base).(*ssa.Alloc); !dirtyCleared && isAl && al.Parent() == fn && zeroLocalNeverDirty(al) {
					filledBefore := true
					for _, cj := range CallsOf(fn) {
						if ir.DeadByConst(cj.Block()) || !ir.InstrReaches(st, cj) {
							continue
						}
						for _, a := range cj.Common().Args {
							if isNodePtr(a.Type()) && sameBase(a, al) {
								filledBefore = false
							}
						}
					}
					if filledBefore {
						dirtyCleared = true
					}
				}
				switch {
				case !dirtyCleared:
					c.Violation(fn, pos, "shared=true on a node that may still be dirty",
						"the node becomes shared (cached, reachable from other versions) without its dirty flag being cleared: savePathForRoot does not copy dirty nodes, so the next change below it edits the shared node in place")
				case !okAll:
					c.Violation(fn, pos, "shared=true without a source name",
						"a node is flagged shared but no non-nil source is recorded on every path: a later flush re-encodes and re-stores it (and writes into the shared node), and the ownership argument's valuation shared ⇒ source≠nil no longer holds")
				case dirtyTrue:
					c.Violation(fn, pos, "shared node marked dirty", "the same function marks the node dirty after flagging it shared: savePathForRoot skips ToMut for dirty nodes and would edit the shared node in place")
				default:
					c.OK(pos, what, "a non-nil source is stored on the same node on every successful path; no dirty=true follows", false)
				}
			}
		}
	}
	// whole-struct literals that set shared=true (unmarshalStringNode's `*node = mastNode{…}`)
	for _, fn := range P.Funcs {
		for _, b := range fn.Blocks {
			for _, ins := range b.Instrs {
				st, ok := ins.(*ssa.Store)
				if !ok || !isNodePtr(st.Addr.Type()) {
					continue
				}
				lit := literalFields(st.Val)
				if lit == nil {
					continue
				}
				sh, hasSh := lit["shared"]
				if !hasSh {
					continue
				}
				if v, isC := ir.ConstBool(sh); !isC || !v {
					continue
				}
				pos := P.InstrPos(st)
				src, hasSrc := lit["source"]
				d, hasD := lit["dirty"]
				dv, dC := false, true
				if hasD {
					dv, dC = ir.ConstBool(d)
				}
				if !hasSrc || ir.IsNilConst(src) {
					c.Violation(fn, pos, "shared=true without a source name", "struct literal flags the node shared with a nil source")
				} else if !dC || dv {
					c.Violation(fn, pos, "shared node marked dirty", "struct literal sets shared and dirty together")
				} else {
					c.OK(pos, "mastNode literal with shared=true in "+ir.FuncName(fn), "dirty=false, source non-nil in the same literal", false)
				}
			}
		}
	}
}

// literalFields: if v is the load of a composite-literal temporary of type
// mastNode, return the values stored into its (flag) fields.
func literalFields(v ssa.Value) map[string]ssa.Value {
	ld, ok := v.(*ssa.UnOp)
	if !ok || ld.Op != token.MUL {
		return nil
	}
	al, ok := ld.X.(*ssa.Alloc)
	if !ok || al.Referrers() == nil || !ir.IsNamed(al.Type().Underlying().(*types.Pointer).Elem(), "mastNode") {
		return nil
	}
	out := map[string]ssa.Value{}
	for _, r := range *al.Referrers() {
		fa, ok := r.(*ssa.FieldAddr)
		if !ok || fa.Referrers() == nil {
			continue
		}
		for _, rr := range *fa.Referrers() {
			if st, ok := rr.(*ssa.Store); ok && st.Addr == fa {
				out[ir.FieldName(fa.X.Type(), fa.Field)] = st.Val
			}
		}
	}
	return out
}

// ---- SHAREDPUB ---------------------------------------------------------------------

type sharedSummary struct {
	c    *Ctx
	memo map[string]int
}

// setsShared: does fn store shared=true on its parameter k on every
// successful return (directly, by a whole-struct literal, or via a callee)?
func (s *sharedSummary) setsShared(fn *ssa.Function, k int) bool {
	key := fmt.Sprintf("%s#%d", ir.FuncName(fn), k)
	switch s.memo[key] {
	case 1, 2:
		return true
	case 3:
		return false
	}
	s.memo[key] = 1
	if k >= len(fn.Params) {
		s.memo[key] = 3
		return false
	}
	p := fn.Params[k]
	pred := s.marks(p)
	ok := true
	ei := ir.ErrorResultIndex(fn.Signature)
	n := 0
	for _, r := range ir.Returns(fn) {
		if ei >= 0 && !ir.IsNilConst(r.Results[ei]) {
			op := r.Results[ei]
			if call, isCall := op.(*ssa.Call); isCall {
				if sc := ir.Callee(call.Call); sc != nil && sc.Pkg != nil && (sc.Pkg.Pkg.Path() == "fmt" || sc.Pkg.Pkg.Path() == "errors") {
					continue // constructed error: error path
				}
				if nilFactOn(r.Block(), call, false) {
					continue // `if err != nil { return err }`: error path
				}
				// `return f(…)`: success is decided by the callee
				if pred(call) {
					n++
					continue
				}
				ok = false
				continue
			}
			if nilFactOn(r.Block(), op, false) {
				continue
			}
			// some other possibly-nil error value: treat as a successful return
		}
		n++
		if !ir.MustPass(r, pred) {
			ok = false
		}
	}
	if n == 0 {
		ok = false
	}
	if ok {
		s.memo[key] = 2
	} else {
		s.memo[key] = 3
	}
	return ok
}

// returnsShared: does fn store shared=true on the node it returns as result k, on every successful return (a decoder
// that builds the node itself: `node, err := m.decodeNode(nodeBytes, l)`)?
func (s *sharedSummary) returnsShared(fn *ssa.Function, k int) bool {
	key := fmt.Sprintf("%s#ret%d", ir.FuncName(fn), k)
	switch s.memo[key] {
	case 2:
		return true
	case 1, 3:
		return false
	}
	s.memo[key] = 1
	ok := fn.Blocks != nil && k < fn.Signature.Results().Len() && isNodePtr(fn.Signature.Results().At(k).Type())
	ei := ir.ErrorResultIndex(fn.Signature)
	n := 0
	for _, r := range ir.Returns(fn) {
		if !ok {
			break
		}
		if ei >= 0 && !ir.IsNilConst(r.Results[ei]) {
			op := r.Results[ei]
			if call, isCall := op.(*ssa.Call); isCall {
				if sc := ir.Callee(call.Call); sc != nil && sc.Pkg != nil && (sc.Pkg.Pkg.Path() == "fmt" || sc.Pkg.Pkg.Path() == "errors") {
					continue // constructed error: error path
				}
			}
			if nilFactOn(r.Block(), op, false) {
				continue // `if err != nil { return nil, err }`: error path
			}
			// some other possibly-nil error value: treat as a successful return
		}
		n++
		v := ir.Strip(r.Results[k])
		if !ir.MustPass(r, s.marks(v)) && !s.producedShared(v) {
			ok = false
		}
	}
	if n == 0 {
		ok = false
	}
	if ok {
		s.memo[key] = 2
	} else {
		s.memo[key] = 3
	}
	return ok
}

// producedShared: v is the node result of a call of a repository function that flags the node it returns.
func (s *sharedSummary) producedShared(v ssa.Value) bool {
	v = ir.Strip(ir.ResolveCell(v))
	k := 0
	if ex, ok := v.(*ssa.Extract); ok {
		k, v = ex.Index, ex.Tuple
	}
	call, ok := v.(*ssa.Call)
	if !ok {
		return false
	}
	h := ir.Callee(call.Call)
	return h != nil && h.Blocks != nil && isOwn(s.c.P, h) && s.returnsShared(h, k)
}

// marks returns a predicate: instruction stores shared=true on node value x
// (or calls a function that does so on every successful return).
func (s *sharedSummary) marks(x ssa.Value) func(ssa.Instruction) bool {
	return func(i ssa.Instruction) bool {
		if b, f, st, ok := flagStore(i); ok && f == "shared" && sameBase(b, x) {
			if v, isC := ir.ConstBool(st.Val); isC && v {
				return true
			}
		}
		if st, ok := i.(*ssa.Store); ok && isNodePtr(st.Addr.Type()) && sameBase(st.Addr, x) {
			if lit := literalFields(st.Val); lit != nil {
				if v, isC := ir.ConstBool(lit["shared"]); lit["shared"] != nil && isC && v {
					return true
				}
			}
		}
		if ci, ok := i.(*ssa.Call); ok {
			for _, callee := range s.c.Facts.Callees(ci) {
				for ai, a := range ci.Call.Args {
					if isNodePtr(a.Type()) && sameBase(a, x) && s.setsShared(callee, ai) {
						// only counts if the call's error is checked: the caller's own
						// return discipline handles that (successful return ⇒ passed the call)
						return true
					}
				}
			}
		}
		return false
	}
}

func runSHAREDPUB(c *Ctx) {
	P := c.P
	S := &sharedSummary{c: c, memo: map[string]int{}}
	n := 0
	check := func(fn *ssa.Function, at ssa.Instruction, node ssa.Value, what string) {
		n++
		pos := P.InstrPos(at)
		// resolve across closures: a node captured from an enclosing function is
		// marked there, before the closure is created
		x := node
		where := at
		if fv, ok := ir.ResolveCell(node).(*ssa.FreeVar); ok {
			_ = fv
		}
		if ld, ok := node.(*ssa.UnOp); ok && ld.Op == token.MUL {
			if fv, ok := ld.X.(*ssa.FreeVar); ok {
				if cell, ok := ir.BindingOf(fv).(*ssa.Alloc); ok {
					if st := ir.SingleStore(cell); st != nil {
						x = st.Val
						// the MakeClosure in the parent
						for _, b := range cell.Parent().Blocks {
							for _, i := range b.Instrs {
								if mc, ok := i.(*ssa.MakeClosure); ok && mc.Fn == fn {
									where = mc
								}
							}
						}
					}
				}
			}
		}
		// the node is a parameter of a private helper that is only ever called (`m.cacheNode(key, node)`):
		// it is flagged before each of the helper's calls, on the argument handed in (depth ≤ 2)
		var atCallers func(h *ssa.Function, use ssa.Instruction, v ssa.Value, d int) bool
		atCallers = func(h *ssa.Function, use ssa.Instruction, v ssa.Value, d int) bool {
			par, isPar := ir.Strip(ir.ResolveCell(v)).(*ssa.Parameter)
			if !isPar || par.Parent() != h || d >= 2 {
				return false
			}
			idx := -1
			for i, q := range h.Params {
				if q == par {
					idx = i
				}
			}
			if idx < 0 {
				return false
			}
			held, _ := viaCallers(c, h, use, nil, func(_ func(string) string, site ssa.Instruction) bool {
				call, isCall := site.(*ssa.Call)
				if !isCall || idx >= len(call.Call.Args) {
					return false
				}
				arg := ir.Strip(call.Call.Args[idx])
				return ir.MustPass(site, S.marks(arg)) || S.producedShared(arg) || atCallers(site.Parent(), site, arg, d+1)
			})
			return held
		}
		if ir.MustPass(where, S.marks(x)) || S.producedShared(x) || (where == at && atCallers(fn, at, x, 0)) {
			c.OK(pos, what, "shared=true is stored on the node on every path before it is published", false)
		} else {
			c.Violation(fn, pos, "node published without shared=true",
				"a node is handed to the cache / returned by the loader without having been flagged shared on every path: ToMut then returns the cached object itself and one tree's edits appear in every tree that loads this node")
		}
	}
	for _, fn := range P.Funcs {
		if fn.Pkg.Pkg.Path() != ir.MastPath {
			continue
		}
		for _, ci := range CallsOf(fn) {
			if c.Facts.External(ci) != "NodeCache.Add" {
				continue
			}
			args := ci.Common().Args
			node := ir.Strip(args[len(args)-1])
			check(fn, ci, node, "NodeCache.Add("+ir.Sym(node)+") in "+ir.FuncName(fn))
		}
	}
	// the loader's result
	if lp := c.MustFunc("(*Mast).loadPersisted"); lp != nil {
		ei := ir.ErrorResultIndex(lp.Signature)
		for _, r := range ir.Returns(lp) {
			if ei >= 0 && !ir.IsNilConst(r.Results[ei]) {
				continue
			}
			v := r.Results[0]
			var fromCacheVal func(v ssa.Value, d int) bool
			fromCacheVal = func(v ssa.Value, d int) bool {
				v = ir.Strip(ir.ResolveCell(v))
				if _, isTA := v.(*ssa.TypeAssert); isTA {
					return true
				}
				// a cache-lookup helper (cachedNode(key)): every node it returns comes out of the cache
				if ex, ok := v.(*ssa.Extract); ok && ex.Index == 0 && d < 2 {
					if call, ok := ex.Tuple.(*ssa.Call); ok {
						if h := ir.Callee(call.Call); h != nil && h.Blocks != nil && isOwn(P, h) {
							n := 0
							for _, hr := range ir.Returns(h) {
								if ir.IsNilConst(hr.Results[0]) {
									continue
								}
								n++
								if !fromCacheVal(hr.Results[0], d+1) {
									return false
								}
							}
							return n > 0
						}
					}
				}
				return false
			}
			if fromCacheVal(v, 0) {
				c.OK(P.InstrPos(r), "loader returns a cached node", "published earlier under the same rule", true)
				continue
			}
			check(lp, r, v, "loader returns "+ir.Sym(v))
		}
	}
	_ = n
}

// ---- ALIAS -------------------------------------------------------------------------

func freshBacked(v ssa.Value, ownBase ssa.Value, ownField string, d int) (bool, string) {
	return freshBackedE(v, ownBase, ownField, d, nil)
}

func freshBackedE(v ssa.Value, ownBase ssa.Value, ownField string, d int, env *penv) (bool, string) {
	if d > 8 {
		return false, "too deep"
	}
	switch x := v.(type) {
	case *ssa.MakeSlice:
		return true, "make"
	case *ssa.Const:
		return true, "nil"
	case *ssa.Slice:
		if _, ok := x.X.(*ssa.Alloc); ok {
			return true, "slice literal"
		}
		// reslice of the node's own field
		if b, f, ok := nodeSliceRoot(x); ok {
			if f == ownField && sameBase(b, ownBase) {
				return true, "reslice of the node's own ." + f
			}
			return false, "reslice of another node's ." + f
		}
		return freshBackedE(x.X, ownBase, ownField, d+1, env)
	case *ssa.Call:
		if b, ok := x.Call.Value.(*ssa.Builtin); ok && b.Name() == "append" {
			return freshBackedE(x.Call.Args[0], ownBase, ownField, d+1, env)
		}
		if _, ok := stdSliceOp(x); ok {
			return freshBackedE(x.Call.Args[0], ownBase, ownField, d+1, env)
		}
		// a slice helper (removeAt(node.Key, i)): every value it returns, with its parameters bound to the arguments
		if rets, ne, callee := helperReturns(x, env); rets != nil && d < 6 {
			for _, rv := range rets {
				if ok, why := freshBackedE(rv, ownBase, ownField, d+2, ne); !ok {
					return false, why + " (returned by " + callee.Name() + ")"
				}
			}
			return true, "result of " + callee.Name() + ": backed by its argument or fresh"
		}
		return false, "result of a call"
	case *ssa.Extract:
		if rets, ne, callee := helperReturns(x, env); rets != nil && d < 6 {
			for _, rv := range rets {
				if ok, why := freshBackedE(rv, ownBase, ownField, d+2, ne); !ok {
					return false, why + " (returned by " + callee.Name() + ")"
				}
			}
			return true, "result of " + callee.Name() + ": backed by its argument or fresh"
		}
		return false, "result of a call"
	case *ssa.Parameter:
		if a, up, ok := env.lookup(x); ok {
			return freshBackedE(a, ownBase, ownField, d+1, up)
		}
		return false, "a parameter"
	case *ssa.UnOp:
		if x.Op == token.MUL {
			if b, f, _, ok := nodeBaseOfAddr(x.X); ok {
				if f == ownField && sameBase(b, ownBase) {
					return true, "the node's own ." + f
				}
				return false, "another node's ." + f
			}
		}
		return false, "loaded slice"
	case *ssa.Phi:
		for _, e := range x.Edges {
			if ok, why := freshBackedE(e, ownBase, ownField, d+1, env); !ok {
				return false, why
			}
		}
		return true, "phi of fresh-backed slices"
	}
	return false, fmt.Sprintf("%T", v)
}

func runALIAS(c *Ctx) {
	P := c.P
	A := c.Facts.Own()
	for _, w := range A.Writes {
		st, ok := w.Instr.(*ssa.Store)
		if !ok {
			continue
		}
		pos := P.InstrPos(st)
		switch w.Kind {
		case "field":
			if w.Field == "Node" {
				// node.Node = other.Node: the embedded struct that holds the three lists, copied as a whole
				ld, isLd := st.Val.(*ssa.UnOp)
				if !isLd || ld.Op != token.MUL {
					continue
				}
				if _, fromLit := ld.X.(*ssa.Alloc); fromLit {
					continue // composite literal temporary
				}
				c.Violation(w.Fn, pos, "node struct copied with shared backing arrays",
					"the embedded Node (Key, Value and Link together) of one node is assigned to another node: both now share the three backing arrays, so a later in-place insert/delete in one of them (append within capacity, element store) changes the other — including nodes of other versions reached through a cache")
				continue
			}
			if w.Field != "Key" && w.Field != "Value" && w.Field != "Link" {
				continue
			}
			what := fmt.Sprintf("%s.%s = … in %s", ir.Sym(w.Base), w.Field, ir.FuncName(w.Fn))
			if ok, why := freshBacked(st.Val, w.Base, w.Field, 0); ok {
				c.OK(pos, what, why, false)
			} else {
				c.Violation(w.Fn, pos, "node."+w.Field+" set to a slice that is "+why,
					"two nodes would share one backing array: a later in-place insert/delete in one of them (append within capacity, element store) changes the other — including nodes of other versions")
			}
		case "whole":
			// *dst = *src (struct copy shares all three backing arrays)
			ld, isLd := st.Val.(*ssa.UnOp)
			if !isLd || ld.Op != token.MUL || !isNodePtr(ld.X.Type()) {
				continue
			}
			if _, fromLit := ld.X.(*ssa.Alloc); fromLit {
				continue // composite literal temporary
			}
			dst, isAlloc := st.Addr.(*ssa.Alloc)
			what := fmt.Sprintf("struct copy *%s = *%s in %s", ir.Sym(st.Addr), ir.Sym(ld.X), ir.FuncName(w.Fn))
			if isAlloc && !allocEscapes(dst) {
				c.OK(pos, what, "copy into a local that never escapes (read-only use)", false)
			} else {
				c.Violation(w.Fn, pos, "node struct copied with shared backing arrays", "a whole mastNode is copied into a node that can become part of a tree; both now share Key/Value/Link backing arrays")
			}
		}
	}
}

func allocEscapes(a *ssa.Alloc) bool {
	if a.Referrers() == nil {
		return false
	}
	for _, r := range *a.Referrers() {
		switch x := r.(type) {
		case *ssa.FieldAddr, *ssa.DebugRef, *ssa.UnOp:
		case *ssa.Store:
			if x.Addr != a {
				return true
			}
		default:
			return true
		}
	}
	return false
}

// ---- CLONE ---------------------------------------------------------------------------

func runCLONE(c *Ctx) {
	P := c.P
	clone := c.MustFunc("(*Mast).Clone")
	toShared := c.MustFunc("(*mastNode).ToShared")
	if clone == nil || toShared == nil {
		return
	}
	clone = cloneBodyFn(c, clone)
	A := c.Facts.Own()
	// (1) every store to the root of the Mast that Clone returns is ToShared(load(m.root))#0
	n := 0
	for _, b := range clone.Blocks {
		for _, ins := range b.Instrs {
			st, ok := ins.(*ssa.Store)
			if !ok {
				continue
			}
			fa, ok := st.Addr.(*ssa.FieldAddr)
			if !ok || !ir.IsPtrToNamed(fa.X.Type(), "Mast") || ir.FieldName(fa.X.Type(), fa.Field) != "root" {
				continue
			}
			n++
			v := ir.Strip(st.Val)
			okV := false
			if ex, isEx := v.(*ssa.Extract); isEx && ex.Index == 0 {
				if call, isCall := ex.Tuple.(*ssa.Call); isCall && ir.Callee(call.Call) == toShared {
					okV = true
				}
			}
			if okV {
				c.OK(P.InstrPos(st), "Clone installs ToShared(root) as the clone's root", "value is result #0 of ToShared", false)
			} else {
				c.Violation(clone, P.InstrPos(st), "Clone root not produced by ToShared", "the clone's root must be the ToShared form of the loaded root; installing the live node lets the two trees mutate the same unshared nodes")
			}
		}
	}
	// (1b) once the root was loaded, no successful return may skip installing it: a clone that keeps the
	// name makes every user of the clone (Cursor) fetch the top node again
	{
		load := c.P.MastFunc("(*Mast).load")
		ei := ir.ErrorResultIndex(clone.Signature)
		for _, ci := range CallsOf(clone) {
			if load == nil || ir.Callee(ci.Common()) != load {
				continue
			}
			isRootStore := func(i ssa.Instruction) bool {
				st, ok := i.(*ssa.Store)
				if !ok {
					return false
				}
				fa, ok := st.Addr.(*ssa.FieldAddr)
				return ok && ir.IsPtrToNamed(fa.X.Type(), "Mast") && ir.FieldName(fa.X.Type(), fa.Field) == "root"
			}
			for _, r := range ir.Returns(clone) {
				if ei < 0 || !ir.IsNilConst(r.Results[ei]) || !ir.InstrReaches(ci, r) {
					continue
				}
				// is there a path load → return that avoids every root store?
				skipped := false
				seen := map[*ssa.BasicBlock]bool{}
				var walk func(b *ssa.BasicBlock, from int)
				walk = func(b *ssa.BasicBlock, from int) {
					if skipped || (from == 0 && seen[b]) {
						return
					}
					if from == 0 {
						seen[b] = true
					}
					for i := from; i < len(b.Instrs); i++ {
						if isRootStore(b.Instrs[i]) {
							return
						}
						if b.Instrs[i] == ssa.Instruction(r) {
							skipped = true
							return
						}
					}
					for _, s2 := range b.Succs {
						walk(s2, 0)
					}
				}
				walk(ci.Block(), ir.InstrIndex(ci)+1)
				if skipped {
					f := c.Violation(clone, P.InstrPos(r), "Clone can return without installing the loaded root", "on some path the clone keeps the root's name although the node was loaded: every use of the clone (Cursor) has to fetch the top node a second time, and the clone does not share the in-memory root")
					f.Props = []string{"C16"} // a kept name is still an immutable version: only the read bound breaks
				} else {
					c.OK(P.InstrPos(r), "Clone installs the loaded root on every successful path", "every path from the load to the return passes the root store", false)
				}
			}
		}
	}
	if n == 0 {
		// no store: m2 := *m copies the root verbatim — only safe if the root is a name or nil
		c.Violation(clone, P.Pos(clone.Pos()), "Clone never replaces the root", "Clone copies the Mast struct but never installs a ToShared root: both trees keep pointing at the same unshared in-memory nodes")
	}
	// (2) ToShared's returns
	ei := ir.ErrorResultIndex(toShared.Signature)
	recv := toShared.Params[0]
	var copyV ssa.Value
	for _, r := range ir.Returns(toShared) {
		if ei >= 0 && !ir.IsNilConst(r.Results[ei]) {
			continue
		}
		v := r.Results[0]
		cl := A.Classify(v, r)
		switch {
		case ir.ResolveCell(v) == ssa.Value(recv) || cl.Own == ParamOwn:
			// only under `shared`
			okF := false
			for _, f := range ir.FactsAt(r.Block()) {
				cond, truth := f.Cond, f.Truth
				if u, ok := cond.(*ssa.UnOp); ok && u.Op == token.NOT {
					cond, truth = u.X, !truth
				}
				if ld, ok := cond.(*ssa.UnOp); ok && ld.Op == token.MUL {
					if fa, ok := ld.X.(*ssa.FieldAddr); ok && isNodePtr(fa.X.Type()) && ir.FieldName(fa.X.Type(), fa.Field) == "shared" && truth && ir.ResolveCell(fa.X) == ssa.Value(recv) {
						okF = true
					}
				}
			}
			if okF {
				c.OK(P.InstrPos(r), "ToShared returns its receiver", "only on the edge where receiver.shared is true", false)
			} else {
				c.Violation(toShared, P.InstrPos(r), "ToShared returns an unshared receiver", "an unshared (privately mutable) node is handed to the clone without copying")
			}
		case cl.Own == Fresh:
			copyV = v
			c.OK(P.InstrPos(r), "ToShared returns a fresh copy", cl.Why, false)
		default:
			c.Violation(toShared, P.InstrPos(r), "ToShared returns a node that is neither shared nor a fresh copy", cl.Why)
		}
	}
	// (3) children: a store into the copy's Link slot of the recursive call's result
	if copyV != nil {
		rec := false
		for _, w := range A.Writes {
			if w.Fn != toShared || w.Field != "Link" || w.Kind != "elem" {
				continue
			}
			st := w.Instr.(*ssa.Store)
			v := ir.Strip(st.Val)
			if ex, ok := v.(*ssa.Extract); ok && ex.Index == 0 {
				if call, ok := ex.Tuple.(*ssa.Call); ok && ir.Callee(call.Call) == toShared {
					// the receiver of the recursive call is the *mastNode found in the ranged link, and the only
					// way past it is `l.shared`
					rec = true
					c.OK(P.InstrPos(st), "ToShared replaces in-memory child links by their ToShared", "recursive result stored into the copy's Link slot", false)
				}
			}
		}
		if !rec {
			c.Violation(toShared, P.Pos(toShared.Pos()), "ToShared does not deep-copy unshared children", "unshared child nodes stay referenced by both trees: a later in-place edit through one tree shows in the clone")
		}
		// skipping a *mastNode child is allowed only when it is shared: from the
		// type-switch case of an in-memory child, every way out of the case body
		// either stores the recursive result or is the edge `child.shared == true`.
		for _, b := range toShared.Blocks {
			for _, ins := range b.Instrs {
				ex, ok := ins.(*ssa.Extract)
				if !ok || ex.Index != 0 {
					continue
				}
				ta, ok := ex.Tuple.(*ssa.TypeAssert)
				if !ok || !ta.CommaOk || !isNodePtr(ta.AssertedType) {
					continue
				}
				// the case body: successor taken when ok is true
				var body *ssa.BasicBlock
				if iff, isIf := b.Instrs[len(b.Instrs)-1].(*ssa.If); isIf {
					if okv, isEx := iff.Cond.(*ssa.Extract); isEx && okv.Tuple == ssa.Value(ta) && okv.Index == 1 {
						body = b.Succs[0]
					}
				}
				if body == nil {
					continue
				}
				storeBlocks := map[*ssa.BasicBlock]bool{}
				for _, w := range A.Writes {
					if w.Fn == toShared && w.Field == "Link" && w.Kind == "elem" {
						if ex2, ok := ir.Strip(w.Instr.(*ssa.Store).Val).(*ssa.Extract); ok {
							if call, ok := ex2.Tuple.(*ssa.Call); ok && ir.Callee(call.Call) == toShared && ir.Strip(call.Call.Args[0]) == ssa.Value(ex) {
								storeBlocks[w.Instr.Block()] = true
							}
						}
					}
				}
				reach := ir.ReachableFrom(body, func(from, to *ssa.BasicBlock) bool {
					if storeBlocks[to] {
						return true
					}
					// the edge taken when child.shared is true
					if len(from.Instrs) > 0 {
						if iff, ok := from.Instrs[len(from.Instrs)-1].(*ssa.If); ok {
							cond, truth := iff.Cond, true
							if u, ok := cond.(*ssa.UnOp); ok && u.Op == token.NOT {
								cond, truth = u.X, false
							}
							if ld, ok := cond.(*ssa.UnOp); ok && ld.Op == token.MUL {
								if fa, ok := ld.X.(*ssa.FieldAddr); ok && ir.FieldName(fa.X.Type(), fa.Field) == "shared" && fa.X == ssa.Value(ex) {
									if (truth && to == from.Succs[0]) || (!truth && to == from.Succs[1]) {
										return true
									}
								}
							}
						}
					}
					return false
				})
				escaped := false
				for rb := range reach {
					if rb != body && !body.Dominates(rb) {
						escaped = true
					}
				}
				if storeBlocks[body] {
					escaped = false
				}
				if escaped {
					c.Violation(toShared, P.InstrPos(ta), "unshared child skipped by ToShared", "an in-memory child that is not shared can be left in the copy without going through ToShared: the clone and the original keep a common mutable node")
				} else {
					c.OK(P.InstrPos(ta), "in-memory children of the copy", "every *mastNode child either is shared or is replaced by its ToShared", false)
				}
			}
		}
	}
}

// ---- ESCAPE ----------------------------------------------------------------------------

func mentionsNode(t types.Type, seen map[types.Type]bool) bool {
	if seen[t] {
		return false
	}
	seen[t] = true
	switch x := t.(type) {
	case *types.Named:
		if x.Obj().Name() == "mastNode" && x.Obj().Pkg() != nil && x.Obj().Pkg().Path() == ir.MastPath {
			return true
		}
		if x.Obj().Pkg() == nil || x.Obj().Pkg().Path() != ir.MastPath {
			return false
		}
		if !x.Obj().Exported() {
			// an unexported named type in a signature is opaque to users, but
			// its exported fields/methods are reachable: look inside
		}
		return mentionsNode(x.Underlying(), seen)
	case *types.Pointer:
		return mentionsNode(x.Elem(), seen)
	case *types.Slice:
		return mentionsNode(x.Elem(), seen)
	case *types.Array:
		return mentionsNode(x.Elem(), seen)
	case *types.Map:
		return mentionsNode(x.Key(), seen) || mentionsNode(x.Elem(), seen)
	case *types.Chan:
		return mentionsNode(x.Elem(), seen)
	case *types.Signature:
		for i := 0; i < x.Params().Len(); i++ {
			if mentionsNode(x.Params().At(i).Type(), seen) {
				return true
			}
		}
		for i := 0; i < x.Results().Len(); i++ {
			if mentionsNode(x.Results().At(i).Type(), seen) {
				return true
			}
		}
	case *types.Struct:
		for i := 0; i < x.NumFields(); i++ {
			if x.Field(i).Exported() && mentionsNode(x.Field(i).Type(), seen) {
				return true
			}
		}
	}
	return false
}

func runESCAPE(c *Ctx) {
	pkg := c.P.Pkgs[ir.MastPath]
	if pkg == nil {
		c.AnchorMissing("package mast")
		return
	}
	scope := pkg.Types.Scope()
	for _, name := range scope.Names() {
		obj := scope.Lookup(name)
		if !obj.Exported() {
			continue
		}
		pos := c.P.Pos(obj.Pos())
		switch o := obj.(type) {
		case *types.Func:
			if mentionsNode(o.Type(), map[types.Type]bool{}) {
				c.Violation(nil, pos, "exported func "+name+" exposes mastNode", "user code can obtain a node and mutate it behind the copy-on-write discipline")
			} else {
				c.OK(pos, "exported func "+name, "signature does not mention mastNode", true)
			}
		case *types.Var:
			if mentionsNode(o.Type(), map[types.Type]bool{}) {
				c.Violation(nil, pos, "exported var "+name+" exposes mastNode", "a node is reachable through an exported variable")
			} else {
				c.OK(pos, "exported var "+name, "type does not mention mastNode", true)
			}
		case *types.TypeName:
			n, ok := o.Type().(*types.Named)
			if !ok {
				continue
			}
			bad := ""
			if st, ok := n.Underlying().(*types.Struct); ok {
				for i := 0; i < st.NumFields(); i++ {
					if st.Field(i).Exported() && mentionsNode(st.Field(i).Type(), map[types.Type]bool{}) {
						bad = "field " + st.Field(i).Name()
					}
				}
			}
			for i := 0; i < n.NumMethods(); i++ {
				m := n.Method(i)
				if m.Exported() && mentionsNode(m.Type().(*types.Signature), map[types.Type]bool{}) {
					// the receiver itself is not a mention
					sig := m.Type().(*types.Signature)
					noRecv := types.NewSignatureType(nil, nil, nil, sig.Params(), sig.Results(), sig.Variadic())
					if mentionsNode(noRecv, map[types.Type]bool{}) {
						bad = "method " + m.Name()
					}
				}
			}
			if bad != "" {
				c.Violation(nil, pos, "exported type "+name+" exposes mastNode via "+bad, "user code can obtain a node")
			} else {
				c.OK(pos, "exported type "+name, "no exported field or method mentions mastNode", true)
			}
		}
	}
	// methods of mastNode itself that are exported (ToMut, ToShared, Dirty) are unreachable for users
	// because the type is unexported and never escapes; recorded as a note.
	c.Note("exported-looking methods of the unexported type mastNode (ToMut, ToShared, Dirty) are unreachable from user code as long as no exported signature mentions mastNode")
}

// ---- GLOBAL ----------------------------------------------------------------------------

func globalRoot(addr ssa.Value) *ssa.Global {
	for i := 0; i < 10; i++ {
		switch x := addr.(type) {
		case *ssa.Global:
			return x
		case *ssa.FieldAddr:
			addr = x.X
		case *ssa.IndexAddr:
			addr = x.X
		default:
			return nil
		}
	}
	return nil
}

func runGLOBAL(c *Ctx) {
	P := c.P
	n := 0
	for _, fn := range P.Funcs {
		bad := false
		for _, b := range fn.Blocks {
			for _, ins := range b.Instrs {
				st, ok := ins.(*ssa.Store)
				if !ok {
					continue
				}
				if g := globalRoot(st.Addr); g != nil {
					bad = true
					c.Violation(fn, P.InstrPos(st), "store to package variable "+g.Name(), "trees in different goroutines share this variable: an unsynchronised write is a data race and couples independent trees")
				}
			}
		}
		if !bad {
			n++
		}
	}
	c.OK("-", fmt.Sprintf("%d functions scanned for stores to package-level variables", n), "none outside the package initialiser", false)
	// append / copy into storage that belongs to a package variable (path := scratch[:0]; path = append(path, x)):
	// the write happens inside the builtin, there is no store instruction to see
	var globalBacked func(v ssa.Value, d int) *ssa.Global
	globalBacked = func(v ssa.Value, d int) *ssa.Global {
		if d > 8 {
			return nil
		}
		switch x := ir.ResolveCell(v).(type) {
		case *ssa.Global:
			return x
		case *ssa.Slice:
			return globalBacked(x.X, d+1)
		case *ssa.UnOp:
			if x.Op == token.MUL {
				return globalBacked(x.X, d+1)
			}
		case *ssa.ChangeType:
			return globalBacked(x.X, d+1)
		case *ssa.IndexAddr:
			return globalBacked(x.X, d+1)
		case *ssa.FieldAddr:
			return globalBacked(x.X, d+1)
		case *ssa.Call:
			if b, ok := x.Call.Value.(*ssa.Builtin); ok && b.Name() == "append" {
				return globalBacked(x.Call.Args[0], d+1)
			}
		case *ssa.Phi:
			for _, e := range x.Edges {
				if g := globalBacked(e, d+1); g != nil {
					return g
				}
			}
		}
		return nil
	}
	for _, fn := range P.Funcs {
		for _, ci := range CallsOf(fn) {
			call, ok := ci.(*ssa.Call)
			if !ok {
				continue
			}
			b, ok := call.Call.Value.(*ssa.Builtin)
			if !ok || (b.Name() != "append" && b.Name() != "copy") {
				continue
			}
			if g := globalBacked(call.Call.Args[0], 0); g != nil {
				c.Violation(fn, P.InstrPos(call), b.Name()+" into storage of package variable "+g.Name(),
					"the slice being appended to (or copied into) is carved out of a package-level variable: independent trees used from different goroutines write the same memory (a data race that corrupts each other's scratch state)")
			}
		}
	}
	// element/field writes through a loaded global pointer (e.g. crcTable[i] = …)
	for _, fn := range P.Funcs {
		for _, b := range fn.Blocks {
			for _, ins := range b.Instrs {
				st, ok := ins.(*ssa.Store)
				if !ok {
					continue
				}
				s := ir.Sym(st.Addr)
				if strings.HasPrefix(strings.TrimLeft(s, "*"), "G:") && globalRoot(st.Addr) == nil {
					c.Violation(fn, P.InstrPos(st), "store through package variable "+strings.TrimLeft(s, "*"), "memory reachable from a package-level variable is written at run time")
				}
			}
		}
	}
}

// paramIsZeroLocal: base is a parameter that every caller binds to the address
// of a local mastNode variable which is never written a dirty=true (a freshly
// zero-initialised node, as the loader's `var node mastNode`).
func paramIsZeroLocal(c *Ctx, fn *ssa.Function, base ssa.Value, depth int) bool {
	p, ok := ir.ResolveCell(base).(*ssa.Parameter)
	if !ok || depth > 3 {
		return false
	}
	idx := paramIndex(p)
	callers := c.Facts.Own().rcallers[fn]
	if len(callers) == 0 {
		return false
	}
	for _, cs := range callers {
		if idx >= len(cs.Common().Args) {
			return false
		}
		a := cs.Common().Args[idx]
		switch x := ir.ResolveCell(a).(type) {
		case *ssa.Alloc:
			// no dirty=true store on this local
			if !zeroLocalNeverDirty(x) {
				return false
			}
		case *ssa.Parameter:
			if !paramIsZeroLocal(c, cs.Parent(), x, depth+1) {
				return false
			}
		default:
			return false
		}
	}
	return true
}

// zeroLocalNeverDirty: x is a local mastNode variable (zero-initialised by its declaration) on which its function
// never stores a dirty flag other than the constant false.
func zeroLocalNeverDirty(x *ssa.Alloc) bool {
	if pt, ok := x.Type().Underlying().(*types.Pointer); !ok || !ir.IsNamed(pt.Elem(), "mastNode") {
		return false
	}
	for _, b := range x.Parent().Blocks {
		for _, ins := range b.Instrs {
			if bb, f, s, ok := flagStore(ins); ok && f == "dirty" && sameBase(bb, x) {
				if v, isC := ir.ConstBool(s.Val); !isC || v {
					return false
				}
			}
		}
	}
	return true
}

// ---- CAPTURED ------------------------------------------------------------------------

func init() {
	Register(&Rule{ID: "CAPTURED", Props: []string{"C11"}, Min: 2,
		Doc: "a closure that outlives the call that creates it (it is returned, or stored into a field, map or package variable: DefaultLayer, DefaultKeyCompare, marshal wrappers — Clone copies such function values, so every tree and goroutine shares them) never writes a variable it captured: no store, append-and-store, element/field write or map update through a free variable.",
		Run: runCAPTURED})
}

// closureEscapes: may the closure value outlive the function that creates it?
func closureEscapes(mc *ssa.MakeClosure) (bool, string) {
	seen := map[ssa.Value]bool{}
	work := []ssa.Value{mc}
	for len(work) > 0 {
		v := work[0]
		work = work[1:]
		if seen[v] || v.Referrers() == nil {
			continue
		}
		seen[v] = true
		for _, r := range *v.Referrers() {
			switch x := r.(type) {
			case *ssa.Return:
				return true, "returned"
			case *ssa.Store:
				if x.Val != v {
					continue
				}
				switch a := x.Addr.(type) {
				case *ssa.Alloc:
					// a local variable holding the closure: follow its loads
					if a.Referrers() != nil {
						for _, ar := range *a.Referrers() {
							if ld, ok := ar.(*ssa.UnOp); ok && ld.Op == token.MUL {
								work = append(work, ld)
							}
						}
					}
				default:
					return true, "stored into " + pathDesc(ir.Sym(x.Addr))
				}
			case *ssa.MapUpdate:
				if x.Value == v {
					return true, "stored into a map"
				}
			case *ssa.MakeInterface, *ssa.ChangeType, *ssa.Phi:
				work = append(work, r.(ssa.Value))
			}
		}
	}
	return false, ""
}

// freeVarRoot: the free variable an address (or a loaded container) is reached through.
func freeVarRoot(v ssa.Value, d int) *ssa.FreeVar {
	if d > 10 {
		return nil
	}
	switch x := v.(type) {
	case *ssa.FreeVar:
		return x
	case *ssa.FieldAddr:
		return freeVarRoot(x.X, d+1)
	case *ssa.IndexAddr:
		return freeVarRoot(x.X, d+1)
	case *ssa.UnOp:
		if x.Op == token.MUL {
			return freeVarRoot(x.X, d+1)
		}
	case *ssa.Slice:
		return freeVarRoot(x.X, d+1)
	case *ssa.ChangeType:
		return freeVarRoot(x.X, d+1)
	}
	return nil
}

func runCAPTURED(c *Ctx) {
	P := c.P
	for _, fn := range P.Funcs {
		if fn.Pkg.Pkg.Path() != ir.MastPath {
			continue
		}
		for _, b := range fn.Blocks {
			for _, ins := range b.Instrs {
				mc, ok := ins.(*ssa.MakeClosure)
				if !ok {
					continue
				}
				esc, how := closureEscapes(mc)
				if !esc {
					continue
				}
				body, _ := mc.Fn.(*ssa.Function)
				if body == nil {
					continue
				}
				what := fmt.Sprintf("closure %s (%s by %s)", ir.FuncName(body), how, ir.FuncName(fn))
				bad := false
				for _, g := range append([]*ssa.Function{body}, allAnon(body)...) {
					for _, gb := range g.Blocks {
						for _, gi := range gb.Instrs {
							var addr ssa.Value
							switch y := gi.(type) {
							case *ssa.Store:
								addr = y.Addr
							case *ssa.MapUpdate:
								addr = y.Map
							}
							if addr == nil {
								continue
							}
							fv := freeVarRoot(addr, 0)
							if fv == nil {
								continue
							}
							// resolve a nested closure's free variable outwards: state declared inside the shared
							// closure itself is per-call; only what comes from outside it is shared
							outside := false
							cur := fv
							for i := 0; i < 6 && cur != nil; i++ {
								if cur.Parent() == body {
									outside = true
									break
								}
								bnd := ir.BindingOf(cur)
								if bnd == nil {
									outside = true // created at several sites: assume shared
									break
								}
								cur = freeVarRoot(bnd, 0)
							}
							if !outside {
								continue
							}
							bad = true
							c.Violation(body, P.InstrPos(gi), "shared closure writes captured variable "+fv.Name(),
								"the function value is shared by every tree that was configured with it (Clone copies it) and by all goroutines using those trees: a write to a captured variable is a data race and couples independent trees (e.g. a reused scratch buffer corrupts another goroutine's layer computation)")
						}
					}
				}
				if !bad {
					c.OK(P.InstrPos(mc), what, "writes no captured variable", false)
				}
			}
		}
	}
}

// ---- SHAREDSELF ----------------------------------------------------------------------

func init() {
	Register(&Rule{ID: "SHAREDSELF", Props: []string{"C13", "C16"}, Min: 1,
		Doc: "ToShared hands out a node that is already shared (persisted or loaded) as it is: some successful return yields the receiver, and the copying call (xcopy) sits on the edge where receiver.shared is false — otherwise every Clone/Cursor of an unmodified tree holds an unsaved duplicate of the top node, reports dirty and rewrites it.",
		Run: func(c *Ctx) {
			P := c.P
			toShared := c.MustFunc("(*mastNode).ToShared")
			if toShared == nil {
				return
			}
			ei := ir.ErrorResultIndex(toShared.Signature)
			recv := toShared.Params[0]
			// (2b) a node that is already shared is handed out as it is: copying it would give the clone a private, unsaved
			// duplicate of a persisted node (the clone of an unmodified tree would report dirty and rewrite its top node)
			{
				returnsSelf := false
				for _, r := range ir.Returns(toShared) {
					if ei >= 0 && !ir.IsNilConst(r.Results[ei]) {
						continue
					}
					if ir.ResolveCell(r.Results[0]) == ssa.Value(recv) {
						returnsSelf = true
					}
				}
				var f *Finding
				if !returnsSelf {
					f = c.Violation(toShared, P.Pos(toShared.Pos()), "ToShared copies nodes that are already shared",
						"ToShared no longer returns a shared receiver unchanged: every Clone (and every Cursor) now duplicates the persisted top node into an unsaved copy, so an unmodified clone reports itself dirty and MakeRoot rewrites a node although nothing was modified")
				} else {
					// …and no copy is made on the shared edge
					for _, ci := range CallsOf(toShared) {
						callee := ir.Callee(ci.Common())
						if callee == nil || callee.Name() != "xcopy" {
							continue
						}
						guarded := false
						for _, fc := range ir.FactsAt(ci.Block()) {
							cond, truth := fc.Cond, fc.Truth
							if u, ok := cond.(*ssa.UnOp); ok && u.Op == token.NOT {
								cond, truth = u.X, !truth
							}
							if ld, ok := cond.(*ssa.UnOp); ok && ld.Op == token.MUL {
								if fa, ok := ld.X.(*ssa.FieldAddr); ok && isNodePtr(fa.X.Type()) && ir.FieldName(fa.X.Type(), fa.Field) == "shared" && !truth {
									guarded = true
								}
							}
						}
						if guarded {
							c.OK(P.InstrPos(ci), "ToShared copies only unshared nodes", "xcopy on the edge where receiver.shared is false", false)
						} else {
							f = c.Violation(toShared, P.InstrPos(ci), "ToShared copies nodes that are already shared", "the copy is made without receiver.shared having been tested false")
						}
					}
				}
				_ = f
			}
		}})
}

// cloneBodyFn: Clone itself, or the private helper that builds the copy when Clone only hands on that helper's first
// result (`m2, _, err := m.snapshot(ctx); …; return m2, nil`).
func cloneBodyFn(c *Ctx, clone *ssa.Function) *ssa.Function {
	ei := ir.ErrorResultIndex(clone.Signature)
	var h *ssa.Function
	for _, r := range ir.Returns(clone) {
		if ei >= 0 && ei < len(r.Results) && !ir.IsNilConst(r.Results[ei]) {
			continue
		}
		v := ir.ResolveCell(r.Results[0])
		if ld, ok := v.(*ssa.UnOp); ok && ld.Op == token.MUL {
			// a local Mast filled from the helper's result: `*m2 = extract #0`
			if al, ok := ld.X.(*ssa.Alloc); ok && al.Referrers() != nil {
				for _, ref := range *al.Referrers() {
					if st, ok := ref.(*ssa.Store); ok && st.Addr == ssa.Value(al) {
						v = st.Val
					}
				}
			}
		}
		ex, ok := v.(*ssa.Extract)
		if !ok || ex.Index != 0 {
			return clone
		}
		call, ok := ex.Tuple.(*ssa.Call)
		if !ok {
			return clone
		}
		g := ir.Callee(call.Call)
		if g == nil || g.Blocks == nil || !isOwn(c.P, g) || (h != nil && g != h) {
			return clone
		}
		h = g
	}
	if h == nil {
		return clone
	}
	return h
}
