package rules

// ERRSTATE — a failing operation does not write tree state on its way out.
//
// COMMIT and NAVCOMMIT look for effects that *precede* a fallible step. The complement: once a step has failed and the
// operation is on a path that can only end in an error return, it must not start writing the tree either. A "sticky
// invalid" mark set by a failed Insert (adv17-a2, implementing the source's old "XXX mark tree invalid if split
// fails") makes the retry — and every later Insert or Delete — fail for ever, where C12 promises that "the same call
// succeeds with the normal result when retried after the fault has cleared".

import (
	"golang.org/x/tools/go/ssa"

	"mastcheck/ir"
)

func init() {
	Register(&Rule{ID: "ERRSTATE", Props: []string{"C12"}, Min: 1,
		Doc: "in Insert, Delete and the read operations (and the repository functions only they reach), a basic block from which only returns of a non-nil error are reachable contains no store into a field of a non-local Mast and no call of a repository method on the address of such a field whose body stores through its receiver: what a failed call leaves behind in the tree (an 'invalid' mark, a counter, a remembered error) changes how the retry behaves. Stores into nodes before a fallible step are COMMIT's subject; this rule covers the tree object itself on the error edge.",
		Run: runERRSTATE})
}

func runERRSTATE(c *Ctx) {
	P := c.P
	entries := c.Entries("(*Mast).Insert", "(*Mast).Delete", "(*Mast).Get", "(*Mast).Iter", "(*Mast).SeekIter", "(*Mast).Clone", "(*Mast).Cursor",
		"(*Mast).DiffIter", "(*Mast).DiffLinks")
	if len(entries) == 0 {
		return
	}
	reach := c.Facts.Reach(entries...)
	// methods that store through their pointer receiver
	recvWriter := map[*ssa.Function]bool{}
	for _, fn := range P.Funcs {
		if fn.Signature.Recv() == nil || len(fn.Params) == 0 {
			continue
		}
		for _, b := range fn.Blocks {
			for _, ins := range b.Instrs {
				if st, ok := ins.(*ssa.Store); ok {
					if fa, ok := st.Addr.(*ssa.FieldAddr); ok && ir.ResolveCell(fa.X) == ssa.Value(fn.Params[0]) {
						recvWriter[fn] = true
					}
				}
			}
		}
	}
	n := 0
	for _, fn := range P.Funcs {
		if !reach[fn] || fn.Pkg == nil || fn.Pkg.Pkg.Path() != ir.MastPath {
			continue
		}
		ei := ir.ErrorResultIndex(fn.Signature)
		if ei < 0 {
			continue
		}
		// blocks that can reach a return without a definite error
		okRet := map[*ssa.BasicBlock]bool{}
		for _, r := range ir.Returns(fn) {
			if ei >= len(r.Results) || ir.IsNilConst(r.Results[ei]) {
				okRet[r.Block()] = true
				continue
			}
			// an error value that may be nil (`return err` after the last step, `return m.helper(ctx)`) counts as a
			// success return; a definite error is a freshly constructed one or a value known non-nil here
			definite := false
			if call, isCall := r.Results[ei].(*ssa.Call); isCall {
				if id := staticID(call); id == "fmt.Errorf" || id == "errors.New" {
					definite = true
				}
			} else if ir.FlowNonNil(r.Results[ei], r) {
				definite = true
			}
			if !definite {
				okRet[r.Block()] = true
			}
		}
		canOK := map[*ssa.BasicBlock]bool{}
		for b := range okRet {
			canOK[b] = true
		}
		for changed := true; changed; {
			changed = false
			for _, b := range fn.Blocks {
				if canOK[b] {
					continue
				}
				for _, s := range b.Succs {
					if canOK[s] {
						canOK[b] = true
						changed = true
						break
					}
				}
			}
		}
		for _, b := range fn.Blocks {
			if canOK[b] || ir.IsDead(b) || b == fn.Recover {
				continue
			}
			for _, ins := range b.Instrs {
				pos := P.InstrPos(ins)
				if base, f, _, ok := mastFieldStore(ins); ok {
					if _, local := ir.ResolveCell(base).(*ssa.Alloc); local {
						continue
					}
					n++
					c.Violation(fn, pos, "Mast."+f+" written on an error path",
						"this store into Mast."+f+" sits where "+ir.FuncName(fn)+" can only go on to return an error: the failed call leaves a trace in the tree, so the tree is not what it was before the call and a retry after the fault has cleared does not start from the same state")
					continue
				}
				ci, isCall := ins.(ssa.CallInstruction)
				if !isCall || len(ci.Common().Args) == 0 {
					continue
				}
				callee := ir.Callee(ci.Common())
				if callee == nil || !recvWriter[callee] {
					continue
				}
				if fa, ok := ci.Common().Args[0].(*ssa.FieldAddr); ok && ir.IsPtrToNamed(fa.X.Type(), "Mast") {
					if _, local := ir.ResolveCell(fa.X).(*ssa.Alloc); local {
						continue
					}
					n++
					c.Violation(fn, pos, "Mast."+ir.FieldName(fa.X.Type(), fa.Field)+" written (through "+callee.Name()+") on an error path",
						"the method "+callee.Name()+" stores through its receiver, which is the tree's field "+ir.FieldName(fa.X.Type(), fa.Field)+", and the call sits where "+ir.FuncName(fn)+" can only go on to return an error: a failed operation marks the tree, and the retry (and every later operation that consults the mark) no longer behaves as on the tree before the failure")
				}
			}
		}
		c.OK(P.Pos(fn.Pos()), "error-only blocks of "+ir.FuncName(fn), "no store into the tree object", true)
	}
	_ = n
}
