package rules

// Snapshot structs of the diff state (side inference, DESIGN.md §3.5).
//
// A maintainer may have the drivers of the diff read what the last step
// recorded through a by-value snapshot (`found := dc.step()` returning a
// struct whose fields are copies of fields of the diff state) instead of the
// state fields themselves. Such a struct type is recognised by structure:
// every store into one of its fields, anywhere in the diff, stores a direct
// load of one and the same field of the diff state; the stores happen in
// functions that return the struct (the producers); and at every call of a
// producer the snapshot is current wherever it is used: no call that may
// write an origin field lies on a path from the producer call to a use of its
// result that does not take the snapshot again. The fields of a snapshot
// struct are slots of their own (so a crossed copy is a SIDES vote against
// the slot), and slotRef resolves a read of a snapshot field to the state
// field it copies, which is what the diff rules reason about. A type that
// fails any of the conditions is not a snapshot: the rules fail closed on it
// as on any other value that is not read from the diff state.

import (
	"go/token"
	"go/types"

	"golang.org/x/tools/go/ssa"

	"mastcheck/ir"
)

const sdSnapshotRole = "snapshot"

func (S *sidesInfo) stateFieldLoad(v ssa.Value) *sdSlot {
	u, ok := v.(*ssa.UnOp)
	if !ok || u.Op != token.MUL {
		return nil
	}
	fa, ok := u.X.(*ssa.FieldAddr)
	if !ok {
		return nil
	}
	n, st := sdNamedStruct(fa.X.Type())
	if n == nil || st == nil || S.sidedT[n.Obj()] != "state" {
		return nil
	}
	return S.fieldSlot(st.Field(fa.Field), "state")
}

func (S *sidesInfo) resolveSnapshots() {
	type cand struct {
		origin    map[int]*sdSlot
		bad       bool
		producers map[*ssa.Function]bool
	}
	cands := map[*types.TypeName]*cand{}
	candOf := func(t types.Type) (*types.TypeName, *types.Struct) {
		n, st := sdNamedStruct(t)
		if n == nil || st == nil || n.Obj().Pkg() == nil || n.Obj().Pkg().Path() != ir.MastPath {
			return nil, nil
		}
		if _, sided := S.sidedT[n.Obj()]; sided {
			return nil, nil
		}
		if S.itemT != nil && n.Obj() == S.itemT.Obj() {
			return nil, nil
		}
		return n.Obj(), st
	}
	// pass 1: field stores
	for _, fn := range S.fns {
		for _, b := range fn.Blocks {
			for _, ins := range b.Instrs {
				st, ok := ins.(*ssa.Store)
				if !ok {
					continue
				}
				fa, ok := st.Addr.(*ssa.FieldAddr)
				if !ok {
					continue
				}
				tn, _ := candOf(fa.X.Type())
				if tn == nil {
					continue
				}
				c := cands[tn]
				if c == nil {
					c = &cand{origin: map[int]*sdSlot{}, producers: map[*ssa.Function]bool{}}
					cands[tn] = c
				}
				src := S.stateFieldLoad(st.Val)
				if src == nil || (c.origin[fa.Field] != nil && c.origin[fa.Field] != src) {
					c.bad = true
					continue
				}
				if _, isAlloc := fa.X.(*ssa.Alloc); !isAlloc {
					c.bad = true // written through a pointer of unknown origin
					continue
				}
				c.origin[fa.Field] = src
				c.producers[fn] = true
			}
		}
	}
	for tn, c := range cands {
		if c.bad || len(c.origin) == 0 {
			continue
		}
		// producers return the struct
		ok := true
		for fn := range c.producers {
			res := fn.Signature.Results()
			found := false
			for i := 0; i < res.Len(); i++ {
				if n, _ := sdNamedStruct(res.At(i).Type()); n != nil && n.Obj() == tn {
					found = true
				}
			}
			if !found {
				ok = false
			}
		}
		if !ok {
			continue
		}
		origins := map[*sdSlot]bool{}
		for _, sl := range c.origin {
			origins[sl] = true
		}
		writers := S.writersOf(origins)
		for _, fn := range S.fns {
			for _, ci := range CallsOf(fn) {
				callee := ir.Callee(ci.Common())
				if callee == nil || !c.producers[callee] {
					continue
				}
				call, isCall := ci.(*ssa.Call)
				if !isCall || !S.snapshotCurrent(call, writers) {
					ok = false
				}
			}
		}
		if !ok {
			continue
		}
		S.sidedT[tn] = sdSnapshotRole
		st, _ := tn.Type().Underlying().(*types.Struct)
		for idx, src := range c.origin {
			S.snapOrigin[S.fieldSlot(st.Field(idx), sdSnapshotRole)] = src
		}
	}
}

// writersOf: the functions of the diff that may (through static calls and
// closures) store into one of the given state fields.
func (S *sidesInfo) writersOf(origins map[*sdSlot]bool) map[*ssa.Function]bool {
	w := map[*ssa.Function]bool{}
	for _, fn := range S.fns {
		for _, b := range fn.Blocks {
			for _, ins := range b.Instrs {
				if st, ok := ins.(*ssa.Store); ok {
					if sl, _ := S.storeRoot(st.Addr); sl != nil && origins[sl] {
						w[fn] = true
					}
				}
			}
		}
	}
	for changed := true; changed; {
		changed = false
		for _, fn := range S.fns {
			if w[fn] {
				continue
			}
			for _, b := range fn.Blocks {
				for _, ins := range b.Instrs {
					switch x := ins.(type) {
					case ssa.CallInstruction:
						if callee := ir.Callee(x.Common()); callee != nil && w[callee] {
							w[fn] = true
						}
					case *ssa.MakeClosure:
						if cf, ok := x.Fn.(*ssa.Function); ok && w[cf] {
							w[fn] = true
						}
					}
				}
			}
			if w[fn] {
				changed = true
			}
		}
	}
	return w
}

// sdReachAvoid: the instructions executed after `from` on some path that does
// not execute `avoid` (again).
func sdReachAvoid(from, avoid ssa.Instruction) map[ssa.Instruction]bool {
	seen := map[ssa.Instruction]bool{}
	done := map[*ssa.BasicBlock]bool{}
	var walk func(b *ssa.BasicBlock, start int)
	walk = func(b *ssa.BasicBlock, start int) {
		for i := start; i < len(b.Instrs); i++ {
			if b.Instrs[i] == avoid {
				return
			}
			seen[b.Instrs[i]] = true
		}
		for _, s := range b.Succs {
			if !done[s] {
				done[s] = true
				walk(s, 0)
			}
		}
	}
	b := from.Block()
	for i, ins := range b.Instrs {
		if ins == from {
			walk(b, i+1)
		}
	}
	return seen
}

// snapshotCurrent: no call of a writer lies between the producer call and a
// use of its result.
func (S *sidesInfo) snapshotCurrent(call *ssa.Call, writers map[*ssa.Function]bool) bool {
	// the uses of the snapshot value (through copies, spills and field reads)
	uses := map[ssa.Instruction]bool{}
	seenV := map[ssa.Value]bool{}
	tn, _ := sdNamedStruct(call.Type())
	sameT := func(t types.Type) bool {
		n, _ := sdNamedStruct(t)
		return n != nil && tn != nil && n.Obj() == tn.Obj()
	}
	var follow func(v ssa.Value, d int) bool
	follow = func(v ssa.Value, d int) bool {
		if seenV[v] {
			return true
		}
		seenV[v] = true
		// only the snapshot as a whole (and the addresses of its fields) is
		// followed: a value read from a field is a copy made at the read
		if _, isFA := v.(*ssa.FieldAddr); !isFA && !sameT(v.Type()) {
			return true
		}
		if d > 6 || v.Referrers() == nil {
			return d <= 6
		}
		for _, r := range *v.Referrers() {
			uses[r] = true
			switch x := r.(type) {
			case *ssa.Field, *ssa.FieldAddr, *ssa.UnOp, *ssa.Phi, *ssa.Extract, *ssa.MakeInterface, *ssa.ChangeType:
				if !follow(x.(ssa.Value), d+1) {
					return false
				}
			case *ssa.Store:
				if x.Val == v {
					a, isAlloc := x.Addr.(*ssa.Alloc)
					if !isAlloc {
						return false // the snapshot escapes into memory the rules do not follow
					}
					if !follow(a, d+1) {
						return false
					}
				}
			}
		}
		return true
	}
	if tn == nil || !follow(call, 0) {
		return false
	}
	isWriter := func(ins ssa.Instruction) bool {
		ci, ok := ins.(ssa.CallInstruction)
		if !ok {
			return false
		}
		callee := ir.Callee(ci.Common())
		return callee != nil && writers[callee]
	}
	for ins := range sdReachAvoid(call, call) {
		if !isWriter(ins) {
			continue
		}
		if uses[ins] {
			return false
		}
		for u := range sdReachAvoid(ins, call) {
			if uses[u] {
				return false
			}
		}
	}
	return true
}
