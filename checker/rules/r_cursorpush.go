package rules

import (
	"fmt"
	"go/token"

	"golang.org/x/tools/go/ssa"

	"mastcheck/ir"
)

// CURSORPUSH (registered in r_cursor.go): a push onto the cursor's path is an append to Cursor.path — written in
// the method itself, or inside a helper the method calls (`c.push(pathEntry{node, 0})`, `c.pushNode(node, 0)`).
// A helper's push whose node comes from the helper's parameters is judged at every call of the helper, with the
// argument's node; a pop is the reslice path[:len-k], or a call of a Cursor helper that does it on every path.

// pushedNode: where the node of one pushed entry comes from.
type pushedNode struct {
	v       ssa.Value      // the node value (a value of the function the event sits in)
	param   *ssa.Parameter // or: the entry is this pathEntry-typed parameter of that function
	topCopy bool           // or: the entry is a copy of an element of the path itself
	unknown string         // or: not resolved
}

type pushEvent struct {
	at     ssa.Instruction // the append, or the call of the helper that pushes
	nodes  []pushedNode
	via    string // helper(s) the push sits in
	popped bool   // inside the helper a pop precedes the push on every path
}

// pathElemAddr: v is the address of an element of a Cursor's path: &c.path[i], a φ of such, or the result of an
// accessor (`c.top()`).
func pathElemAddr(v ssa.Value, d int) bool {
	if d > 4 {
		return false
	}
	switch x := ir.ResolveCell(v).(type) {
	case *ssa.IndexAddr:
		ld, ok := x.X.(*ssa.UnOp)
		return ok && ld.Op == token.MUL && isCursorPath(ld.X)
	case *ssa.Phi:
		for _, e := range x.Edges {
			if pathElemAddr(e, d+1) {
				return true
			}
		}
	case *ssa.Call:
		if _, ret, _, ok := navAccessor(x); ok {
			return pathElemAddr(ret, d+1)
		}
	}
	return false
}

// pathElemCopy: v is a pathEntry value read out of the path (a load of an element, or a local copy of one).
func pathElemCopy(v ssa.Value, d int) bool {
	if d > 4 {
		return false
	}
	ld, ok := ir.ResolveCell(v).(*ssa.UnOp)
	if !ok || ld.Op != token.MUL {
		return false
	}
	if pathElemAddr(ld.X, 0) {
		return true
	}
	if al, ok := ld.X.(*ssa.Alloc); ok && al.Referrers() != nil {
		for _, r := range *al.Referrers() {
			if st, ok := r.(*ssa.Store); ok && st.Addr == ssa.Value(al) && pathElemCopy(st.Val, d+1) {
				return true
			}
		}
	}
	return false
}

// mayBeTopNode2 extends mayBeTopNode: entries reached through an entry pointer that is a φ or the result of an
// accessor, and nodes handed out by a helper (`c.topNode()`).
func mayBeTopNode2(v ssa.Value, seen map[ssa.Value]bool, d int) bool {
	if seen[v] || d > 6 {
		return false
	}
	seen[v] = true
	if mayBeTopNode(v, map[ssa.Value]bool{}) {
		return true
	}
	switch x := ir.ResolveCell(v).(type) {
	case *ssa.Phi:
		for _, e := range x.Edges {
			if mayBeTopNode2(e, seen, d+1) {
				return true
			}
		}
	case *ssa.UnOp:
		if x.Op != token.MUL {
			return false
		}
		if fa, ok := x.X.(*ssa.FieldAddr); ok && ir.FieldName(fa.X.Type(), fa.Field) == nodeFieldName {
			if pathElemAddr(fa.X, 0) {
				return true
			}
			if al, ok := fa.X.(*ssa.Alloc); ok && al.Referrers() != nil {
				for _, r := range *al.Referrers() {
					if st, ok := r.(*ssa.Store); ok && st.Addr == ssa.Value(al) && pathElemCopy(st.Val, 0) {
						return true
					}
				}
			}
		}
	case *ssa.Field:
		if ir.FieldName(x.X.Type(), x.Field) == nodeFieldName && pathElemCopy(x.X, 0) {
			return true
		}
	case *ssa.Call:
		// node := c.topNode()
		if h := ir.Callee(x.Call); h != nil && h.Blocks != nil && h.Pkg != nil && h.Pkg.Pkg.Path() == ir.MastPath && isNodePtrResult(h) {
			for _, r := range ir.Returns(h) {
				if len(r.Results) >= 1 && mayBeTopNode2(r.Results[0], seen, d+1) {
					return true
				}
			}
		}
	}
	return false
}

// entryNodes: the node field of a pathEntry value.
func entryNodes(v ssa.Value, d int) []pushedNode {
	if d > 5 {
		return []pushedNode{{unknown: "an entry built too indirectly"}}
	}
	switch x := v.(type) {
	case *ssa.Parameter:
		return []pushedNode{{param: x}}
	case *ssa.Phi:
		var out []pushedNode
		for _, e := range x.Edges {
			out = append(out, entryNodes(e, d+1)...)
		}
		return out
	case *ssa.UnOp:
		if x.Op != token.MUL {
			break
		}
		if pathElemAddr(x.X, 0) {
			return []pushedNode{{topCopy: true}}
		}
		al, ok := x.X.(*ssa.Alloc)
		if !ok || al.Referrers() == nil {
			break
		}
		var out []pushedNode
		for _, r := range *al.Referrers() {
			switch y := r.(type) {
			case *ssa.FieldAddr:
				if ir.FieldName(y.X.Type(), y.Field) != nodeFieldName || y.Referrers() == nil {
					continue
				}
				for _, r2 := range *y.Referrers() {
					if st, ok := r2.(*ssa.Store); ok && st.Addr == ssa.Value(y) {
						out = append(out, pushedNode{v: st.Val})
					}
				}
			case *ssa.Store:
				if y.Addr == ssa.Value(al) {
					out = append(out, entryNodes(y.Val, d+1)...)
				}
			}
		}
		if len(out) == 0 {
			// pathEntry{linkIndex: k}: no node at all
			return nil
		}
		return out
	}
	return []pushedNode{{unknown: "an entry value of unrecognised form (" + pathDesc(ir.Sym(v)) + ")"}}
}

func isCursorRecv(fn *ssa.Function) bool {
	return fn.Signature.Recv() != nil && ir.IsPtrToNamed(fn.Signature.Recv().Type(), "Cursor")
}

// cursorPopIn: the pop events of fn.
func cursorPopIn(fn *ssa.Function) func(i ssa.Instruction) bool {
	var isPop func(i ssa.Instruction) bool
	isPop = func(i ssa.Instruction) bool {
		if call, ok := i.(*ssa.Call); ok {
			// c.pop(): a Cursor helper that pops on every path
			if h := ir.Callee(call.Call); h != nil && h != fn && h.Blocks != nil && isCursorRecv(h) {
				return allReturnsPass(h, func(j ssa.Instruction) bool {
					if _, isCall := j.(*ssa.Call); isCall {
						return false
					}
					return isPop(j)
				})
			}
			return false
		}
		st, ok := i.(*ssa.Store)
		if !ok || !isCursorPath(st.Addr) {
			return false
		}
		sl, ok := st.Val.(*ssa.Slice)
		if !ok || sl.High == nil {
			return false
		}
		// path[:len(path)-1] (or a shorter prefix computed from it)
		if bin, ok := ir.ResolveCell(sl.High).(*ssa.BinOp); ok && bin.Op == token.SUB {
			if k, isK := ir.ConstInt(bin.Y); isK && k >= 1 {
				return true
			}
		}
		return false
	}
	return isPop
}

func isMastFn(fn *ssa.Function) bool {
	return fn != nil && fn.Blocks != nil && fn.Pkg != nil && fn.Pkg.Pkg.Path() == ir.MastPath
}

// pushEventsOf: the pushes onto a cursor path that running fn performs, in fn's own terms.
func pushEventsOf(fn *ssa.Function, depth int, stack map[*ssa.Function]bool) []pushEvent {
	var out []pushEvent
	if stack[fn] {
		return nil
	}
	stack[fn] = true
	defer delete(stack, fn)
	isPop := cursorPopIn(fn)
	for _, b := range fn.Blocks {
		if ir.IsDead(b) {
			continue
		}
		for _, ins := range b.Instrs {
			call, ok := ins.(*ssa.Call)
			if !ok {
				continue
			}
			if bi, ok := call.Call.Value.(*ssa.Builtin); ok {
				if bi.Name() != "append" || len(call.Call.Args) != 2 {
					continue
				}
				ld, ok := call.Call.Args[0].(*ssa.UnOp)
				if !ok || ld.Op != token.MUL || !isCursorPath(ld.X) {
					continue
				}
				ev := pushEvent{at: call}
				sl, ok := call.Call.Args[1].(*ssa.Slice)
				var arr *ssa.Alloc
				if ok {
					arr, _ = sl.X.(*ssa.Alloc)
				}
				if arr == nil || arr.Referrers() == nil {
					ev.nodes = []pushedNode{{unknown: "entries appended from a slice"}}
					out = append(out, ev)
					continue
				}
				for _, r := range *arr.Referrers() {
					ia, ok := r.(*ssa.IndexAddr)
					if !ok || ia.Referrers() == nil {
						continue
					}
					for _, r2 := range *ia.Referrers() {
						switch y := r2.(type) {
						case *ssa.FieldAddr:
							if ir.FieldName(y.X.Type(), y.Field) == nodeFieldName && y.Referrers() != nil {
								for _, r3 := range *y.Referrers() {
									if st, ok := r3.(*ssa.Store); ok && st.Addr == ssa.Value(y) {
										ev.nodes = append(ev.nodes, pushedNode{v: st.Val})
									}
								}
							}
						case *ssa.Store:
							if y.Addr == ssa.Value(ia) {
								ev.nodes = append(ev.nodes, entryNodes(y.Val, 0)...)
							}
						}
					}
				}
				out = append(out, ev)
				continue
			}
			// a helper that pushes what it is handed
			h := ir.Callee(call.Call)
			if !isMastFn(h) || h == fn || depth >= 3 {
				continue
			}
			for _, hev := range pushEventsOf(h, depth+1, stack) {
				ev := pushEvent{at: call, via: h.Name(), popped: hev.popped || ir.MustPass(hev.at, cursorPopIn(h))}
				if hev.via != "" {
					ev.via += "→" + hev.via
				}
				for _, n := range hev.nodes {
					var p *ssa.Parameter
					entry := false
					if n.param != nil {
						p, entry = n.param, true
					} else if n.v != nil {
						p, _ = ir.ResolveCell(n.v).(*ssa.Parameter)
					}
					if p == nil || p.Parent() != h {
						continue // a node the helper finds itself: judged in the helper
					}
					k := paramIndex(p)
					if k < 0 || k >= len(call.Call.Args) {
						ev.nodes = append(ev.nodes, pushedNode{unknown: "argument of " + h.Name() + " not found"})
						continue
					}
					if entry {
						ev.nodes = append(ev.nodes, entryNodes(call.Call.Args[k], 0)...)
					} else {
						ev.nodes = append(ev.nodes, pushedNode{v: call.Call.Args[k]})
					}
				}
				if len(ev.nodes) > 0 {
					out = append(out, ev)
				}
			}
		}
	}
	_ = isPop
	return out
}

func runCURSORPUSH(c *Ctx) {
	P := c.P
	n := 0
	for _, fn := range P.Funcs {
		if !isMastFn(fn) {
			continue
		}
		evs := pushEventsOf(fn, 0, map[*ssa.Function]bool{})
		if len(evs) == 0 {
			continue
		}
		isPop := cursorPopIn(fn)
		exported := fn.Object() != nil && fn.Object().Exported()
		for _, ev := range evs {
			pos := P.InstrPos(ev.at)
			via := ""
			if ev.via != "" {
				via = " (through " + ev.via + ")"
			}
			for _, pn := range ev.nodes {
				if pn.unknown != "" {
					n++
					c.Undecided(fn, pos, "push of an entry whose node is not resolved"+via, "a push onto the cursor path whose node cannot be named: "+pn.unknown)
					continue
				}
				if pn.v != nil && !isNodePtr(pn.v.Type()) {
					continue
				}
				n++
				desc := "a copy of a path entry"
				if pn.v != nil {
					desc = "node " + pathDesc(ir.Sym(pn.v))
				} else if pn.param != nil {
					desc = "entry " + pn.param.Name()
				}
				what := fmt.Sprintf("push of %s onto the cursor path in %s%s", desc, ir.FuncName(fn), via)
				// a node handed in by the callers of an unexported helper: judged at each call
				var prm *ssa.Parameter
				if pn.param != nil {
					prm = pn.param
				} else if pn.v != nil {
					prm, _ = ir.ResolveCell(pn.v).(*ssa.Parameter)
				}
				if prm != nil && prm.Parent() == fn {
					if !exported && fn.Parent() == nil && len(P.Callers[fn]) > 0 {
						c.OK(pos, what, "the node is the helper's parameter: judged at every call of "+ir.FuncName(fn), false)
					} else {
						c.OK(pos, what, "the node is handed in from outside the cursor code, never the current top entry's node", false)
					}
					continue
				}
				mayTop := pn.topCopy || (pn.v != nil && mayBeTopNode2(pn.v, map[ssa.Value]bool{}, 0))
				if !mayTop {
					c.OK(pos, what, "the node is a freshly followed child, never the current top entry's node", false)
					continue
				}
				if ev.popped || ir.MustPass(ev.at, isPop) {
					c.OK(pos, what, "may be the top entry's node, and that entry is popped on every path before the push", false)
				} else {
					c.Violation(fn, pos, "top entry pushed again without being popped",
						"the pushed node can be the node of the entry already on top of the path"+via+": the path then holds it twice, and a later Forward/Backward that pops one copy continues from the stale one (keys are revisited or skipped)")
				}
			}
		}
	}
	if n == 0 {
		c.AnchorMissing("pushes onto Cursor.path")
	}
}
