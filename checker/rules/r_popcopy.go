package rules

// POPCOPY (adversary 19, a2): what a pop of a diff stack hands out does not alias
// the stack's backing array. The diff step keeps reading the popped items (their
// link, their entry) after it has pushed onto the same stack again; a push writes
// into the slot the pop has just vacated, so a pointer to that slot shows the
// pushed item from then on — a link recorded for the link callback, or an entry
// recorded for the entry callback, through it is the wrong one.

import (
	"fmt"
	"go/token"
	"go/types"

	"golang.org/x/tools/go/ssa"

	"mastcheck/ir"
)

func init() {
	Register(&Rule{ID: "POPCOPY", Props: []string{"C07", "C06"}, Min: 1,
		Doc: "the item a pop of a diff stack hands out does not alias the stack's backing array: every non-nil pointer a diff function returns to a stack item is a " +
			"fresh copy (a new variable the element was copied into) or a pointer value that was stored in the stack, never the address of an element of a slice " +
			"that later pushes write into.",
		Run: runPOPCOPY})
}

func runPOPCOPY(c *Ctx) {
	S := sidesReady(c)
	if S == nil {
		return
	}
	P := c.P
	if S.itemT == nil {
		c.AnchorMissing("the stack item type of the diff")
		return
	}
	isItemPtr := func(t types.Type) bool {
		p, ok := t.Underlying().(*types.Pointer)
		if !ok {
			return false
		}
		n, _ := types.Unalias(p.Elem()).(*types.Named)
		return n != nil && n.Obj() == S.itemT.Obj()
	}
	// the pops: callees of calls that take a stack slot and return an item
	pops := map[*ssa.Function]bool{}
	for _, fn := range S.fns {
		for _, ci := range CallsOf(fn) {
			call, ok := ci.(*ssa.Call)
			if !ok {
				continue
			}
			if pc, _ := S.popOf(call); pc != nil {
				if callee := ir.Callee(call.Call); callee != nil {
					pops[callee] = true
				}
			}
		}
	}
	if len(pops) == 0 {
		c.Undecided(nil, "-", "no pop found", "no function of the diff takes a stack of the diff state and returns an item: the rule cannot find what the diff step works on")
		return
	}

	type verdict struct {
		bad, und bool
		why      string
	}
	// sliceRoot: the slice whose backing array ia indexes, and whether it was made in this function
	var fresh func(v ssa.Value, depth int) bool
	fresh = func(v ssa.Value, depth int) bool {
		if depth > 6 {
			return false
		}
		switch x := v.(type) {
		case *ssa.MakeSlice:
			return true
		case *ssa.Slice:
			return fresh(x.X, depth+1)
		case *ssa.Alloc:
			return true // new [n]T, sliced
		case *ssa.Call:
			if b, ok := x.Call.Value.(*ssa.Builtin); ok && b.Name() == "append" && len(x.Call.Args) > 0 {
				return fresh(x.Call.Args[0], depth+1)
			}
		case *ssa.Phi:
			for _, e := range x.Edges {
				if !fresh(e, depth+1) {
					return false
				}
			}
			return true
		case *ssa.Const:
			return true // nil slice
		}
		return false
	}
	var judge func(v ssa.Value, depth int, seen map[ssa.Value]bool) verdict
	judge = func(v ssa.Value, depth int, seen map[ssa.Value]bool) verdict {
		if depth > 6 {
			return verdict{und: true, why: "the returned pointer is computed too deeply to follow"}
		}
		if seen[v] {
			return verdict{}
		}
		seen[v] = true
		switch x := v.(type) {
		case *ssa.Const:
			return verdict{} // nil
		case *ssa.Alloc:
			return verdict{} // a variable of its own: the element was copied into it
		case *ssa.IndexAddr:
			if fresh(x.X, 0) {
				return verdict{}
			}
			return verdict{bad: true, why: fmt.Sprintf("it returns &%s[…], the address of an element of %s", sdDesc(x.X), sdDesc(x.X))}
		case *ssa.FieldAddr:
			return judge(x.X, depth+1, seen)
		case *ssa.Phi:
			var u *verdict
			for _, e := range x.Edges {
				r := judge(e, depth+1, seen)
				if r.bad {
					return r
				}
				if r.und && u == nil {
					rr := r
					u = &rr
				}
			}
			if u != nil {
				return *u
			}
			return verdict{}
		case *ssa.ChangeType:
			return judge(x.X, depth+1, seen)
		case *ssa.UnOp:
			if x.Op != token.MUL {
				break
			}
			if r := ir.ResolveCell(x); r != ssa.Value(x) {
				return judge(r, depth+1, seen)
			}
			// a pointer value read out of memory: if it is read from a local variable, judge what was stored there
			if a, ok := x.X.(*ssa.Alloc); ok && a.Referrers() != nil {
				var u *verdict
				n := 0
				for _, r := range *a.Referrers() {
					st, isSt := r.(*ssa.Store)
					if !isSt || st.Addr != ssa.Value(a) {
						continue
					}
					n++
					rv := judge(st.Val, depth+1, seen)
					if rv.bad {
						return rv
					}
					if rv.und && u == nil {
						rr := rv
						u = &rr
					}
				}
				if u != nil {
					return *u
				}
				if n > 0 {
					return verdict{}
				}
			}
			// the stored pointer itself (a stack of pointers): not a slot address
			return verdict{}
		case *ssa.Call:
			callee := ir.Callee(x.Call)
			if callee == nil || callee.Blocks == nil {
				break
			}
			var u *verdict
			for _, r := range ir.Returns(callee) {
				for _, res := range r.Results {
					if !isItemPtr(res.Type()) {
						continue
					}
					rv := judge(res, depth+2, seen)
					if rv.bad {
						rv.why = fmt.Sprintf("through %s: %s", callee.Name(), rv.why)
						return rv
					}
					if rv.und && u == nil {
						rr := rv
						u = &rr
					}
				}
			}
			if u != nil {
				return *u
			}
			return verdict{}
		case *ssa.Extract:
			if call, ok := x.Tuple.(*ssa.Call); ok {
				return judge(call, depth+1, seen)
			}
		case *ssa.Parameter:
			return verdict{} // the caller's own pointer handed back
		}
		return verdict{und: true, why: fmt.Sprintf("it returns %s, which the rule cannot classify as a copy or as a slot address", sdDesc(v))}
	}

	for _, fn := range S.fns {
		if fn.Blocks == nil {
			continue
		}
		res := fn.Signature.Results()
		var idx []int
		for i := 0; i < res.Len(); i++ {
			if isItemPtr(res.At(i).Type()) {
				idx = append(idx, i)
			}
		}
		if len(idx) == 0 {
			if pops[fn] {
				c.OK(P.Pos(fn.Pos()), ir.FuncName(fn)+" hands out the item by value", "a value is a copy", true)
			}
			continue
		}
		role := "returns a pointer to a stack item"
		if pops[fn] {
			role = "is a pop of the diff stacks"
		}
		for _, r := range ir.Returns(fn) {
			for _, i := range idx {
				if i >= len(r.Results) {
					continue
				}
				v := r.Results[i]
				pos := P.InstrPos(r)
				what := fmt.Sprintf("%s returns %s", ir.FuncName(fn), sdDesc(v))
				if ir.IsNilConst(v) {
					c.OK(pos, what, "nil: nothing handed out", true)
					continue
				}
				rv := judge(v, 0, map[ssa.Value]bool{})
				switch {
				case rv.bad:
					c.Violation(fn, pos, "item handed out aliases the stack's backing array",
						fmt.Sprintf("%s %s, and %s: the slot stays part of the backing array, so the next push on that stack overwrites the item while the diff step still reads its link and its entry through the pointer — what is recorded for the callbacks after a push is the pushed item's, not the popped one's; the item must be copied out (or the stack must hold pointers)",
							ir.FuncName(fn), role, rv.why))
				case rv.und:
					c.Undecided(fn, pos, "item handed out cannot be classified", fmt.Sprintf("%s %s; %s", ir.FuncName(fn), role, rv.why))
				default:
					c.OK(pos, what, "a copy of the element (its own variable) or a pointer stored in the stack, not a slot address", false)
				}
			}
		}
	}
}
