package rules

// FLUSHROOT — what the persist driver hands to the node store.
//
// CLEANSKIP shows that the node store writes nothing for a clean node with a known name. That only helps if the node
// flush hands it *is* the tree's root as loaded: a copy made on the way (`node = node.xcopy()` "to send the top node
// again", adv16-B-a3) has no name and is not clean, so every MakeRoot of an unmodified tree encodes and writes the top
// node once more — "writes nothing at all when nothing was modified" no longer holds.

import (
	"golang.org/x/tools/go/ssa"

	"mastcheck/ir"
)

func init() {
	Register(&Rule{ID: "FLUSHROOT", Props: []string{"C13"}, Min: 1,
		Doc: "the node the persist driver hands to the node store is the tree's root as the loader returned it — the first result of the load of Mast.root, by SSA identity (through φ of such values) — not a copy or a node derived from it: a copy carries neither the clean mark nor the stored name, so CLEANSKIP's 'nothing is written for an unmodified node' would not apply to the very node every MakeRoot starts from.",
		Run: runFLUSHROOT})
}

func runFLUSHROOT(c *Ctx) {
	P := c.P
	sh := findFlush(c)
	nodeStore, _ := persistingStoreFn(c)
	if sh == nil || nodeStore == nil {
		return
	}
	load := c.MustFunc("(*Mast).load")
	if load == nil {
		return
	}
	var fromLoad func(v ssa.Value, d int) bool
	fromLoad = func(v ssa.Value, d int) bool {
		if d > 5 {
			return false
		}
		v = ir.ResolveCell(v)
		switch x := v.(type) {
		case *ssa.Extract:
			if call, ok := x.Tuple.(*ssa.Call); ok && x.Index == 0 && ir.Callee(call.Common()) == load {
				args := call.Call.Args
				_, isRoot := rootLoad(args[len(args)-1])
				return isRoot
			}
		case *ssa.Phi:
			for _, e := range x.Edges {
				if !fromLoad(e, d+1) {
					return false
				}
			}
			return len(x.Edges) > 0
		}
		return false
	}
	n := 0
	inStore := map[*ssa.Function]bool{nodeStore: true}
	for _, g := range regionOf(c, nodeStore) {
		inStore[g] = true // helpers of the node store itself (the recursion into the children, extracted)
	}
	for _, g := range regionOf(c, sh.F) {
		if inStore[ir.Outermost(g)] {
			continue
		}
		for _, ci := range CallsOf(g) {
			if ir.Callee(ci.Common()) != nodeStore || len(ci.Common().Args) == 0 {
				continue
			}
			if ir.Outermost(ci.Parent()) == nodeStore {
				continue // the recursion into the children
			}
			n++
			pos := P.InstrPos(ci)
			recv := ci.Common().Args[0]
			if fromLoad(recv, 0) {
				c.OK(pos, "node handed to the node store by "+ir.FuncName(g), "the root as returned by the loader", false)
			} else if g != sh.F {
				c.Undecided(g, pos, "node handed to the node store", "the node store is called from a helper of the persist driver with "+pathDesc(ir.Sym(recv))+": whether that is the loaded root cannot be decided here")
			} else {
				c.Violation(g, pos, "node store is handed something other than the loaded root",
					"the persist driver calls the node store on "+pathDesc(ir.Sym(recv))+", which is not the node the loader returned for Mast.root: a copy has no stored name and is not marked clean, so the top node of an unmodified tree is encoded and written again by every MakeRoot")
			}
		}
	}
	if n == 0 {
		c.AnchorMissing("call of the node store in the persist driver")
	}
}
