package rules

// FORMATCONST_* (C14): every item below *is* the published format of jrhy/mast,
// so a change of the fact is a violation. The rules look at semantic facts
// only (constant values, resolved callees, type-switch case sets, struct
// layouts, value flow), never at source text.

import (
	"fmt"
	"go/constant"
	"go/token"
	"go/types"
	"strings"

	"golang.org/x/tools/go/ssa"

	"mastcheck/ir"
)

const (
	frozenV1     = "v1marshaler"
	frozenV115   = "v1.1.5binary"
	frozenBranch = 16
	frozenECMA   = uint64(0xC96C5795D7870F42)
)

func init() {
	Register(&Rule{ID: "FORMATCONST_CONSTS", Props: []string{"C14", "C01"}, Min: 8,
		Doc: "published constants: DefaultBranchFactor evaluates to 16; V1Marshaler/V115Binary are initialised to \"v1marshaler\"/\"v1.1.5binary\" and never reassigned; " +
			"crcTable is crc64.MakeTable(crc64.ECMA); defaultMarshal/defaultUnmarshal are encoding/json.Marshal/Unmarshal and are what NewInMemory and LoadMast fall back on.",
		Run: runFormatConsts})
	Register(&Rule{ID: "FORMATCONST_NEWROOT", Props: []string{"C14"}, Min: 6,
		Doc: "NewRoot yields BranchFactor 16 and NodeFormat \"v1.1.5binary\" when the options are nil or zero, and the options' BranchFactor>0 / non-empty NodeFormat override them (value flow into the returned Root evaluated per case).",
		Run: runFormatNewRoot})
	Register(&Rule{ID: "FORMATCONST_LOADFMT", Props: []string{"C14"}, Min: 4,
		Doc: "LoadMast maps Root.NodeFormat \"\" and \"v1marshaler\" to V1Marshaler, \"v1.1.5binary\" to V115Binary, and anything else to an error return (the value stored in Mast.nodeFormat evaluated per case).",
		Run: runFormatLoadFmt})
	Register(&Rule{ID: "FORMATCONST_STRUCTS", Props: []string{"C14"}, Min: 8,
		Doc: "serialised struct layouts: Node{Key,Value,Link []interface{}; Link omitempty} and Root{Link *string; Size uint64; Height uint8; BranchFactor uint; NodeFormat string omitempty} — names, order, types and effective JSON names/options.",
		Run: runFormatStructs})
	Register(&Rule{ID: "STRUCTAGREE", Props: []string{"C05", "C14"}, Min: 3,
		Doc: "the struct the two-stage JSON decoder unmarshals into (stringNodeT) has the same field names, order and effective JSON tags as Node, with Key/Value []json.RawMessage and Link []string.",
		Run: runStructAgree})
	Register(&Rule{ID: "FORMATCONST_KEYORDER", Props: []string{"C14"}, Min: 8,
		Doc: "DefaultKeyCompare's closure: native cases are exactly {Key,string,int,uint,uint64,int64,[]byte}, no case before Key captures a Key implementation; ordered cases return -1/0/1 for </==/> (evaluated per relation), " +
			"Key uses v.Order(v2), []byte bytes.Compare(v,v2), the fallback bytes.Compare(marshal(i),marshal(i2)).",
		Run: runFormatKeyOrder})
	Register(&Rule{ID: "FORMATCONST_LAYER", Props: []string{"C14"}, Min: 18,
		Doc: "DefaultLayer's closure: Key→v.Layer(bf); signed ints→int64→func(int64,uint)uint8; unsigned→uint64→func(uint64,uint)uint8; string/[]byte/other→CRC-64(crcTable) then the unsigned layer function; " +
			"the integer layer functions count how often bf divides v (loop shape: v!=0 && v%bf==0; v/=bf; layer starts at 0, +1, returned); every constructor installs DefaultLayer as keyLayer.",
		Run: runFormatLayer})
	Register(&Rule{ID: "FORMATCONST_TRIM", Props: []string{"C14", "C01", "C02", "C05"}, Min: 1,
		Doc: "(*mastNode).store marshals a copy of the node whose Link is set to nil iff the number of non-nil links is zero (counter starts at 0, +1 exactly for non-nil links; the nil store is guarded by counter==0 and nothing else).",
		Run: runFormatTrim})
	Register(&Rule{ID: "FORMATCONST_V1INPUT", Props: []string{"C14"}, Min: 2,
		Doc: "the marshal closure flush hands to node.store: under v1marshaler the user marshaler receives the node's embedded Node (type Node), under v1.1.5binary the result is marshalMastNode(&node, m.marshal).",
		Run: runFormatV1Input})
	Assume("C14", "the frozen reference values (16, \"v1marshaler\", \"v1.1.5binary\", CRC-64/ECMA, encoding/json, struct layouts, emission grammar) transcribed into the rules are those of the published format",
		"library semantics of encoding/json, encoding/binary.PutUvarint, hash/crc64 and bytes.Compare are stable across Go releases")
}

func mastScope(c *Ctx) *types.Scope {
	p := c.P.Pkgs[ir.MastPath]
	if p == nil {
		return nil
	}
	return p.Types.Scope()
}

func mastGlobal(c *Ctx, name string) *ssa.Global {
	sp := c.P.SPkgs[ir.MastPath]
	if sp == nil {
		return nil
	}
	g, _ := sp.Members[name].(*ssa.Global)
	return g
}

// mastStringValue resolves a package-level const or once-initialised var.
func mastStringValue(c *Ctx, name string) (string, string, bool) {
	sc := mastScope(c)
	if sc == nil {
		return "", "-", false
	}
	obj := sc.Lookup(name)
	switch o := obj.(type) {
	case *types.Const:
		if o.Val().Kind() == constant.String {
			return constant.StringVal(o.Val()), c.P.Pos(o.Pos()), true
		}
	case *types.Var:
		g := mastGlobal(c, name)
		if iv, st, ok := fxGlobalInit(c.P, g); ok {
			if k := fxConst(iv); k != nil && k.Kind() == constant.String {
				_ = st
				return constant.StringVal(k), c.P.Pos(o.Pos()), true
			}
		}
		return "", c.P.Pos(o.Pos()), false
	}
	return "", "-", false
}

// ---------------------------------------------------------------------------
// a, c, e, f

func runFormatConsts(c *Ctx) {
	sc := mastScope(c)
	if sc == nil {
		c.AnchorMissing("package mast")
		return
	}
	// a. DefaultBranchFactor
	if k, ok := sc.Lookup("DefaultBranchFactor").(*types.Const); ok {
		pos := c.P.Pos(k.Pos())
		if k.Val().Kind() == constant.Int && constant.Compare(k.Val(), token.EQL, constant.MakeInt64(frozenBranch)) {
			c.OK(pos, "DefaultBranchFactor", "evaluates to 16", false)
		} else {
			c.Violation(nil, pos, "DefaultBranchFactor", fmt.Sprintf("DefaultBranchFactor evaluates to %s, the published default is 16: new trees get different layers and hashes", k.Val().ExactString()))
		}
	} else {
		c.AnchorMissing("constant DefaultBranchFactor")
	}
	// c. format names
	for _, fv := range []struct{ name, want string }{{"V1Marshaler", frozenV1}, {"V115Binary", frozenV115}} {
		got, pos, ok := mastStringValue(c, fv.name)
		switch {
		case !ok && pos == "-":
			c.AnchorMissing("format name " + fv.name)
		case !ok:
			c.Undecided(nil, pos, fv.name, fv.name+" is not a constant or a package variable initialised exactly once with a constant string (it is reassigned or computed)")
		case got != fv.want:
			c.Violation(nil, pos, fv.name, fmt.Sprintf("%s is %q, the published format name is %q: roots written by earlier releases no longer load and new roots are unreadable by them", fv.name, got, fv.want))
		default:
			c.OK(pos, fv.name, fmt.Sprintf("initialised to %q, never reassigned", got), false)
		}
	}
	// e. the CRC table: located by role — the table argument of every crc64.Checksum /
	// crc64.Update / crc64.New call of the package must be built from crc64.ECMA
	nCRC := 0
	for _, fn := range c.P.Funcs {
		if !fxOwnFunc(fn) {
			continue
		}
		for _, b := range fn.Blocks {
			for _, ins := range b.Instrs {
				call, ok := ins.(*ssa.Call)
				if !ok {
					continue
				}
				callee := ir.Callee(call.Call)
				ti := -1
				switch fxFullName(callee) {
				case "hash/crc64.Checksum":
					ti = 1
				case "hash/crc64.Update":
					ti = 1
				case "hash/crc64.New":
					ti = 0
				}
				if ti < 0 || ti >= len(call.Call.Args) {
					continue
				}
				nCRC++
				u, at, why := fxCRCPoly(c.P, call.Call.Args[ti], 0)
				pos := c.P.InstrPos(call)
				if at != nil {
					pos = c.P.InstrPos(at)
				}
				switch {
				case strings.HasPrefix(why, "the table is not built by"):
					c.Violation(nil, pos, "crcTable", "the CRC table is not built by hash/crc64.MakeTable: layers of string, []byte and marshalled keys change")
				case why != "":
					c.Undecided(nil, pos, "crcTable", why)
				case u != frozenECMA:
					c.Violation(nil, pos, "crcTable", fmt.Sprintf("crc64.MakeTable polynomial is %#x, the published format uses crc64.ECMA (%#x): every string/[]byte/marshalled key moves to a different layer", u, frozenECMA))
				default:
					c.OK(pos, "crcTable", "crc64.MakeTable(crc64.ECMA), never reassigned", false)
				}
			}
		}
	}
	if nCRC == 0 {
		c.AnchorMissing("a crc64.Checksum/Update/New call in the package (the CRC table's use)")
	}
	// f. default codec
	type codec struct{ global, want, field, cfg string }
	codecs := []codec{{"defaultMarshal", "encoding/json.Marshal", "marshal", "Marshal"}, {"defaultUnmarshal", "encoding/json.Unmarshal", "unmarshal", "Unmarshal"}}
	isDefault := func(v ssa.Value, want string) bool {
		f := fxFuncOf(c.P, v)
		return f != nil && fxFullName(f) == want
	}
	for _, cd := range codecs {
		g := mastGlobal(c, cd.global)
		if g == nil {
			// the variable may have been inlined; the constructor checks below decide
			c.Note("package variable %s not present; default codec checked at the constructors only", cd.global)
			continue
		}
		iv, _, ok := fxGlobalInit(c.P, g)
		pos := c.P.Pos(g.Pos())
		if !ok {
			c.Undecided(nil, pos, cd.global, cd.global+" is not initialised exactly once")
			continue
		}
		f, _ := fxStrip(iv).(*ssa.Function)
		if f == nil || fxFullName(f) != cd.want {
			c.Violation(nil, pos, cd.global, fmt.Sprintf("%s is %s, the published default codec is %s", cd.global, fxFullName(f), cd.want))
		} else {
			c.OK(pos, cd.global, "is "+cd.want, false)
		}
	}
	// NewInMemory
	if fn := c.MustFunc("NewInMemory"); fn != nil {
		a, _ := fxReturnedAlloc(fn, "Mast")
		if a == nil {
			c.Undecided(fn, c.P.Pos(fn.Pos()), "returned Mast", "cannot find the Mast value NewInMemory returns")
		} else {
			fs, _ := fxStructStores(a)
			for _, cd := range codecs {
				sts := fxStoresOf(fs, cd.field)
				if len(sts) == 0 {
					c.Violation(fn, c.P.Pos(fn.Pos()), "Mast."+cd.field, "NewInMemory leaves Mast."+cd.field+" unset")
					continue
				}
				for _, s := range sts {
					if isDefault(s.Val, cd.want) {
						c.OK(c.P.InstrPos(s.St), "NewInMemory Mast."+cd.field, "is "+cd.want, false)
					} else {
						c.Violation(fn, c.P.InstrPos(s.St), "Mast."+cd.field, "NewInMemory sets Mast."+cd.field+" to something other than "+cd.want)
					}
				}
			}
			for _, kf := range []struct{ field, maker string }{{"keyOrder", "DefaultKeyCompare"}, {"keyLayer", "DefaultLayer"}} {
				for _, s := range fxStoresOf(fs, kf.field) {
					call, callee := fxCallee(s.Val)
					if callee == nil || callee != c.P.MastFunc(kf.maker) {
						continue // FORMATCONST_LAYER / CTOR decide the maker; here only its codec argument
					}
					if isDefault(call.Call.Args[0], "encoding/json.Marshal") {
						c.OK(c.P.InstrPos(s.St), "NewInMemory "+kf.maker+" argument", "encoding/json.Marshal", false)
					} else {
						c.Violation(fn, c.P.InstrPos(s.St), kf.maker+" argument", "NewInMemory builds "+kf.maker+" over a marshaler other than encoding/json.Marshal: fallback key order/layer change")
					}
				}
			}
		}
	}
	// LoadMast: the config's nil codec is replaced by the default
	if fn := c.MustFunc("(*Root).LoadMast"); fn != nil {
		a, _ := fxReturnedAlloc(fn, "Mast")
		if a == nil {
			c.Undecided(fn, c.P.Pos(fn.Pos()), "returned Mast", "cannot find the Mast value LoadMast returns")
			return
		}
		fs, _ := fxStructStores(a)
		for _, cd := range codecs {
			found := false
			for _, s := range fxStoresOf(fs, cd.field) {
				// the stored value may be a local merged from the config's
				// function and the default: look at every incoming value
				for _, l := range fxHelperLeaves(s.Val, 0) {
					if fxFuncOf(c.P, l) == nil {
						continue
					}
					found = true
					if !isDefault(l, cd.want) {
						c.Violation(fn, c.P.InstrPos(s.St), "Mast."+cd.field+" default", "LoadMast's fallback for a nil RemoteConfig."+cd.cfg+" is not "+cd.want)
						continue
					}
					c.OK(c.P.InstrPos(s.St), "LoadMast Mast."+cd.field+" default", "is "+cd.want+" (that it is installed exactly when the config has none is CTOR's clause)", false)
				}
			}
			if !found {
				c.Violation(fn, c.P.Pos(fn.Pos()), "Mast."+cd.field+" default", "LoadMast never falls back on "+cd.want+" for Mast."+cd.field)
			}
		}
		// the default key order / layer must be built over the tree's own
		// marshaler (the value Mast.marshal ends up with), not over the raw
		// config field or the JSON default
		mstores := fxStoresOf(fs, "marshal")
		sameAsMarshal := func(x ssa.Value) bool {
			if len(mstores) == 1 && fxStripNoConv(x) == fxStripNoConv(mstores[0].Val) {
				return true
			}
			// both come out of one private helper: x is the very value the
			// helper returns as the marshaler
			if len(mstores) == 1 && fxIsHelperResult(x, mstores[0].Val) {
				return true
			}
			u, ok := fxStripNoConv(x).(*ssa.UnOp)
			if !ok || u.Op != token.MUL {
				return false
			}
			b, p, ok := fxFieldAddr(u.X)
			if !ok || p != "marshal" || b == nil || !ir.IsPtrToNamed(b.Type(), "Mast") {
				return false
			}
			// read after all defaulting: some store precedes it on every
			// path and none can follow it
			pre := false
			for _, s := range mstores {
				if ir.InstrReaches(u, s.St) {
					return false
				}
				if ir.Before(s.St, u) {
					pre = true
				}
			}
			return pre
		}
		for _, kf := range []struct{ field, maker string }{{"keyOrder", "DefaultKeyCompare"}, {"keyLayer", "DefaultLayer"}} {
			for _, s := range fxStoresOf(fs, kf.field) {
				for _, l := range fxHelperLeavesEnv(s.Val, 0, nil) {
					call, callee := fxCallee(l.V)
					if callee == nil || callee != c.P.MastFunc(kf.maker) {
						continue
					}
					// inside a followed helper, its parameter is the caller's argument
					if sameAsMarshal(l.Arg(call.Call.Args[0])) {
						c.OK(c.P.InstrPos(call), "LoadMast "+kf.maker+" argument", "the tree's marshaler (Mast.marshal after defaulting)", false)
					} else {
						c.Violation(fn, c.P.InstrPos(call), kf.maker+" argument", "LoadMast builds "+kf.maker+" over "+ir.Sym(call.Call.Args[0])+", not over the marshaler the tree ends up with (Mast.marshal after defaulting): fallback key order / layers use a different encoding than the tree")
					}
				}
			}
		}
	}
}

// ---------------------------------------------------------------------------
// b. NewRoot

func runFormatNewRoot(c *Ctx) {
	fn := c.MustFunc("NewRoot")
	if fn == nil {
		return
	}
	if len(fn.Params) != 1 {
		c.Undecided(fn, c.P.Pos(fn.Pos()), "signature", "NewRoot no longer takes exactly the options pointer")
		return
	}
	opt := fn.Params[0]
	isOptField := func(name string) func(ssa.Value) bool {
		return func(v ssa.Value) bool {
			p, path, ok := fxParamField(v)
			return ok && p == opt && path == name
		}
	}
	type scenario struct {
		name     string
		nilOpt   bool
		bf       int64
		nf       string
		wantBF   string // "16" or "opt"
		wantNF   string // frozenV115 or "opt"
		whatBF   string
		whatNF   string
		relevant bool
	}
	scs := []scenario{
		{name: "options nil", nilOpt: true, wantBF: "16", wantNF: frozenV115},
		{name: "options zero", bf: 0, nf: "", wantBF: "16", wantNF: frozenV115},
		{name: "options BranchFactor=1", bf: 1, nf: "", wantBF: "opt", wantNF: frozenV115},
		{name: "options BranchFactor large", bf: 1 << 40, nf: "", wantBF: "opt", wantNF: frozenV115},
		{name: "options NodeFormat set", bf: 0, nf: frozenV1, wantBF: "16", wantNF: "opt"},
	}
	_ = isOptField
	isZeroOptions := func(v ssa.Value) bool { // a fresh, never-written options struct
		al, ok := v.(*ssa.Alloc)
		if !ok || al.Referrers() == nil {
			return false
		}
		if pt, ok := al.Type().Underlying().(*types.Pointer); !ok || !ir.IsNamed(pt.Elem(), "CreateRemoteOptions") {
			return false
		}
		fs, whole := fxStructStores(al)
		return len(fs) == 0 && len(whole) == 0
	}
	for _, sc := range scs {
		sc := sc
		// phase 1: only the nil test of the options pointer is decided; this
		// tells which options value (the caller's, or a zero-valued stand-in
		// installed for nil) a later field read refers to on this path
		as0 := &fxAssume{decide: func(cond ssa.Value) (bool, bool) {
			if v, tnn, ok := ir.NilTest(cond); ok && ir.ResolveCell(v) == ssa.Value(opt) {
				return tnn != sc.nilOpt, true
			}
			return false, false
		}}
		reach0 := as0.reach(fn.Blocks[0])
		optKind := func(x ssa.Value) string {
			kind := ""
			for _, l := range as0.leaves(ir.ResolveCell(x), reach0) {
				k := ""
				switch {
				case ir.ResolveCell(l) == ssa.Value(opt) && !sc.nilOpt:
					k = "param"
				case isZeroOptions(l):
					k = "zero"
				}
				if k == "" || (kind != "" && kind != k) {
					return ""
				}
				kind = k
			}
			return kind
		}
		optField := func(v ssa.Value) (string, string) {
			b, path, ok := fxFieldLoad(fxStrip(v))
			if !ok || b == nil {
				return "", ""
			}
			return path, optKind(b)
		}
		isBF := func(v ssa.Value) bool { n, k := optField(v); return n == "BranchFactor" && k == "param" }
		isNF := func(v ssa.Value) bool { n, k := optField(v); return n == "NodeFormat" && k == "param" }
		var valueOf func(v ssa.Value) constant.Value
		valueOf = func(v ssa.Value) constant.Value {
			if k := fxConst(v); k != nil {
				return k
			}
			if a, ok := lenArg(v); ok {
				if s := valueOf(a); s != nil && s.Kind() == constant.String {
					return constant.MakeInt64(int64(len(constant.StringVal(s))))
				}
				return nil
			}
			switch n, k := optField(v); {
			case n == "BranchFactor" && k == "param":
				return constant.MakeInt64(sc.bf)
			case n == "BranchFactor" && k == "zero":
				return constant.MakeInt64(0)
			case n == "NodeFormat" && k == "param":
				return constant.MakeString(sc.nf)
			case n == "NodeFormat" && k == "zero":
				return constant.MakeString("")
			}
			return nil
		}
		isOptRelated := func(v ssa.Value) bool {
			if ir.ResolveCell(v) == ssa.Value(opt) || isZeroOptions(v) {
				return true
			}
			if p, ok := v.(*ssa.Phi); ok {
				for _, e := range p.Edges {
					if ir.ResolveCell(e) == ssa.Value(opt) {
						return true
					}
				}
			}
			return false
		}
		as := &fxAssume{
			decide: func(cond ssa.Value) (bool, bool) {
				if t, k := as0.decide(cond); k {
					return t, true
				}
				if bin, ok := cond.(*ssa.BinOp); ok {
					switch bin.Op {
					case token.EQL, token.NEQ, token.LSS, token.LEQ, token.GTR, token.GEQ:
						x, y := valueOf(bin.X), valueOf(bin.Y)
						if x != nil && y != nil && x.Kind() == y.Kind() && (fxConst(bin.X) == nil || fxConst(bin.Y) == nil) {
							return constant.Compare(x, bin.Op, y), true
						}
					}
				}
				return false, false
			},
			relevant: func(cond ssa.Value) bool { return mentionsValue(cond, isOptRelated, 0) },
		}
		reach := as.reach(fn.Blocks[0])
		if open := as.open(reach); len(open) > 0 {
			c.Undecided(fn, fxValPos(c.P, open[0], fn), "case "+sc.name, "a branch on the options is not decided by the rule: "+ir.Sym(open[0]))
			continue
		}
		var rets []*ssa.Return
		for _, r := range successIn(fn, reach) {
			rets = append(rets, r)
		}
		if len(rets) == 0 {
			c.Violation(fn, c.P.Pos(fn.Pos()), "case "+sc.name, "NewRoot does not return with "+sc.name)
			continue
		}
		for _, ret := range rets {
			a := fxAllocOfReturn(ret, "Root")
			if a == nil {
				c.Undecided(fn, c.P.InstrPos(ret), "returned Root", "cannot find the Root NewRoot returns")
				continue
			}
			fs, whole := fxStructStores(a)
			if len(whole) > 0 {
				c.Undecided(fn, c.P.InstrPos(whole[0]), "returned Root", "Root is assigned as a whole from a value the rule does not follow")
				continue
			}
			for _, fld := range []struct{ field, want string }{{"BranchFactor", sc.wantBF}, {"NodeFormat", sc.wantNF}} {
				sts := fxStoresOf(fs, fld.field)
				construct := "Root." + fld.field + " when " + sc.name
				if len(sts) != 1 {
					c.Violation(fn, c.P.Pos(fn.Pos()), construct, fmt.Sprintf("NewRoot's Root.%s has %d initialisations (want the one of the literal)", fld.field, len(sts)))
					continue
				}
				lv := as.leaves(sts[0].Val, reach)
				bad, und := "", ""
				for _, l := range lv {
					switch {
					case fld.want == "opt":
						if !(fld.field == "BranchFactor" && isBF(l)) && !(fld.field == "NodeFormat" && isNF(l)) {
							bad = "the option's " + fld.field + " does not override the default (value is " + ir.Sym(l) + ")"
						}
					case fld.field == "BranchFactor":
						if k := fxConst(l); k == nil {
							und = "value " + ir.Sym(l) + " is not a constant"
						} else if !fxIsIntConst(l, frozenBranch) {
							bad = "BranchFactor defaults to " + k.ExactString() + ", the published default is DefaultBranchFactor = 16"
						}
					default:
						if s, ok := fxStringOf(c.P, l); !ok {
							und = "value " + ir.Sym(l) + " does not resolve to a format name"
						} else if s != fld.want {
							bad = fmt.Sprintf("NodeFormat defaults to %q, the published default for new trees is %q", s, fld.want)
						}
					}
				}
				if len(lv) == 0 {
					und = "no value reaches the field"
				}
				pos := c.P.InstrPos(sts[0].St)
				switch {
				case bad != "":
					c.Violation(fn, pos, construct, "NewRoot with "+sc.name+": "+bad)
				case und != "":
					c.Undecided(fn, pos, construct, "NewRoot with "+sc.name+": "+und)
				default:
					c.OK(pos, construct, "evaluates to "+map[bool]string{true: "the option's value", false: "the published default"}[fld.want == "opt"], false)
				}
			}
		}
	}
}

// ---------------------------------------------------------------------------
// d. LoadMast's format mapping (shared with FORMATS / ROOTFIELDS)

// loadMastFormatCase evaluates LoadMast assuming r.NodeFormat == s.
type loadFmtResult struct {
	Stored    []string // format names the stored Mast.nodeFormat resolves to
	Unres     []ssa.Value
	Success   bool // a success return is reachable
	ErrReturn bool // an error return is reachable before any success
	Open      []ssa.Value
	StorePos  string
}

// fmtEval is the evaluation of one function under "the format-name subject
// equals s"; static in-repo callees that receive the subject as an argument
// are evaluated too (depth ≤ 2) with the parameter standing for the subject,
// and their error result decides `err != nil` in the caller.
type fmtEval struct {
	fn      *ssa.Function
	as      *fxAssume
	reach   map[*ssa.BasicBlock]bool
	calls   map[*ssa.Call]*fmtEval
	errNil  int // of fn's reachable returns: 0 unknown/mixed, 1 all nil, 2 all non-nil
	subject func(ssa.Value) bool
}

func evalFormatFn(c *Ctx, fn *ssa.Function, isSubject func(ssa.Value) bool, s string, depth int) *fmtEval {
	return evalFormatFnOf(c, fn, isSubject, nil, "", s, depth)
}

// fieldSubject: the subject is the field `field` read from holder (a pointer
// parameter).
func fieldSubject(holder ssa.Value, field string) func(ssa.Value) bool {
	return func(v ssa.Value) bool {
		b, p, ok := fxFieldLoad(fxStrip(v))
		return ok && b == holder && p == field
	}
}

// evalFormatFnOf is evalFormatFn where the subject may be a field of holder
// (holder != nil): then a static in-repo callee that receives holder itself —
// as its receiver or as an argument — and compares the same field of it is
// evaluated too, with its parameter standing for holder.
func evalFormatFnOf(c *Ctx, fn *ssa.Function, isSubject func(ssa.Value) bool, holder ssa.Value, field string, s string, depth int) *fmtEval {
	ev := &fmtEval{fn: fn, calls: map[*ssa.Call]*fmtEval{}, subject: isSubject}
	if depth < 2 {
		for _, call := range staticCallsIn(fn) {
			callee := ir.Callee(call.Call)
			if !fxOwnFunc(callee) || callee == fn {
				continue
			}
			for i, a := range call.Call.Args {
				if isSubject(a) && i < len(callee.Params) {
					p := callee.Params[i]
					ev.calls[call] = evalFormatFn(c, callee, func(v ssa.Value) bool { return fxStrip(v) == ssa.Value(p) }, s, depth+1)
				}
			}
			if holder == nil || ev.calls[call] != nil {
				continue
			}
			var inner ssa.Value
			for i, a := range call.Call.Args {
				if fxStrip(a) == holder && i < len(callee.Params) && types.Identical(callee.Params[i].Type(), holder.Type()) {
					inner = callee.Params[i]
				}
			}
			if inner == nil {
				continue
			}
			sub := evalFormatFnOf(c, callee, fieldSubject(inner, field), inner, field, s, depth+1)
			if len(sub.compared(c)) > 0 { // only callees that dispatch on the field
				ev.calls[call] = sub
			}
		}
	}
	resolve := func(v ssa.Value) constant.Value {
		if str, ok := fxStringOf(c.P, v); ok {
			return constant.MakeString(str)
		}
		return nil
	}
	ev.as = &fxAssume{
		decide: func(cond ssa.Value) (bool, bool) {
			if v, tnn, ok := ir.NilTest(cond); ok && ir.IsErrorType(v.Type()) {
				if call, idx := fxCallOf(v); call != nil {
					if sub := ev.calls[call]; sub != nil && idx == ir.ErrorResultIndex(sub.fn.Signature) && sub.errNil != 0 {
						return tnn == (sub.errNil == 2), true
					}
				}
				return false, false
			}
			if bin, ok := cond.(*ssa.BinOp); ok && (bin.Op == token.EQL || bin.Op == token.NEQ) {
				return fxCmpConst(bin, isSubject, resolve, constant.MakeString(s))
			}
			return false, false
		},
		relevant: func(cond ssa.Value) bool { return mentionsValue(cond, isSubject, 0) },
	}
	ev.reach = ev.as.reach(fn.Blocks[0])
	ei := ir.ErrorResultIndex(fn.Signature)
	nNil, nNon, nOther := 0, 0, 0
	for _, r := range ir.Returns(fn) {
		if !ev.reach[r.Block()] || ei < 0 || ei >= len(r.Results) {
			continue
		}
		switch {
		case ir.IsNilConst(r.Results[ei]):
			nNil++
		case freshError(r.Results[ei]):
			nNon++
		default:
			nOther++
		}
	}
	switch {
	case nOther == 0 && nNil > 0 && nNon == 0:
		ev.errNil = 1
	case nOther == 0 && nNon > 0 && nNil == 0:
		ev.errNil = 2
	}
	return ev
}

// open lists undecided relevant conditions here and in the evaluated callees.
func (ev *fmtEval) open() []ssa.Value {
	out := ev.as.open(ev.reach)
	for call, sub := range ev.calls {
		if ev.reach[call.Block()] {
			out = append(out, sub.open()...)
		}
	}
	return out
}

// strings resolves v to format names, following results of evaluated callees.
func (ev *fmtEval) strings(c *Ctx, v ssa.Value) (strs []string, unres []ssa.Value) {
	for _, l := range ev.as.leaves(v, ev.reach) {
		if str, ok := fxStringOf(c.P, l); ok {
			strs = append(strs, str)
			continue
		}
		if call, idx := fxCallOf(l); call != nil {
			if sub := ev.calls[call]; sub != nil {
				n := 0
				for _, r := range fxSuccessReturns(sub.fn) {
					if sub.reach[r.Block()] && idx < len(r.Results) {
						n++
						s2, u2 := sub.strings(c, r.Results[idx])
						strs = append(strs, s2...)
						unres = append(unres, u2...)
					}
				}
				if n > 0 {
					continue
				}
			}
		}
		unres = append(unres, l)
	}
	return
}

// compared lists the format names the subject is compared with, here and in
// the evaluated callees.
func (ev *fmtEval) compared(c *Ctx) []string {
	var got []string
	for _, b := range ev.fn.Blocks {
		if len(b.Instrs) == 0 {
			continue
		}
		iff, ok := b.Instrs[len(b.Instrs)-1].(*ssa.If)
		if !ok {
			continue
		}
		bin, ok := iff.Cond.(*ssa.BinOp)
		if !ok {
			continue
		}
		for _, pr := range [][2]ssa.Value{{bin.X, bin.Y}, {bin.Y, bin.X}} {
			if ev.subject(pr[0]) {
				if str, ok := fxStringOf(c.P, pr[1]); ok {
					got = append(got, str)
				}
			}
		}
	}
	for _, sub := range ev.calls {
		got = append(got, sub.compared(c)...)
	}
	return got
}

func loadMastSubject(fn *ssa.Function) func(ssa.Value) bool {
	recv := fn.Params[0]
	return func(v ssa.Value) bool {
		p, path, ok := fxParamField(v)
		return ok && p == recv && path == "NodeFormat"
	}
}

func loadMastFormatCase(c *Ctx, fn *ssa.Function, s string) (*loadFmtResult, string) {
	if len(fn.Params) < 1 {
		return nil, "LoadMast has no receiver"
	}
	ev := evalFormatFnOf(c, fn, loadMastSubject(fn), fn.Params[0], "NodeFormat", s, 0)
	res := &loadFmtResult{Open: ev.open(), StorePos: c.P.Pos(fn.Pos())}
	ei := ir.ErrorResultIndex(fn.Signature)
	for _, r := range ir.Returns(fn) {
		if !ev.reach[r.Block()] {
			continue
		}
		if ei >= 0 && ei < len(r.Results) && ir.IsNilConst(r.Results[ei]) {
			res.Success = true
		} else {
			res.ErrReturn = true
		}
	}
	a, _ := fxReturnedAlloc(fn, "Mast")
	if a == nil {
		return res, "cannot find the Mast value LoadMast returns"
	}
	fs, _ := fxStructStores(a)
	sts := fxStoresOf(fs, "nodeFormat")
	if len(sts) != 1 {
		return res, fmt.Sprintf("Mast.nodeFormat has %d initialisations in LoadMast", len(sts))
	}
	res.StorePos = c.P.InstrPos(sts[0].St)
	if !ev.reach[sts[0].St.Block()] {
		return res, ""
	}
	res.Stored, res.Unres = ev.strings(c, sts[0].Val)
	return res, ""
}

// loadMastCompared: the non-empty format names LoadMast (or the helper it
// delegates to) compares Root.NodeFormat with.
func loadMastCompared(c *Ctx, fn *ssa.Function) []string {
	var out []string
	if len(fn.Params) < 1 {
		return nil
	}
	for _, s := range evalFormatFnOf(c, fn, loadMastSubject(fn), fn.Params[0], "NodeFormat", "", 0).compared(c) {
		if s != "" {
			out = append(out, s)
		}
	}
	return out
}

func runFormatLoadFmt(c *Ctx) {
	fn := c.MustFunc("(*Root).LoadMast")
	if fn == nil {
		return
	}
	for _, cs := range []struct{ in, want string }{{"", frozenV1}, {frozenV1, frozenV1}, {frozenV115, frozenV115}} {
		construct := fmt.Sprintf("NodeFormat %q", cs.in)
		res, problem := loadMastFormatCase(c, fn, cs.in)
		if problem != "" {
			c.Undecided(fn, c.P.Pos(fn.Pos()), construct, problem)
			continue
		}
		switch {
		case len(res.Open) > 0:
			c.Undecided(fn, fxValPos(c.P, res.Open[0], fn), construct, "a branch on Root.NodeFormat is not decided by the rule: "+ir.Sym(res.Open[0]))
		case !res.Success:
			c.Violation(fn, res.StorePos, construct, fmt.Sprintf("LoadMast rejects Root.NodeFormat %q; the published loader maps it to %q (roots of earlier releases stop loading)", cs.in, cs.want))
		case len(res.Unres) > 0:
			c.Undecided(fn, res.StorePos, construct, "the value stored in Mast.nodeFormat does not resolve to a format name: "+ir.Sym(res.Unres[0]))
		case len(res.Stored) != 1 || res.Stored[0] != cs.want:
			c.Violation(fn, res.StorePos, construct, fmt.Sprintf("LoadMast maps Root.NodeFormat %q to %q; the published loader maps it to %q", cs.in, res.Stored, cs.want))
		default:
			c.OK(res.StorePos, construct, "maps to "+cs.want, false)
		}
	}
	res, problem := loadMastFormatCase(c, fn, "\x00unknown-format")
	construct := "NodeFormat unknown"
	switch {
	case problem != "":
		c.Undecided(fn, c.P.Pos(fn.Pos()), construct, problem)
	case len(res.Open) > 0:
		c.Undecided(fn, fxValPos(c.P, res.Open[0], fn), construct, "a branch on Root.NodeFormat is not decided by the rule: "+ir.Sym(res.Open[0]))
	case res.Success:
		c.Violation(fn, res.StorePos, construct, fmt.Sprintf("LoadMast accepts an unknown Root.NodeFormat (treated as %q); the published loader returns an error", res.Stored))
	default:
		c.OK(res.StorePos, construct, "only error returns are reachable", false)
	}
}

// ---------------------------------------------------------------------------
// g. struct layouts

type frozenField struct{ name, typ, json string }

func checkLayout(c *Ctx, what string, st *types.Struct, pos string, want []frozenField) {
	if st.NumFields() != len(want) {
		var names []string
		for i := 0; i < st.NumFields(); i++ {
			names = append(names, st.Field(i).Name())
		}
		c.Violation(nil, pos, what+" fields", fmt.Sprintf("%s has fields %v; the published layout has exactly %d fields (%s …): added/removed fields change the serialised bytes", what, names, len(want), want[0].name))
	}
	for i, w := range want {
		construct := what + "." + w.name
		if i >= st.NumFields() {
			c.Violation(nil, pos, construct, "field missing from "+what)
			continue
		}
		f := st.Field(i)
		fpos := c.P.Pos(f.Pos())
		var bad []string
		if f.Name() != w.name {
			bad = append(bad, fmt.Sprintf("field %d is named %s (published: %s)", i, f.Name(), w.name))
		}
		if got := fxTypeString(f.Type()); got != w.typ {
			bad = append(bad, fmt.Sprintf("type %s (published: %s)", got, w.typ))
		}
		if got := fxJSON(st, i).String(); got != w.json {
			bad = append(bad, fmt.Sprintf("effective JSON key/options %q (published: %q)", got, w.json))
		}
		if len(bad) > 0 {
			c.Violation(nil, fpos, construct, what+" layout changed: "+strings.Join(bad, "; "))
		} else {
			c.OK(fpos, construct, fmt.Sprintf("position %d, %s, json %q", i, w.typ, w.json), false)
		}
	}
}

func runFormatStructs(c *Ctx) {
	if st := c.P.StructOf(ir.MastPath, "Node"); st == nil {
		c.AnchorMissing("struct Node")
	} else {
		checkLayout(c, "Node", st, c.P.Pos(c.P.Named(ir.MastPath, "Node").Obj().Pos()), []frozenField{
			{"Key", "[]interface{}", "Key"}, {"Value", "[]interface{}", "Value"}, {"Link", "[]interface{}", "Link,omitempty"}})
	}
	if st := c.P.StructOf(ir.MastPath, "Root"); st == nil {
		c.AnchorMissing("struct Root")
	} else {
		checkLayout(c, "Root", st, c.P.Pos(c.P.Named(ir.MastPath, "Root").Obj().Pos()), []frozenField{
			{"Link", "*string", "Link"}, {"Size", "uint64", "Size"}, {"Height", "uint8", "Height"},
			{"BranchFactor", "uint", "BranchFactor"}, {"NodeFormat", "string", "NodeFormat,omitempty"}})
	}
	// no custom JSON/Text codec on the published record types: with
	// encoding/json such a method replaces the field-by-field encoding the
	// layout clauses above describe
	var recTypes []types.Type
	var recNames []string
	for _, n := range []string{"Root", "Node"} {
		if nt := c.P.Named(ir.MastPath, n); nt != nil {
			recTypes, recNames = append(recTypes, nt), append(recNames, n)
		}
	}
	if sc := mastScope(c); sc != nil {
		// the decoded intermediate of the two-stage JSON path, when it is a named type
		if st, _, _ := stringNodeStruct(c); st != nil {
			for _, name := range sc.Names() {
				if tn, ok := sc.Lookup(name).(*types.TypeName); ok && !tn.IsAlias() {
					if nt, ok := tn.Type().(*types.Named); ok && types.Identical(nt.Underlying(), st) && name != "Node" {
						recTypes, recNames = append(recTypes, nt), append(recNames, name)
					}
				}
			}
		}
	}
	for i, t := range recTypes {
		found := false
		for _, recv := range []types.Type{t, types.NewPointer(t)} {
			ms := types.NewMethodSet(recv)
			for _, mn := range []string{"MarshalJSON", "UnmarshalJSON", "MarshalText", "UnmarshalText"} {
				pkg := c.P.Pkgs[ir.MastPath].Types
				if sel := ms.Lookup(pkg, mn); sel != nil {
					if found {
						continue
					}
					found = true
					c.Violation(nil, c.P.Pos(sel.Obj().Pos()), recNames[i]+"."+mn, fmt.Sprintf("%s has a method %s: encoding/json uses it instead of the field-by-field encoding of the published layout, so records written by / for other releases are encoded or decoded differently (e.g. defaults pre-filled on decode change what an absent field means)", recNames[i], mn))
				}
			}
		}
		if !found {
			c.OK(c.P.Pos(recTypes[i].(*types.Named).Obj().Pos()), recNames[i]+" has no custom JSON/Text codec", "no MarshalJSON/UnmarshalJSON/MarshalText/UnmarshalText in the method sets of T and *T", false)
		}
	}
	// mastNode must keep embedding Node as its first field: the binary encoder and the v1 marshal input reach Key/Value/Link through it
	if st := c.P.StructOf(ir.MastPath, "mastNode"); st == nil {
		c.AnchorMissing("struct mastNode")
	} else {
		emb := false
		for i := 0; i < st.NumFields(); i++ {
			if st.Field(i).Embedded() && ir.IsNamed(st.Field(i).Type(), "Node") {
				emb = true
			}
		}
		if emb {
			c.OK(c.P.Pos(c.P.Named(ir.MastPath, "mastNode").Obj().Pos()), "mastNode embeds Node", "", true)
		} else {
			c.Undecided(nil, c.P.Pos(c.P.Named(ir.MastPath, "mastNode").Obj().Pos()), "mastNode embeds Node", "mastNode no longer embeds Node; the rules of this group assume it")
		}
	}
}

// stringNodeStruct finds, by role, the struct the two-stage decoder unmarshals
// the node bytes into: the pointee of the value handed to the user
// unmarshaler that has []json.RawMessage fields.
func stringNodeStruct(c *Ctx) (*types.Struct, *ssa.Function, ssa.Instruction) {
	for _, fn := range c.P.Funcs {
		if fn.Pkg == nil || fn.Pkg.Pkg.Path() != ir.MastPath {
			continue
		}
		for _, ci := range CallsOf(fn) {
			com := ci.Common()
			if com.IsInvoke() || ir.Callee(com) != nil || len(com.Args) != 2 {
				continue
			}
			mi, ok := com.Args[1].(*ssa.MakeInterface)
			if !ok {
				continue
			}
			pt, ok := mi.X.Type().Underlying().(*types.Pointer)
			if !ok {
				continue
			}
			st, ok := types.Unalias(pt.Elem()).Underlying().(*types.Struct)
			if !ok {
				continue
			}
			for i := 0; i < st.NumFields(); i++ {
				if fxTypeString(st.Field(i).Type()) == "[]encoding/json.RawMessage" {
					return st, fn, ci
				}
			}
		}
	}
	return nil, nil, nil
}

func runStructAgree(c *Ctx) {
	node := c.P.StructOf(ir.MastPath, "Node")
	if node == nil {
		c.AnchorMissing("struct Node")
		return
	}
	st, fn, at := stringNodeStruct(c)
	if st == nil {
		c.AnchorMissing("the struct with json.RawMessage fields handed to the user unmarshaler (stringNodeT)")
		return
	}
	pos := c.P.InstrPos(at)
	if st.NumFields() != node.NumFields() {
		c.Violation(fn, pos, "field count", fmt.Sprintf("the two-stage decoder's struct has %d fields, Node has %d: a serialised field is dropped or invented on load", st.NumFields(), node.NumFields()))
		return
	}
	wantT := map[string]string{"Key": "[]encoding/json.RawMessage", "Value": "[]encoding/json.RawMessage", "Link": "[]string"}
	for i := 0; i < node.NumFields(); i++ {
		nf, sf := node.Field(i), st.Field(i)
		construct := "field " + nf.Name()
		fpos := c.P.Pos(sf.Pos())
		var bad []string
		if nf.Name() != sf.Name() {
			bad = append(bad, fmt.Sprintf("field %d is %s in the decoder's struct and %s in Node", i, sf.Name(), nf.Name()))
		}
		if a, b := fxJSON(node, i).String(), fxJSON(st, i).String(); a != b {
			bad = append(bad, fmt.Sprintf("effective JSON key/options differ: Node %q, decoder %q", a, b))
		}
		if w, ok := wantT[nf.Name()]; ok && fxTypeString(sf.Type()) != w {
			bad = append(bad, fmt.Sprintf("decoder field type %s (expected %s)", fxTypeString(sf.Type()), w))
		}
		if len(bad) > 0 {
			c.Violation(fn, fpos, construct, "Node and the two-stage decoder's struct disagree: "+strings.Join(bad, "; "))
		} else {
			c.OK(fpos, construct, "same name, position and JSON key/options as Node."+nf.Name(), false)
		}
	}
}

// ---------------------------------------------------------------------------
// h. DefaultKeyCompare

// sideOf classifies a value as derived (by type assertion only) from
// parameter 0 ("L") or parameter 1 ("R") of fn.
func sideOf(fn *ssa.Function, v ssa.Value) string {
	if len(fn.Params) < 2 {
		return ""
	}
	return sideOfLR(fn.Params[0], fn.Params[1], v)
}

// sideOfLR is sideOf with the two operands given explicitly (they are
// parameters of a helper when the comparator delegates to one).
func sideOfLR(L, R ssa.Value, v ssa.Value) string {
	v = fxStripNoConv(v)
	if e, ok := v.(*ssa.Extract); ok && e.Index == 0 {
		v = e.Tuple
	}
	if ta, ok := v.(*ssa.TypeAssert); ok {
		v = fxStripNoConv(ta.X)
	}
	if v == L {
		return "L"
	}
	if v == R {
		return "R"
	}
	return ""
}

func keyIface(c *Ctx) *types.Interface {
	n := c.P.Named(ir.MastPath, "Key")
	if n == nil {
		return nil
	}
	i, _ := n.Underlying().(*types.Interface)
	return i
}

func runFormatKeyOrder(c *Ctx) {
	outer := c.MustFunc("DefaultKeyCompare")
	if outer == nil {
		return
	}
	fn := fxReturnedClosure(outer)
	if fn == nil || len(fn.Params) != 2 {
		c.Undecided(outer, c.P.Pos(outer.Pos()), "returned comparator", "DefaultKeyCompare does not return a single two-argument function literal")
		return
	}
	// the comparator may delegate to a named function (depth ≤ 2): analyse
	// that body with its parameters standing for the two keys / the marshaler
	var L, R ssa.Value = fn.Params[0], fn.Params[1]
	isMarsh := isCapturedFunc
	for depth := 0; depth < 2; depth++ {
		if cs, _ := fxSwitchChain(fn.Blocks[0], L); len(cs) > 0 {
			break
		}
		callee, pL, pR, pM := delegatedComparator(fn, L, R, isMarsh)
		if callee == nil {
			break
		}
		fn, L, R = callee, pL, pR
		m := pM
		isMarsh = func(v ssa.Value) bool { return m != nil && fxStripNoConv(v) == m }
	}
	side := func(v ssa.Value) string { return sideOfLR(L, R, v) }
	cases, deflt := fxSwitchChain(fn.Blocks[0], L)
	if len(cases) == 0 {
		c.Undecided(fn, c.P.Pos(fn.Pos()), "type switch", "the comparator does not start with a type switch over its first argument")
		return
	}
	want := []string{"Key", "string", "int", "uint", "uint64", "int64", "[]byte"}
	got := fxTypeSet(cases)
	missing, extra := fxSetDiff(want, got)
	for _, m := range missing {
		c.Violation(fn, c.P.Pos(fn.Pos()), "case "+m, fmt.Sprintf("DefaultKeyCompare has no native case for %s any more: keys of that type are now ordered by their marshalled bytes (or rejected), which changes the default key order", m))
	}
	for _, e := range extra {
		c.Violation(fn, c.P.Pos(fn.Pos()), "case "+e, fmt.Sprintf("DefaultKeyCompare gained a native case for %s: such keys were ordered by their marshalled bytes in the published format", e))
	}
	// no concrete case before Key may capture a Key implementation
	ki := keyIface(c)
	for _, cs := range cases {
		if fxShortType(cs.T) == "Key" {
			break
		}
		if ki != nil && !types.IsInterface(cs.T) && (types.Implements(cs.T, ki) || types.Implements(types.NewPointer(cs.T), ki)) {
			c.Violation(fn, c.P.InstrPos(cs.TA), "case "+fxShortType(cs.T)+" before Key", "a type implementing Key is matched before the Key case: its Order method is bypassed")
		} else if types.IsInterface(cs.T) {
			c.Undecided(fn, c.P.InstrPos(cs.TA), "case "+fxShortType(cs.T)+" before Key", "an interface case precedes the Key case; whether it captures Key implementations is not decided")
		}
	}
	for _, cs := range cases {
		name := fxShortType(cs.T)
		construct := "case " + name
		pos := c.P.InstrPos(cs.TA)
		in := false
		for _, w := range want {
			if w == name {
				in = true
			}
		}
		if !in {
			continue
		}
		if cs.Bound == nil {
			c.Undecided(fn, pos, construct, "case shares its body with other types")
			continue
		}
		switch name {
		case "Key", "[]byte":
			as := okAssumeSides(fn, side, cs.T, nil, 0)
			reach := as.reach(cs.Body)
			rets := successIn(fn, reach)
			if len(rets) != 1 {
				c.Undecided(fn, pos, construct, fmt.Sprintf("%d success returns in the case body (expected one)", len(rets)))
				continue
			}
			r := rets[0]
			call, _ := r.Results[0].(*ssa.Call)
			ok := false
			if call != nil && name == "Key" {
				com := call.Common()
				ok = com.IsInvoke() && com.Method.Name() == "Order" && side(com.Value) == "L" && len(com.Args) == 1 && side(com.Args[0]) == "R"
			} else if call != nil {
				sc := ir.Callee(call.Common())
				ok = sc != nil && fxFullName(sc) == "bytes.Compare" && side(call.Common().Args[0]) == "L" && side(call.Common().Args[1]) == "R"
			}
			if ok {
				c.OK(c.P.InstrPos(r), construct, map[string]string{"Key": "returns v.Order(v2)", "[]byte": "returns bytes.Compare(v, v2)"}[name], false)
			} else {
				c.Violation(fn, c.P.InstrPos(r), construct, map[string]string{
					"Key":    "the Key case no longer returns v.Order(v2) with v from the first and v2 from the second argument",
					"[]byte": "the []byte case no longer returns bytes.Compare(v, v2) with v from the first and v2 from the second argument (swapped or replaced: the default order of []byte keys changes)"}[name])
			}
		default:
			for _, rel := range []struct {
				name string
				r    int
			}{{"<", -1}, {"==", 0}, {">", 1}} {
				sub := construct + " " + rel.name
				res := orderedResults(c, fn, side, cs.Body, cs.T, rel.r, 0)
				if res.undecided != "" {
					c.Undecided(res.inFn, res.pos, sub, res.undecided)
					continue
				}
				if len(res.leaves) == 0 {
					c.Violation(fn, pos, sub, fmt.Sprintf("for v %s v2 the %s case no longer returns a result", rel.name, name))
					continue
				}
				bad := false
				for _, l := range res.leaves {
					isWant := fxIsIntConst(l.val, int64(rel.r))
					got := ir.Sym(l.val)
					if l.konst != nil {
						isWant = *l.konst == int64(rel.r)
						got = fmt.Sprint(*l.konst)
					}
					if !isWant {
						bad = true
						via := ""
						if l.fn != fn || l.konst != nil {
							via = " (through " + l.via + ")"
						}
						c.Violation(fn, c.P.InstrPos(l.at), sub, fmt.Sprintf("for v %s v2 the %s case returns %s%s; the published order returns %d (the default order of %s keys is inverted or collapsed)", rel.name, name, got, via, rel.r, name))
					}
				}
				if !bad {
					why := fmt.Sprintf("returns %d", rel.r)
					if v := res.leaves[0].via; v != "" {
						why += " through " + v
					}
					c.OK(pos, sub, why, false)
				}
			}
		}
	}
	// fallback: bytes.Compare(marshal(i), marshal(i2))
	{
		construct := "fallback"
		pos := c.P.Pos(fn.Pos())
		if len(deflt.Instrs) > 0 {
			pos = c.P.InstrPos(deflt.Instrs[0])
		}
		verdict, at, inFn := fallbackCompare(c, fn, L, R, isMarsh, deflt, 0)
		if at != nil {
			pos = c.P.InstrPos(at)
		}
		switch verdict {
		case "ok":
			c.OK(pos, construct, "returns bytes.Compare(marshal(i), marshal(i2))", false)
		case "bad":
			c.Violation(inFn, pos, construct, "the fallback no longer returns bytes.Compare(b, b2) with b = marshal(first argument), b2 = marshal(second argument)")
		default:
			c.Undecided(inFn, pos, construct, verdict)
		}
	}
}

// delegatedComparator: fn does nothing but return the results of one static
// in-repo call that receives both operands; returns the callee and its
// parameters standing for L, R and the marshaler.
func delegatedComparator(fn *ssa.Function, L, R ssa.Value, isMarsh func(ssa.Value) bool) (callee *ssa.Function, pL, pR, pM ssa.Value) {
	var call *ssa.Call
	for _, r := range ir.Returns(fn) {
		if len(r.Results) == 0 {
			return nil, nil, nil, nil
		}
		cl, _ := fxCallOf(r.Results[0])
		if cl == nil || (call != nil && cl != call) {
			return nil, nil, nil, nil
		}
		call = cl
	}
	if call == nil {
		return nil, nil, nil, nil
	}
	callee = ir.Callee(call.Call)
	if callee == nil || !fxOwnFunc(callee) {
		return nil, nil, nil, nil
	}
	for i, a := range call.Call.Args {
		if i >= len(callee.Params) {
			break
		}
		switch {
		case fxStripNoConv(a) == L:
			pL = callee.Params[i]
		case fxStripNoConv(a) == R:
			pR = callee.Params[i]
		case isMarsh(a):
			pM = callee.Params[i]
		}
	}
	if pL == nil || pR == nil {
		return nil, nil, nil, nil
	}
	return callee, pL, pR, pM
}

// fallbackCompare checks that the path from block `from` (dynamic types equal,
// no marshal error) returns bytes.Compare(marshal(L), marshal(R)); a return
// that hands on the results of a static in-repo call receiving both operands
// is followed (depth ≤ 2). verdict is "ok", "bad" or an undecided reason.
func fallbackCompare(c *Ctx, fn *ssa.Function, L, R ssa.Value, isMarsh func(ssa.Value) bool, from *ssa.BasicBlock, depth int) (verdict string, at ssa.Instruction, inFn *ssa.Function) {
	side := func(v ssa.Value) string { return sideOfLR(L, R, v) }
	as := okAssumeSides(fn, side, nil, nil, 1)
	reach := as.reach(from)
	rets := successIn(fn, reach)
	if len(rets) == 0 && depth < 2 {
		// no direct success return: a delegating return?
		var call *ssa.Call
		n := 0
		ei := ir.ErrorResultIndex(fn.Signature)
		for _, r := range ir.Returns(fn) {
			if !reach[r.Block()] || ei < 0 || ei >= len(r.Results) || freshError(r.Results[ei]) {
				continue
			}
			cl, idx := fxCallOf(r.Results[0])
			if cl == nil || idx != 0 {
				continue
			}
			n++
			call = cl
		}
		if n == 1 {
			callee := ir.Callee(call.Call)
			if callee != nil && fxOwnFunc(callee) {
				var pL, pR, pM ssa.Value
				for i, a := range call.Call.Args {
					if i >= len(callee.Params) {
						break
					}
					switch {
					case fxStripNoConv(a) == L:
						pL = callee.Params[i]
					case fxStripNoConv(a) == R:
						pR = callee.Params[i]
					case isMarsh(a):
						pM = callee.Params[i]
					}
				}
				if pL != nil && pR != nil {
					m := pM
					return fallbackCompare(c, callee, pL, pR, func(v ssa.Value) bool { return m != nil && fxStripNoConv(v) == m }, callee.Blocks[0], depth+1)
				}
				return "bad", call, fn
			}
		}
	}
	if len(rets) != 1 {
		return fmt.Sprintf("%d success returns on the fallback path (expected one)", len(rets)), nil, fn
	}
	r := rets[0]
	call, _ := r.Results[0].(*ssa.Call)
	if call != nil {
		if sc := ir.Callee(call.Common()); sc != nil && fxFullName(sc) == "bytes.Compare" {
			a, b := marshalledSideLR(L, R, isMarsh, call.Common().Args[0]), marshalledSideLR(L, R, isMarsh, call.Common().Args[1])
			if a == "L" && b == "R" {
				return "ok", r, fn
			}
		}
	}
	return "bad", r, fn
}

func isFloatType(t types.Type) bool {
	b, ok := t.Underlying().(*types.Basic)
	return ok && b.Info()&(types.IsFloat|types.IsComplex) != 0
}

// fxOwnFunc: f (or the generic function it instantiates) is a function of
// package mast with a body.
func fxOwnFunc(f *ssa.Function) bool {
	if f == nil || f.Blocks == nil {
		return false
	}
	o := f
	if f.Origin() != nil {
		o = f.Origin()
	}
	return o.Pkg != nil && o.Pkg.Pkg.Path() == ir.MastPath
}

type orderedLeaf struct {
	konst *int64 // the value, when it is known without being an SSA constant (cmp.Compare)
	val   ssa.Value
	at    ssa.Instruction
	fn    *ssa.Function
	via   string // helper chain, "" when the result is produced in the comparator itself
}

type orderedRes struct {
	leaves    []orderedLeaf
	undecided string
	pos       string
	inFn      *ssa.Function
}

// orderedResults evaluates what fn returns from block `from` when the first
// operand (values of side "L") relates to the second ("R") as rel (-1,0,1).
// A result that is the value of a static in-repo helper (possibly a generic
// instantiation) applied to one L and one R operand is followed into the
// helper (depth ≤ 2) with its parameters mapped to the operands in argument
// order — so a helper called with swapped arguments evaluates with the
// relation inverted.
func orderedResults(c *Ctx, fn *ssa.Function, side func(ssa.Value) string, from *ssa.BasicBlock, T types.Type, rel int, depth int) orderedRes {
	as := okAssumeSides(fn, side, T, &rel, 0)
	reach := as.reach(from)
	res := orderedRes{inFn: fn, pos: c.P.Pos(fn.Pos())}
	if open := as.open(reach); len(open) > 0 {
		res.undecided = "comparison not decided by the rule: " + ir.Sym(open[0])
		res.pos = fxValPos(c.P, open[0], fn)
		return res
	}
	for _, r := range successIn(fn, reach) {
		if len(r.Results) == 0 {
			continue
		}
		for _, l := range as.leaves(r.Results[0], reach) {
			call, callee := fxCallee(fxStripNoConv(l))
			if callee != nil && fxOwnFunc(callee) && depth < 2 && len(call.Call.Args) == 2 && len(callee.Params) == 2 {
				s0, s1 := side(call.Call.Args[0]), side(call.Call.Args[1])
				if s0 != "" && s1 != "" && s0 != s1 {
					p0, p1 := callee.Params[0], callee.Params[1]
					sub := orderedResults(c, callee, func(v ssa.Value) string {
						switch fxStripNoConv(v) {
						case ssa.Value(p0):
							return s0
						case ssa.Value(p1):
							return s1
						}
						return ""
					}, callee.Blocks[0], nil, rel, depth+1)
					if sub.undecided != "" {
						return sub
					}
					if len(sub.leaves) == 0 {
						res.undecided = "helper " + callee.Name() + " returns nothing the rule can evaluate"
						res.pos = c.P.InstrPos(call)
						return res
					}
					for _, sl := range sub.leaves {
						v := callee.Name() + "(" + map[string]string{"L": "v", "R": "v2"}[s0] + ", " + map[string]string{"L": "v", "R": "v2"}[s1] + ")"
						if sl.via != "" {
							v += " → " + sl.via
						}
						sl.via = v
						res.leaves = append(res.leaves, sl)
					}
					continue
				}
			}
			// the standard three-way comparison: cmp.Compare(a, b) is -1/0/+1
			// by </==/> for every ordered non-float type
			if callee != nil && fxFullName(callee) == "cmp.Compare" && len(call.Call.Args) == 2 && !isFloatType(call.Call.Args[0].Type()) {
				s0, s1 := side(call.Call.Args[0]), side(call.Call.Args[1])
				if s0 != "" && s1 != "" && s0 != s1 {
					k := int64(rel)
					if s0 == "R" {
						k = -k
					}
					via := "cmp.Compare(" + map[string]string{"L": "v", "R": "v2"}[s0] + ", " + map[string]string{"L": "v", "R": "v2"}[s1] + ")"
					res.leaves = append(res.leaves, orderedLeaf{konst: &k, val: l, at: r, fn: fn, via: via})
					continue
				}
			}
			res.leaves = append(res.leaves, orderedLeaf{val: l, at: r, fn: fn})
		}
	}
	return res
}

// marshalledSide: v is result #0 of a call of the captured marshaler on one of
// fn's parameters.
func marshalledSide(fn *ssa.Function, v ssa.Value) string {
	return marshalledSideLR(fn.Params[0], fn.Params[1], isCapturedFunc, v)
}

// isCapturedFunc: v is a captured variable (read through its cell).
func isCapturedFunc(v ssa.Value) bool {
	if _, ok := ir.ResolveCell(v).(*ssa.FreeVar); ok {
		return true
	}
	if u, ok := v.(*ssa.UnOp); ok && u.Op == token.MUL {
		_, ok := u.X.(*ssa.FreeVar)
		return ok
	}
	return false
}

// marshalledSideLR: v is result #0 of a call of the marshaler (recognised by
// isMarsh) on operand L or R.
func marshalledSideLR(L, R ssa.Value, isMarsh func(ssa.Value) bool, v ssa.Value) string {
	call, idx := fxCallOf(v)
	if call == nil || idx != 0 || call.Common().IsInvoke() || ir.Callee(call.Common()) != nil || len(call.Common().Args) != 1 {
		return ""
	}
	if !isMarsh(call.Common().Value) {
		return ""
	}
	a := fxStripNoConv(call.Common().Args[0])
	if a == L {
		return "L"
	}
	if a == R {
		return "R"
	}
	return ""
}

// okAssume: the second argument has type T (its assertion succeeds); with rel
// the relation of the first to the second asserted value; mode 1 = fallback
// path (dynamic types equal, no marshal error).
func okAssume(fn *ssa.Function, T types.Type, rel *int, mode int) *fxAssume {
	return okAssumeSides(fn, func(v ssa.Value) string { return sideOf(fn, v) }, T, rel, mode)
}

// okAssumeSides is okAssume with the classification of values into first
// ("L") / second ("R") operand supplied by the caller, so that the same
// evaluation can run inside a helper whose parameters are mapped to the
// comparator's arguments.
func okAssumeSides(fn *ssa.Function, side func(ssa.Value) string, T types.Type, rel *int, mode int) *fxAssume {
	return &fxAssume{
		decide: func(cond ssa.Value) (bool, bool) {
			if e, ok := cond.(*ssa.Extract); ok && e.Index == 1 {
				if ta, ok := e.Tuple.(*ssa.TypeAssert); ok && T != nil && side(ta.X) == "R" && types.Identical(ta.AssertedType, T) {
					return true, true
				}
			}
			bin, ok := cond.(*ssa.BinOp)
			if !ok {
				return false, false
			}
			if mode == 1 {
				if v, tnn, ok := ir.NilTest(cond); ok && ir.IsErrorType(v.Type()) {
					return tnn == false, true // err == nil holds
				}
				if isTypeOf(bin.X) && isTypeOf(bin.Y) {
					switch bin.Op {
					case token.EQL:
						return true, true
					case token.NEQ:
						return false, true
					}
				}
				return false, false
			}
			if rel == nil {
				return false, false
			}
			sx, sy := side(bin.X), side(bin.Y)
			r := *rel
			if sx == "R" && sy == "L" {
				r = -r
			} else if !(sx == "L" && sy == "R") {
				return false, false
			}
			switch bin.Op {
			case token.LSS:
				return r < 0, true
			case token.LEQ:
				return r <= 0, true
			case token.GTR:
				return r > 0, true
			case token.GEQ:
				return r >= 0, true
			case token.EQL:
				return r == 0, true
			case token.NEQ:
				return r != 0, true
			}
			return false, false
		},
		relevant: func(cond ssa.Value) bool {
			bin, ok := cond.(*ssa.BinOp)
			if !ok || rel == nil {
				return false
			}
			return side(bin.X) != "" || side(bin.Y) != ""
		},
	}
}

func isTypeOf(v ssa.Value) bool {
	_, callee := fxCallee(v)
	return callee != nil && fxFullName(callee) == "reflect.TypeOf"
}

func successIn(fn *ssa.Function, reach map[*ssa.BasicBlock]bool) []*ssa.Return {
	var out []*ssa.Return
	for _, r := range fxSuccessReturns(fn) {
		if reach[r.Block()] {
			out = append(out, r)
		}
	}
	return out
}

// ---------------------------------------------------------------------------
// i. DefaultLayer

// layerLoopCheck decides whether fn (func(T, uint) uint8 with T int64/uint64)
// counts how often its second parameter divides its first. It returns a list
// of violations (recognised slot, wrong content) and of undecided slots.
func layerLoopCheck(fn *ssa.Function) (viol, und []string) {
	return layerLoopCheckDepth(fn, 0)
}

func layerLoopCheckDepth(fn *ssa.Function, depth int) (viol, und []string) {
	if len(fn.Params) != 2 {
		return nil, []string{"not a two-parameter function"}
	}
	v0, bf := fn.Params[0], fn.Params[1]
	rets := ir.Returns(fn)
	if len(rets) != 1 || len(rets[0].Results) != 1 {
		return nil, []string{"more than one return"}
	}
	// a wrapper around a shared (possibly generic) loop function: follow it,
	// provided the value and the branch factor are passed on unchanged
	if call, callee := fxCallee(fxStripNoConv(rets[0].Results[0])); callee != nil && fxOwnFunc(callee) && depth < 2 {
		if len(call.Call.Args) == 2 && fxStripNoConv(call.Call.Args[0]) == ssa.Value(v0) && fxStripNoConv(call.Call.Args[1]) == ssa.Value(bf) {
			v, u := layerLoopCheckDepth(callee, depth+1)
			for i := range v {
				v[i] = "via " + callee.Name() + ": " + v[i]
			}
			for i := range u {
				u[i] = "via " + callee.Name() + ": " + u[i]
			}
			return v, u
		}
		return []string{"the layer is " + callee.Name() + "(" + ir.Sym(call.Call.Args[0]) + ", " + ir.Sym(call.Call.Args[1]) + "), not the divisibility count of (v, branchFactor)"}, nil
	}
	layer, ok := rets[0].Results[0].(*ssa.Phi)
	if !ok {
		if bin, isBin := rets[0].Results[0].(*ssa.BinOp); isBin {
			if _, isPhi := bin.X.(*ssa.Phi); isPhi {
				return []string{"the returned value is " + ir.Sym(bin) + ", not the loop counter itself"}, nil
			}
		}
		return nil, []string{"the returned value is not a loop counter"}
	}
	isBF := func(x ssa.Value) bool {
		x = fxStripNoConv(x)
		if cv, ok := x.(*ssa.Convert); ok {
			x = fxStripNoConv(cv.X)
		}
		return x == ssa.Value(bf)
	}
	// the value phi: header phi fed by parameter 0
	var vphi *ssa.Phi
	for _, ins := range layer.Block().Instrs {
		if p, ok := ins.(*ssa.Phi); ok && p != layer {
			for _, e := range p.Edges {
				if e == ssa.Value(v0) {
					vphi = p
				}
			}
		}
	}
	if vphi == nil {
		return nil, []string{"no loop variable initialised from the first parameter next to the counter"}
	}
	// counter: 0 on entry, +1 on the back edge
	var bodyBlocks []*ssa.BasicBlock
	for i, e := range layer.Edges {
		pred := layer.Block().Preds[i]
		if layer.Block().Dominates(pred) { // back edge
			bin, ok := e.(*ssa.BinOp)
			switch {
			case ok && bin.Op == token.ADD && ((bin.X == ssa.Value(layer) && fxIsIntConst(bin.Y, 1)) || (bin.Y == ssa.Value(layer) && fxIsIntConst(bin.X, 1))):
				bodyBlocks = append(bodyBlocks, bin.Block())
			case ok && (bin.X == ssa.Value(layer) || bin.Y == ssa.Value(layer)):
				viol = append(viol, "the layer counter advances by "+ir.Sym(bin)+" per division, the published function adds 1")
				bodyBlocks = append(bodyBlocks, bin.Block())
			default:
				und = append(und, "counter update "+ir.Sym(e)+" not recognised")
			}
		} else if k := fxConst(e); k == nil {
			und = append(und, "counter start "+ir.Sym(e)+" is not a constant")
		} else if !fxIsIntConst(e, 0) {
			viol = append(viol, "the layer counter starts at "+k.ExactString()+", the published function starts at 0")
		}
	}
	// value: v on entry, v / bf on the back edge
	for i, e := range vphi.Edges {
		pred := vphi.Block().Preds[i]
		if !vphi.Block().Dominates(pred) {
			if e != ssa.Value(v0) {
				und = append(und, "loop variable starts as "+ir.Sym(e))
			}
			continue
		}
		bin, ok := e.(*ssa.BinOp)
		switch {
		case ok && bin.Op == token.QUO && bin.X == ssa.Value(vphi) && isBF(bin.Y):
		case ok && bin.X == ssa.Value(vphi):
			viol = append(viol, "the loop variable is updated by "+ir.Sym(bin)+", the published function divides it by the branch factor")
		default:
			und = append(und, "loop variable update "+ir.Sym(e)+" not recognised")
		}
	}
	if len(bodyBlocks) != 1 {
		und = append(und, "loop body not identified")
		return
	}
	// conditions under which the body runs: exactly v != 0 and v % bf == 0
	seenNZ, seenRem := false, false
	for _, f := range ir.FactsAt(bodyBlocks[0]) {
		if !layer.Block().Dominates(f.From) {
			continue // a condition outside the loop
		}
		bin, ok := f.Cond.(*ssa.BinOp)
		if !ok {
			und = append(und, "loop condition "+ir.Sym(f.Cond)+" not recognised")
			continue
		}
		x, y := bin.X, bin.Y
		if fxConst(x) != nil {
			x, y = y, x
		}
		holdsEq := (bin.Op == token.EQL) == f.Truth // the fact says x == y
		isCmp := bin.Op == token.EQL || bin.Op == token.NEQ
		rem, isRem := x.(*ssa.BinOp)
		switch {
		case isCmp && x == ssa.Value(vphi) && fxIsIntConst(y, 0) && !holdsEq:
			seenNZ = true
		case isCmp && x == ssa.Value(vphi) && fxIsIntConst(y, 0):
			viol = append(viol, "the loop runs while v == 0 (published: v != 0)")
		case isRem && rem.Op == token.REM && rem.X == ssa.Value(vphi) && isBF(rem.Y):
			if isCmp && fxIsIntConst(y, 0) && holdsEq {
				seenRem = true
			} else {
				viol = append(viol, fmt.Sprintf("the loop continues while %s is %v; the published function continues while v %% branchFactor == 0", ir.Sym(bin), f.Truth))
			}
		case isRem && rem.X == ssa.Value(vphi):
			viol = append(viol, "the divisibility test is "+ir.Sym(bin)+", not v % branchFactor == 0")
		default:
			viol = append(viol, "the loop has an additional or different condition "+ir.Sym(bin)+" (published: v != 0 && v % branchFactor == 0)")
		}
	}
	if !seenNZ && len(viol) == 0 {
		viol = append(viol, "the loop no longer tests v != 0")
	}
	if !seenRem && len(viol) == 0 {
		viol = append(viol, "the loop no longer tests v % branchFactor == 0")
	}
	return
}

// blobLayerCheck: fn(b, bf) returns U(crc64.Checksum(b', crcTable), bf) where U
// is the unsigned layer function, b' is b possibly converted to []byte —
// directly or through another function of the same kind.
func blobLayerCheck(c *Ctx, fn *ssa.Function, unsignedFn *ssa.Function, depth int) string {
	if depth > 4 || len(fn.Params) != 2 {
		return "not a two-parameter function"
	}
	rets := ir.Returns(fn)
	if len(rets) != 1 || len(rets[0].Results) != 1 {
		return "more than one return"
	}
	call, callee := fxCallee(rets[0].Results[0])
	if callee == nil || len(call.Call.Args) != 2 {
		return "does not return the result of a static call"
	}
	if fxStripNoConv(call.Call.Args[1]) != ssa.Value(fn.Params[1]) {
		return "the branch factor passed on is not the function's own parameter"
	}
	if callee == unsignedFn || isUnsignedLayerFn(callee) {
		sum, sc := fxCallee(call.Call.Args[0])
		if sc == nil || fxFullName(sc) != "hash/crc64.Checksum" {
			return "the unsigned layer function is not applied to crc64.Checksum(...)"
		}
		if fxStrip(sum.Call.Args[0]) != ssa.Value(fn.Params[0]) {
			return "crc64.Checksum is not applied to the key bytes"
		}
		if u, _, why := fxCRCPoly(c.P, sum.Call.Args[1], 0); why != "" {
			return "crc64.Checksum does not use a CRC table of known polynomial: " + why
		} else if u != frozenECMA {
			return fmt.Sprintf("crc64.Checksum uses a table of polynomial %#x, the published format uses crc64.ECMA", u)
		}
		return ""
	}
	if !fxOwnFunc(callee) {
		return "calls " + fxFullName(callee)
	}
	if fxStrip(call.Call.Args[0]) != ssa.Value(fn.Params[0]) {
		return "the key bytes passed on are not the function's own parameter"
	}
	return blobLayerCheck(c, callee, unsignedFn, depth+1)
}

// isUnsignedLayerFn: f is a func(uint64, uint) uint8 of the repository that
// passes the divisibility-loop check (directly or through a shared helper).
func isUnsignedLayerFn(f *ssa.Function) bool {
	if !fxOwnFunc(f) || f.Signature.Params().Len() != 2 || f.Signature.Results().Len() != 1 {
		return false
	}
	if fxTypeString(f.Signature.Params().At(0).Type()) != "uint64" || fxTypeString(f.Signature.Params().At(1).Type()) != "uint" || fxTypeString(f.Signature.Results().At(0).Type()) != "uint8" {
		return false
	}
	v, u := layerLoopCheck(f)
	return len(v)+len(u) == 0
}

func runFormatLayer(c *Ctx) {
	outer := c.MustFunc("DefaultLayer")
	if outer == nil {
		return
	}
	fn := fxReturnedClosure(outer)
	if fn == nil || len(fn.Params) != 2 {
		c.Undecided(outer, c.P.Pos(outer.Pos()), "returned layer function", "DefaultLayer does not return a single two-argument function literal")
		return
	}
	cases, deflt := fxSwitchChain(fn.Blocks[0], fn.Params[0])
	if len(cases) == 0 {
		c.Undecided(fn, c.P.Pos(fn.Pos()), "type switch", "the layer function does not start with a type switch over the key")
		return
	}
	signed := []string{"int", "int8", "int16", "int32", "int64"}
	unsigned := []string{"uint", "uint8", "uint16", "uint32", "uint64"}
	kind := map[string]string{"Key": "key", "[]byte": "blob", "string": "blob"}
	for _, s := range signed {
		kind[s] = "signed"
	}
	for _, s := range unsigned {
		kind[s] = "unsigned"
	}
	var want []string
	for k := range kind {
		want = append(want, k)
	}
	want = fxSorted(want)
	got := fxTypeSet(cases)
	for i, g := range got { // byte is an alias of uint8
		if g == "byte" {
			got[i] = "uint8"
		}
	}
	missing, extra := fxSetDiff(want, got)
	for _, m := range missing {
		c.Violation(fn, c.P.Pos(fn.Pos()), "case "+m, fmt.Sprintf("DefaultLayer has no case for %s any more: such keys now get the layer of their marshalled bytes' CRC instead of their %s", m, map[string]string{"signed": "divisibility", "unsigned": "divisibility", "blob": "own bytes' CRC", "key": "Layer method"}[kind[m]]))
	}
	for _, e := range extra {
		c.Violation(fn, c.P.Pos(fn.Pos()), "case "+e, fmt.Sprintf("DefaultLayer gained a case for %s: such keys got the layer of their marshalled bytes' CRC in the published format", e))
	}
	ki := keyIface(c)
	for _, cs := range cases {
		if fxShortType(cs.T) == "Key" {
			break
		}
		if ki != nil && !types.IsInterface(cs.T) && (types.Implements(cs.T, ki) || types.Implements(types.NewPointer(cs.T), ki)) {
			c.Violation(fn, c.P.InstrPos(cs.TA), "case "+fxShortType(cs.T)+" before Key", "a type implementing Key is matched before the Key case: its Layer method is bypassed")
		} else if types.IsInterface(cs.T) {
			c.Undecided(fn, c.P.InstrPos(cs.TA), "case "+fxShortType(cs.T)+" before Key", "an interface case precedes the Key case")
		}
	}
	// identify the two integer layer functions by signature among the callees
	var signedFn, unsignedFn *ssa.Function
	calleeOfCase := func(cs fxCase) (*ssa.Return, *ssa.Call, string) {
		reach := ir.ReachableFrom(cs.Body, nil)
		rets := successIn(fn, reach)
		if len(rets) != 1 {
			return nil, nil, fmt.Sprintf("%d success returns in the case body", len(rets))
		}
		call, _ := rets[0].Results[0].(*ssa.Call)
		if call == nil {
			return rets[0], nil, "the case does not return the result of a call"
		}
		return rets[0], call, ""
	}
	sigOf := func(f *ssa.Function) string {
		if f == nil {
			return ""
		}
		return fxTypeString(f.Signature)
	}
	for _, cs := range cases {
		name := fxShortType(cs.T)
		if name == "byte" {
			name = "uint8"
		}
		k, known := kind[name]
		if !known {
			continue
		}
		construct := "case " + name
		pos := c.P.InstrPos(cs.TA)
		if cs.Bound == nil {
			c.Undecided(fn, pos, construct, "case shares its body with other types")
			continue
		}
		ret, call, problem := calleeOfCase(cs)
		if problem != "" {
			c.Undecided(fn, pos, construct, problem)
			continue
		}
		rpos := c.P.InstrPos(ret)
		com := call.Common()
		switch k {
		case "key":
			if com.IsInvoke() && com.Method.Name() == "Layer" && fxStripNoConv(com.Value) == cs.Bound && len(com.Args) == 1 && com.Args[0] == ssa.Value(fn.Params[1]) {
				c.OK(rpos, construct, "returns v.Layer(branchFactor)", false)
			} else {
				c.Violation(fn, rpos, construct, "the Key case no longer returns v.Layer(branchFactor)")
			}
		case "signed", "unsigned":
			wantSig := map[string]string{"signed": "func(v int64, branchFactor uint) uint8", "unsigned": "func(v uint64, branchFactor uint) uint8"}[k]
			wantParam := map[string]string{"signed": "int64", "unsigned": "uint64"}[k]
			sc := ir.Callee(com)
			if sc == nil || len(com.Args) != 2 || sc.Signature.Params().Len() != 2 ||
				fxTypeString(sc.Signature.Params().At(0).Type()) != wantParam ||
				fxTypeString(sc.Signature.Params().At(1).Type()) != "uint" ||
				sc.Signature.Results().Len() != 1 || fxTypeString(sc.Signature.Results().At(0).Type()) != "uint8" {
				c.Violation(fn, rpos, construct, fmt.Sprintf("%s keys are no longer sent through %s to a %s; got %s %s", name, wantParam, wantSig, fxFullName(sc), sigOf(sc)))
				continue
			}
			arg := fxStripNoConv(com.Args[0])
			if cv, ok := arg.(*ssa.Convert); ok {
				arg = fxStripNoConv(cv.X)
			}
			if arg != cs.Bound || com.Args[1] != ssa.Value(fn.Params[1]) {
				c.Violation(fn, rpos, construct, fmt.Sprintf("the %s case does not pass (%s(v), branchFactor) to the layer function", name, wantParam))
				continue
			}
			if k == "signed" {
				if signedFn != nil && signedFn != sc {
					c.Violation(fn, rpos, construct, "signed cases use different layer functions")
					continue
				}
				signedFn = sc
			} else {
				if unsignedFn != nil && unsignedFn != sc {
					c.Violation(fn, rpos, construct, "unsigned cases use different layer functions")
					continue
				}
				unsignedFn = sc
			}
			c.OK(rpos, construct, "→ "+wantParam+" → "+sc.Name(), false)
		}
	}
	for _, lf := range []struct {
		f    *ssa.Function
		what string
	}{{signedFn, "signed layer function"}, {unsignedFn, "unsigned layer function"}} {
		if lf.f == nil {
			c.Undecided(fn, c.P.Pos(fn.Pos()), lf.what, "no case identifies the "+lf.what)
			continue
		}
		viol, und := layerLoopCheck(lf.f)
		pos := c.P.Pos(lf.f.Pos())
		for _, v := range viol {
			c.Violation(lf.f, pos, "layer loop", lf.what+" "+lf.f.Name()+": "+v+" — every integer key's layer changes")
		}
		if len(viol) == 0 {
			for _, u := range und {
				c.Undecided(lf.f, pos, "layer loop", lf.what+" "+lf.f.Name()+": "+u)
			}
		}
		if len(viol)+len(und) == 0 {
			c.OK(pos, lf.what+" "+lf.f.Name(), "for ; v != 0 && v % bf == 0; layer++ { v /= bf }, layer from 0, returned", false)
		}
	}
	// blob cases and fallback
	checkBlobCall := func(construct string, ret *ssa.Return, call *ssa.Call, arg0ok func(ssa.Value) bool) {
		rpos := c.P.InstrPos(ret)
		com := call.Common()
		sc := ir.Callee(com)
		if sc == nil || len(com.Args) != 2 || !arg0ok(com.Args[0]) || com.Args[1] != ssa.Value(fn.Params[1]) {
			c.Violation(fn, rpos, construct, "does not pass (key bytes, branchFactor) to the CRC layer function")
			return
		}
		if unsignedFn == nil {
			c.Undecided(fn, rpos, construct, "unsigned layer function not identified")
			return
		}
		if why := blobLayerCheck(c, sc, unsignedFn, 0); why != "" {
			c.Violation(sc, c.P.Pos(sc.Pos()), construct+" via "+sc.Name(), "the layer of such keys is no longer uintLayer(crc64.Checksum(bytes, crcTable), branchFactor): "+why)
			return
		}
		c.OK(rpos, construct, "→ "+sc.Name()+" → crc64.Checksum(b, crcTable) → "+unsignedFn.Name(), false)
	}
	for _, cs := range cases {
		name := fxShortType(cs.T)
		if kind[name] != "blob" || cs.Bound == nil {
			continue
		}
		ret, call, problem := calleeOfCase(cs)
		if problem != "" {
			c.Undecided(fn, c.P.InstrPos(cs.TA), "case "+name, problem)
			continue
		}
		bound := cs.Bound
		checkBlobCall("case "+name, ret, call, func(a ssa.Value) bool { return fxStrip(a) == bound })
	}
	{
		as := okAssume(fn, nil, nil, 1)
		// the marshaler-present path: `marshaler == nil` is false
		base := as.decide
		as.decide = func(cond ssa.Value) (bool, bool) {
			if v, tnn, ok := ir.NilTest(cond); ok {
				if _, isSig := v.Type().Underlying().(*types.Signature); isSig {
					return tnn, true
				}
			}
			return base(cond)
		}
		reach := as.reach(deflt)
		rets := successIn(fn, reach)
		pos := c.P.Pos(fn.Pos())
		if len(deflt.Instrs) > 0 {
			pos = c.P.InstrPos(deflt.Instrs[0])
		}
		if len(rets) != 1 {
			c.Undecided(fn, pos, "fallback", fmt.Sprintf("%d success returns on the fallback path (expected one)", len(rets)))
		} else if call, _ := rets[0].Results[0].(*ssa.Call); call == nil {
			c.Violation(fn, c.P.InstrPos(rets[0]), "fallback", "the fallback does not return the CRC layer of the marshalled key")
		} else {
			checkBlobCall("fallback", rets[0], call, func(a ssa.Value) bool { return marshalledSide(fn, a) == "L" })
		}
	}
	// every constructor installs DefaultLayer
	maker := outer
	n := 0
	for _, f := range c.P.Funcs {
		if f.Pkg == nil || f.Pkg.Pkg.Path() != ir.MastPath {
			continue
		}
		for _, b := range f.Blocks {
			for _, ins := range b.Instrs {
				st, ok := ins.(*ssa.Store)
				if !ok {
					continue
				}
				base, path, ok := fxFieldAddr(st.Addr)
				if !ok || path != "keyLayer" || base == nil || !(ir.IsPtrToNamed(base.Type(), "Mast")) {
					continue
				}
				n++
				_, callee := fxCallee(st.Val)
				if callee == maker {
					c.OK(c.P.InstrPos(st), "Mast.keyLayer in "+ir.FuncName(f), "DefaultLayer(...)", false)
				} else {
					c.Violation(f, c.P.InstrPos(st), "Mast.keyLayer", "keyLayer is set to something other than DefaultLayer(...): the layer of every key of trees built here may differ from the published function")
				}
			}
		}
	}
	if n == 0 {
		c.Undecided(nil, "-", "Mast.keyLayer", "no assignment of Mast.keyLayer found")
	}
	_ = strings.Join
}

// ---------------------------------------------------------------------------
// j. link trimming in (*mastNode).store

// nodeStoreFn finds, by role, the function that hands a node to the marshal
// callback it received as a parameter and calls Persist.Store in a closure:
// (*mastNode).store.
func nodeStoreFn(c *Ctx) *ssa.Function {
	if fn := c.P.MastFunc("(*mastNode).store"); fn != nil {
		return fn
	}
	c.AnchorMissing("function (*mastNode).store")
	return nil
}

func runFormatTrim(c *Ctx) {
	fn := nodeStoreFn(c)
	if fn == nil {
		return
	}
	// the call of the marshal parameter: in the store function itself or in a
	// helper (depth ≤ 2) that receives the node and the marshal function
	storeFn, storeRecv := fn, fn.Params[0]
	mf, recv, menv, mcall, problem := locateMarshalCall(storeFn, storeFn, storeRecv, nil, 0)
	if problem != "" {
		c.Undecided(fn, c.P.Pos(fn.Pos()), "marshal call", problem)
		return
	}
	if mcall == nil {
		c.AnchorMissing("call of the marshal parameter in (*mastNode).store")
		return
	}
	fn = mf
	arg := fxStripNoConv(mcall.Call.Args[0])
	ld, ok := arg.(*ssa.UnOp)
	var copyA *ssa.Alloc
	if ok && ld.Op == token.MUL {
		copyA, _ = ld.X.(*ssa.Alloc)
	}
	if copyA == nil || !ir.IsPtrToNamed(copyA.Type(), "mastNode") {
		if ok && ld.Op == token.MUL && ir.ResolveCell(ld.X) == ssa.Value(recv) {
			c.Violation(fn, c.P.InstrPos(mcall), "trimmed.Link = nil", "the node itself is marshalled, not a copy whose empty link list is dropped: every leaf serialises (and hashes) differently from the published format")
			return
		}
		c.Undecided(fn, c.P.InstrPos(mcall), "marshalled value", "the value handed to the marshal callback is not a local copy of the node: "+ir.Sym(arg))
		return
	}
	fs, whole := fxStructStores(copyA)
	if len(whole) != 1 {
		c.Undecided(fn, c.P.InstrPos(mcall), "marshalled copy", fmt.Sprintf("the marshalled copy is assigned as a whole %d times", len(whole)))
		return
	}
	if u, ok := whole[0].Val.(*ssa.UnOp); !ok || u.Op != token.MUL || ir.ResolveCell(u.X) != ssa.Value(recv) {
		c.Undecided(fn, c.P.InstrPos(whole[0]), "marshalled copy", "the marshalled copy is not initialised from *node")
		return
	}
	c.OK(c.P.InstrPos(whole[0]), "marshalled copy", "copy of *node", true)
	var nilStores []fxFieldStore
	for _, f := range fs {
		if !ir.Before(whole[0], f.St) {
			continue
		}
		if f.Field == "Link" && ir.IsNilConst(f.Val) {
			nilStores = append(nilStores, f)
			continue
		}
		c.Violation(fn, c.P.InstrPos(f.St), "trimmed."+f.Field, "the marshalled copy's "+f.Field+" is modified before marshalling; the published writer only drops an all-nil link list")
	}
	if len(nilStores) == 0 {
		c.Violation(fn, c.P.InstrPos(mcall), "trimmed.Link = nil", "the link list is never dropped from the marshalled copy: nodes without children serialise with an explicit all-nil link list and hash differently from the published format")
		return
	}
	if len(nilStores) > 1 {
		c.Undecided(fn, c.P.InstrPos(nilStores[1].St), "trimmed.Link = nil", "several stores of nil into the copy's Link")
		return
	}
	ns := nilStores[0]
	// guard: facts of the store's block that do not already hold at the marshal call
	at := map[ssa.Value]bool{}
	for _, f := range ir.FactsAt(mcall.Block()) {
		at[f.Cond] = true
	}
	var guard []ir.Fact
	for _, f := range ir.FactsAt(ns.St.Block()) {
		if !at[f.Cond] {
			guard = append(guard, f)
		}
	}
	pos := c.P.InstrPos(ns.St)
	if len(guard) == 0 {
		c.Violation(fn, pos, "trimmed.Link = nil", "the link list is dropped unconditionally: nodes with children lose their links (and every hash changes)")
		return
	}
	if len(guard) > 1 {
		c.Undecided(fn, pos, "trimmed.Link = nil", fmt.Sprintf("the nil store is guarded by %d conditions; the published writer tests only that no link is non-nil", len(guard)))
		return
	}
	g := guard[0]
	bin, ok := g.Cond.(*ssa.BinOp)
	var counter *ssa.Phi
	cfn, crecv := fn, ssa.Value(recv) // where the counter lives (a helper, if the counting loop was extracted)
	if ok && (bin.Op == token.EQL || bin.Op == token.NEQ) {
		x, y := bin.X, bin.Y
		if fxConst(x) != nil {
			x, y = y, x
		}
		if _, isParam := x.(*ssa.Parameter); isParam && menv != nil {
			// the count is handed to the helper as an argument: look at the caller's value
			x, _ = menv.resolve(x)
			x, cfn, crecv = resolveCounter(x, storeFn, storeRecv, 0)
		} else {
			x, cfn, crecv = resolveCounter(x, fn, recv, 0)
		}
		if p, isPhi := x.(*ssa.Phi); isPhi && fxIsIntConst(y, 0) {
			counter = p
			if (bin.Op == token.EQL) != g.Truth {
				c.Violation(fn, pos, "trimmed.Link = nil", "the link list is dropped when the count of non-nil links is NOT zero (inverted test)")
				return
			}
		} else if isPhi {
			c.Violation(fn, pos, "trimmed.Link = nil", "the link list is dropped under "+ir.Sym(bin)+", not when the count of non-nil links is zero")
			return
		}
	}
	if counter == nil {
		c.Undecided(fn, pos, "trimmed.Link = nil", "guard "+ir.Sym(g.Cond)+" is not a test of a link counter against zero")
		return
	}
	c.OK(pos, "trimmed.Link = nil", "guarded exactly by "+ir.Sym(g.Cond), false)
	// the counter: 0 on entry; +1 exactly on the non-nil path of each link
	linkElem := func(v ssa.Value) bool { // v is a load of node.Link[i]
		u, ok := v.(*ssa.UnOp)
		if !ok || u.Op != token.MUL {
			return false
		}
		ia, ok := u.X.(*ssa.IndexAddr)
		if !ok {
			return false
		}
		b, p, ok := fxFieldLoad(ia.X)
		return ok && p == "Link" && b == crecv
	}
	okCounter := true
	for i, e := range counter.Edges {
		pred := counter.Block().Preds[i]
		epos := c.P.Pos(cfn.Pos())
		if len(pred.Instrs) > 0 {
			epos = c.P.InstrPos(pred.Instrs[len(pred.Instrs)-1])
		}
		switch {
		case !counter.Block().Dominates(pred):
			if !fxIsIntConst(e, 0) {
				okCounter = false
				c.Violation(cfn, epos, "linkCount start", "the link counter starts at "+ir.Sym(e)+", not 0")
			}
		case e == ssa.Value(counter):
			// unincremented back edge: only on the nil side
			if !edgeHasNil(pred, counter.Block(), linkElem, true) {
				okCounter = false
				c.Violation(cfn, epos, "linkCount++", "a loop iteration leaves the link counter unchanged although the link is not known to be nil")
			}
		default:
			inc, ok := e.(*ssa.BinOp)
			if !ok || inc.Op != token.ADD || !((inc.X == ssa.Value(counter) && fxIsIntConst(inc.Y, 1)) || (inc.Y == ssa.Value(counter) && fxIsIntConst(inc.X, 1))) {
				okCounter = false
				c.Undecided(cfn, epos, "linkCount++", "counter update "+ir.Sym(e)+" not recognised")
				continue
			}
			if !blockHasNil(inc.Block(), linkElem, false) {
				okCounter = false
				c.Violation(cfn, c.P.InstrPos(inc), "linkCount++", "the link counter is incremented for a link that is not known to be non-nil (nil links are counted: the link list is kept where the published writer drops it)")
			}
		}
	}
	if okCounter {
		c.OK(c.P.InstrPos(counter), "linkCount", "starts at 0, +1 exactly for non-nil node.Link[i]", false)
	}
}

// resolveCounter follows a counter that is result #k of a static in-repo
// helper called with the node (depth ≤ 2) to the value the helper returns,
// with the helper's parameter standing for the node.
func resolveCounter(x ssa.Value, fn *ssa.Function, recv ssa.Value, depth int) (ssa.Value, *ssa.Function, ssa.Value) {
	call, idx := fxCallOf(x)
	if call == nil || depth >= 2 {
		return x, fn, recv
	}
	callee := ir.Callee(call.Call)
	if callee == nil || !fxOwnFunc(callee) {
		return x, fn, recv
	}
	var nodeParam ssa.Value
	for i, a := range call.Call.Args {
		if ir.ResolveCell(a) == recv && i < len(callee.Params) {
			nodeParam = callee.Params[i]
		}
	}
	if nodeParam == nil {
		return x, fn, recv
	}
	var val ssa.Value
	for _, r := range fxSuccessReturns(callee) {
		if idx >= len(r.Results) {
			return x, fn, recv
		}
		if val != nil && val != r.Results[idx] {
			return x, fn, recv
		}
		val = r.Results[idx]
	}
	if val == nil {
		return x, fn, recv
	}
	return resolveCounter(val, callee, nodeParam, depth+1)
}

// isFuncParamOrField: v is a function-typed parameter, or a function-typed
// field of a struct the function received through a parameter (read directly
// or through a local).
func isFuncParamOrField(v ssa.Value) bool {
	v = ir.ResolveCell(v)
	if _, isSig := v.Type().Underlying().(*types.Signature); !isSig {
		return false
	}
	if _, ok := v.(*ssa.Parameter); ok {
		return true
	}
	b, _, ok := fxFieldLoad(v)
	if !ok || b == nil {
		return false
	}
	if al, isAlloc := b.(*ssa.Alloc); isAlloc {
		// a struct received by value: go/ssa spills the parameter into a local
		// (`t = local T (opts); *t = opts`) and reads its fields through &t.f
		return fxParamSpill(al) != nil
	}
	_, isParam := ir.ResolveCell(b).(*ssa.Parameter)
	return isParam
}

// fxParamSpill: a is the local copy of a by-value struct parameter — stored
// exactly once, as a whole, from the parameter, before every other use, and
// otherwise only read (whole or field by field). It returns the parameter.
func fxParamSpill(a *ssa.Alloc) *ssa.Parameter {
	if a.Referrers() == nil {
		return nil
	}
	var st *ssa.Store
	var uses []ssa.Instruction
	for _, r := range *a.Referrers() {
		switch x := r.(type) {
		case *ssa.Store:
			if x.Addr != ssa.Value(a) || st != nil {
				return nil
			}
			st = x
		case *ssa.FieldAddr:
			uses = append(uses, x)
			if x.Referrers() == nil {
				continue
			}
			for _, r2 := range *x.Referrers() {
				switch y := r2.(type) {
				case *ssa.UnOp:
					if y.Op != token.MUL {
						return nil
					}
				case *ssa.DebugRef:
				default:
					return nil
				}
			}
		case *ssa.UnOp:
			if x.Op != token.MUL {
				return nil
			}
			uses = append(uses, x)
		case *ssa.DebugRef:
		default:
			return nil
		}
	}
	if st == nil {
		return nil
	}
	p, ok := st.Val.(*ssa.Parameter)
	if !ok {
		return nil
	}
	for _, u := range uses {
		if !ir.Before(st, u) {
			return nil
		}
	}
	return p
}

func structHasFuncField(t types.Type) bool {
	if p, ok := t.Underlying().(*types.Pointer); ok {
		t = p.Elem()
	}
	st, ok := t.Underlying().(*types.Struct)
	if !ok {
		return false
	}
	for i := 0; i < st.NumFields(); i++ {
		if _, isSig := st.Field(i).Type().Underlying().(*types.Signature); isSig {
			return true
		}
	}
	return false
}

// locateMarshalCall finds the call of the marshal function parameter with the
// node as its only argument: in fn, or in a static in-repo helper (depth ≤ 2,
// not the store function itself) that receives both the node and a function
// parameter. It returns the function holding the call, the parameter standing
// for the node there, and the binding of the helper's parameters.
func locateMarshalCall(root, fn *ssa.Function, recv *ssa.Parameter, env *fxEnv, depth int) (*ssa.Function, *ssa.Parameter, *fxEnv, *ssa.Call, string) {
	var mcall *ssa.Call
	for _, ci := range CallsOf(fn) {
		call, ok := ci.(*ssa.Call)
		if !ok || ci.Common().IsInvoke() || ir.Callee(ci.Common()) != nil {
			continue
		}
		if len(ci.Common().Args) == 1 && isFuncParamOrField(ci.Common().Value) {
			if mcall != nil {
				return nil, nil, nil, nil, "the marshal callback is called more than once"
			}
			mcall = call
		}
	}
	if mcall != nil {
		return fn, recv, env, mcall, ""
	}
	if depth >= 2 {
		return nil, nil, nil, nil, ""
	}
	var found []func() (*ssa.Function, *ssa.Parameter, *fxEnv, *ssa.Call, string)
	for _, ci := range CallsOf(fn) {
		call, ok := ci.(*ssa.Call)
		if !ok {
			continue
		}
		callee := ir.Callee(call.Call)
		if callee == nil || !fxOwnFunc(callee) || callee == root || callee == fn {
			continue
		}
		var nodeP *ssa.Parameter
		hasFunc := false
		sub := &fxEnv{bind: map[*ssa.Parameter]ssa.Value{}, up: env}
		for i, a := range call.Call.Args {
			if i >= len(callee.Params) {
				break
			}
			sub.bind[callee.Params[i]] = a
			if ir.ResolveCell(a) == ssa.Value(recv) {
				nodeP = callee.Params[i]
			}
			if p, ok := ir.ResolveCell(a).(*ssa.Parameter); ok {
				if _, isSig := p.Type().Underlying().(*types.Signature); isSig || structHasFuncField(p.Type()) {
					hasFunc = true
				}
			}
			if isFuncParamOrField(a) {
				hasFunc = true
			}
		}
		if nodeP == nil || !hasFunc {
			continue
		}
		f2, r2, e2, m2, p2 := locateMarshalCall(root, callee, nodeP, sub, depth+1)
		if p2 != "" {
			return nil, nil, nil, nil, p2
		}
		if m2 != nil {
			found = append(found, func() (*ssa.Function, *ssa.Parameter, *fxEnv, *ssa.Call, string) { return f2, r2, e2, m2, "" })
		}
	}
	switch len(found) {
	case 0:
		return nil, nil, nil, nil, ""
	case 1:
		return found[0]()
	}
	return nil, nil, nil, nil, "the marshal callback is called in several helpers"
}

// blockHasNil: on entry to b a dominating branch established that a value
// satisfying isElem is nil (wantNil) / non-nil.
func blockHasNil(b *ssa.BasicBlock, isElem func(ssa.Value) bool, wantNil bool) bool {
	for _, f := range ir.FactsAt(b) {
		if v, tnn, ok := fxNilTest(f.Cond); ok && isElem(v) {
			if (f.Truth == tnn) != wantNil {
				return true
			}
		}
	}
	return false
}

func edgeHasNil(from, to *ssa.BasicBlock, isElem func(ssa.Value) bool, wantNil bool) bool {
	if blockHasNil(from, isElem, wantNil) {
		return true
	}
	if len(from.Instrs) == 0 {
		return false
	}
	iff, ok := from.Instrs[len(from.Instrs)-1].(*ssa.If)
	if !ok || from.Succs[0] == from.Succs[1] {
		return false
	}
	v, tnn, ok := fxNilTest(iff.Cond)
	if !ok || !isElem(v) {
		return false
	}
	truth := from.Succs[0] == to
	return (truth == tnn) != wantNil
}

// ---------------------------------------------------------------------------
// k. versionedMarshaler

// flushMarshalClosure finds the closure flush passes as the marshal argument
// to (*mastNode).store.
func flushMarshalClosure(c *Ctx) (*ssa.Function, *ssa.Function) {
	flush := c.MustFunc("(*Mast).flush")
	store := nodeStoreFn(c)
	if flush == nil || store == nil {
		return nil, nil
	}
	for _, ci := range CallsOf(flush) {
		if ir.Callee(ci.Common()) != store {
			continue
		}
		for _, a := range ci.Common().Args {
			if _, isSig := a.Type().Underlying().(*types.Signature); !isSig {
				continue
			}
			if f := fxRealFunc(ir.ResolveCell(a)); f != nil && fxIfaceParam(f) != nil {
				return f, flush
			}
		}
		// the arguments bundled in a struct built here: the function stored
		// into one of its fields
		for _, a := range ci.Common().Args {
			al, ok := ir.ResolveCell(a).(*ssa.Alloc)
			if !ok {
				// the struct handed over by value (store(ctx, storeOptions{marshal: …})):
				// the argument is a load of the local struct
				if f := fxByValueStructFunc(ir.ResolveCell(a)); f != nil {
					return f, flush
				}
				continue
			}
			fs, _ := fxStructStores(al)
			for _, s := range fs {
				if _, isSig := s.Val.Type().Underlying().(*types.Signature); !isSig {
					continue
				}
				if f := fxRealFunc(ir.ResolveCell(s.Val)); f != nil && fxIfaceParam(f) != nil {
					return f, flush
				}
			}
		}
	}
	c.AnchorMissing("the marshal closure flush passes to (*mastNode).store")
	return nil, flush
}

// fxByValueStructFunc: v is a load `*s` of a local struct s (an options struct
// handed over by value), or the result of a static in-repo constructor helper
// whose only return is such a load. It returns the marshal function (one
// interface{} parameter) stored into a function-typed field of s — a value of
// the helper's parameter standing for the caller's argument — provided that
// field is stored exactly once, before the load, s is never assigned as a whole
// from something else, and no other function-typed field holds such a function
// (nil otherwise: the caller fails closed).
func fxByValueStructFunc(v ssa.Value) *ssa.Function {
	bind := func(x ssa.Value) ssa.Value { return x }
	if call, isCall := v.(*ssa.Call); isCall {
		callee := ir.Callee(call.Call)
		if callee == nil || !fxOwnFunc(callee) || call.Call.IsInvoke() {
			return nil
		}
		rets := ir.Returns(callee)
		if len(rets) != 1 || len(rets[0].Results) != 1 {
			return nil
		}
		v = rets[0].Results[0]
		bind = func(x ssa.Value) ssa.Value {
			if par, isPar := x.(*ssa.Parameter); isPar {
				for i, q := range callee.Params {
					if q == par && i < len(call.Call.Args) {
						return ir.ResolveCell(call.Call.Args[i])
					}
				}
			}
			return x
		}
	}
	ld, ok := v.(*ssa.UnOp)
	if !ok || ld.Op != token.MUL {
		return nil
	}
	al, ok := ld.X.(*ssa.Alloc)
	if !ok {
		return nil
	}
	if _, isStruct := al.Type().Underlying().(*types.Pointer).Elem().Underlying().(*types.Struct); !isStruct {
		return nil
	}
	fs, whole := fxStructStores(al)
	if len(whole) != 0 {
		return nil
	}
	perField := map[string][]fxFieldStore{}
	for _, s := range fs {
		if _, isSig := s.Val.Type().Underlying().(*types.Signature); isSig {
			perField[s.Field] = append(perField[s.Field], s)
		}
	}
	var out *ssa.Function
	for _, ss := range perField {
		var cand *ssa.Function
		for _, s := range ss {
			if f := fxRealFunc(bind(ir.ResolveCell(s.Val))); f != nil && fxIfaceParam(f) != nil {
				cand = f
			}
		}
		if cand == nil {
			continue
		}
		if len(ss) != 1 || ss[0].St.Parent() != ld.Parent() || !ir.Before(ss[0].St, ld) || out != nil {
			return nil
		}
		out = cand
	}
	return out
}

// fxRealFunc resolves a function value — a closure, a plain function, or a
// method value (go/ssa: a closure over the synthetic `$bound` wrapper, whose
// body just calls the method) — to the source function that runs.
func fxRealFunc(v ssa.Value) *ssa.Function {
	var f *ssa.Function
	switch x := v.(type) {
	case *ssa.MakeClosure:
		f, _ = x.Fn.(*ssa.Function)
	case *ssa.Function:
		f = x
	}
	for i := 0; i < 3 && f != nil && f.Synthetic != ""; i++ {
		var next *ssa.Function
		n := 0
		for _, b := range f.Blocks {
			for _, ins := range b.Instrs {
				if ci, ok := ins.(ssa.CallInstruction); ok {
					n++
					next = ir.Callee(ci.Common())
				}
			}
		}
		if n != 1 {
			return nil
		}
		f = next
	}
	if f == nil || f.Blocks == nil {
		return nil
	}
	return f
}

// fxIfaceParam is the (single) interface{}-typed parameter of fn: the value
// handed to a marshal function.
func fxIfaceParam(fn *ssa.Function) *ssa.Parameter {
	var out *ssa.Parameter
	for _, p := range fn.Params {
		if it, ok := p.Type().Underlying().(*types.Interface); ok && it.NumMethods() == 0 {
			if out != nil {
				return nil
			}
			out = p
		}
	}
	return out
}

// nodeFormatAssume assumes the value of the Mast.nodeFormat field read in fn.
func nodeFormatAssume(c *Ctx, fn *ssa.Function, format string, extra func(cond ssa.Value) (bool, bool)) *fxAssume {
	isNF := func(v ssa.Value) bool {
		b, p, ok := fxFieldLoad(fxStrip(v))
		return ok && p == "nodeFormat" && b != nil && ir.IsPtrToNamed(b.Type(), "Mast")
	}
	resolve := func(v ssa.Value) constant.Value {
		if isNF(v) {
			return nil
		}
		if s, ok := fxStringOf(c.P, v); ok {
			return constant.MakeString(s)
		}
		return nil
	}
	return &fxAssume{
		decide: func(cond ssa.Value) (bool, bool) {
			if extra != nil {
				if t, k := extra(cond); k {
					return t, true
				}
			}
			if bin, ok := cond.(*ssa.BinOp); ok && (bin.Op == token.EQL || bin.Op == token.NEQ) {
				return fxCmpConst(bin, isNF, resolve, constant.MakeString(format))
			}
			return false, false
		},
		relevant: func(cond ssa.Value) bool { return strings.Contains(ir.Sym(cond), ".nodeFormat") },
	}
}

func assertOK(typeName string) func(cond ssa.Value) (bool, bool) {
	return func(cond ssa.Value) (bool, bool) {
		if e, ok := cond.(*ssa.Extract); ok && e.Index == 1 {
			if ta, ok := e.Tuple.(*ssa.TypeAssert); ok && ir.IsNamed(ta.AssertedType, typeName) {
				return true, true
			}
		}
		return false, false
	}
}

// fromAssertedNode: v is (a field of / the address of a local holding) the
// mastNode obtained by asserting fn's parameter.
func fromAssertedNode(fn *ssa.Function, v ssa.Value) bool {
	v = fxStripNoConv(v)
	for i := 0; i < 6; i++ {
		switch x := v.(type) {
		case *ssa.Extract:
			if ta, ok := x.Tuple.(*ssa.TypeAssert); ok && x.Index == 0 {
				return fxStripNoConv(ta.X) == ssa.Value(fxIfaceParam(fn)) && ir.IsNamed(ta.AssertedType, "mastNode")
			}
			return false
		case *ssa.TypeAssert:
			return fxStripNoConv(x.X) == ssa.Value(fxIfaceParam(fn)) && ir.IsNamed(x.AssertedType, "mastNode")
		case *ssa.UnOp:
			if x.Op != token.MUL {
				return false
			}
			v = x.X
		case *ssa.Alloc:
			var st *ssa.Store
			for _, r := range *x.Referrers() {
				if s, ok := r.(*ssa.Store); ok && s.Addr == x {
					if st != nil {
						return false
					}
					st = s
				}
			}
			if st == nil {
				return false
			}
			v = fxStripNoConv(st.Val)
		default:
			return false
		}
	}
	return false
}

func isMastCallback(ci *ssa.Call, field string) bool {
	com := ci.Common()
	if com.IsInvoke() || ir.Callee(com) != nil {
		return false
	}
	b, p, ok := fxFieldLoad(com.Value)
	return ok && p == field && b != nil && ir.IsPtrToNamed(b.Type(), "Mast")
}

func runFormatV1Input(c *Ctx) {
	fn, _ := flushMarshalClosure(c)
	if fn == nil {
		return
	}
	// the closure may look the format up in a table of {format, marshal,
	// unmarshal} entries and call the entry's marshal function: judge that
	// function for each format
	fnV1, fnBin := fn, fn
	if g1, g2, ok := tableMarshalFns(c, fn); ok {
		fnV1, fnBin = g1, g2
	}
	// v1marshaler
	{
		fn := fnV1
		construct := "v1marshaler input"
		as := nodeFormatAssume(c, fn, frozenV1, assertOK("mastNode"))
		reach := as.reach(fn.Blocks[0])
		if open := as.open(reach); len(open) > 0 {
			c.Undecided(fn, fxValPos(c.P, open[0], fn), construct, "format dispatch not decided: "+ir.Sym(open[0]))
		} else {
			n := 0
			for _, r := range ir.Returns(fn) {
				if !reach[r.Block()] {
					continue
				}
				call, idx := fxCallOf(r.Results[0])
				if call == nil || idx != 0 || !isMastCallback(call, "marshal") {
					if ir.IsNilConst(r.Results[0]) {
						continue // an error return
					}
					c.Violation(fn, c.P.InstrPos(r), construct, "under v1marshaler the node bytes are not the user marshaler's output")
					continue
				}
				n++
				arg := call.Call.Args[0]
				mi, _ := arg.(*ssa.MakeInterface)
				if mi == nil || !ir.IsNamed(mi.X.Type(), "Node") {
					t := "?"
					if mi != nil {
						t = fxShortType(mi.X.Type())
					}
					c.Violation(fn, c.P.InstrPos(call), construct, fmt.Sprintf("under v1marshaler the user marshaler receives a %s, the published format marshals the embedded Node (Key, Value, Link only): private fields leak into the bytes and every hash changes", t))
					continue
				}
				// it is the Node of the asserted mastNode
				src := fxStripNoConv(mi.X)
				okSrc := false
				switch x := src.(type) {
				case *ssa.Field:
					okSrc = fromAssertedNode(fn, x.X)
				case *ssa.UnOp:
					if fa, ok := x.X.(*ssa.FieldAddr); ok && x.Op == token.MUL {
						okSrc = fromAssertedNode(fn, fa.X)
					}
				}
				if okSrc {
					c.OK(c.P.InstrPos(call), construct, "m.marshal(x.Node), x the node handed in", false)
				} else {
					c.Undecided(fn, c.P.InstrPos(call), construct, "the Node handed to the user marshaler is not traced to the closure's argument: "+ir.Sym(src))
				}
			}
			if n == 0 {
				c.Violation(fn, c.P.Pos(fn.Pos()), construct, "under v1marshaler no path hands the node to the user marshaler")
			}
		}
	}
	// v1.1.5binary
	{
		fn := fnBin
		construct := "v1.1.5binary encoder"
		enc := c.MustFunc("marshalMastNode")
		as := nodeFormatAssume(c, fn, frozenV115, assertOK("mastNode"))
		reach := as.reach(fn.Blocks[0])
		if open := as.open(reach); len(open) > 0 {
			c.Undecided(fn, fxValPos(c.P, open[0], fn), construct, "format dispatch not decided: "+ir.Sym(open[0]))
			return
		}
		n := 0
		for _, r := range ir.Returns(fn) {
			if !reach[r.Block()] || ir.IsNilConst(r.Results[0]) {
				continue
			}
			call, idx := fxCallOf(r.Results[0])
			if call == nil || idx != 0 || enc == nil || ir.Callee(call.Call) != enc {
				c.Violation(fn, c.P.InstrPos(r), construct, "under v1.1.5binary the node bytes are not the result of marshalMastNode")
				continue
			}
			n++
			okNode := fromAssertedNode(fn, call.Call.Args[0])
			okM := false
			if b, p, ok := fxFieldLoad(call.Call.Args[1]); ok && p == "marshal" && ir.IsPtrToNamed(b.Type(), "Mast") {
				okM = true
			}
			if okNode && okM {
				c.OK(c.P.InstrPos(call), construct, "marshalMastNode(&node, m.marshal)", false)
			} else {
				c.Violation(fn, c.P.InstrPos(call), construct, "marshalMastNode is not applied to (the node handed in, m.marshal)")
			}
		}
		if n == 0 {
			c.Violation(fn, c.P.Pos(fn.Pos()), construct, "under v1.1.5binary no path calls marshalMastNode")
		}
	}
}

func init() {
	Register(&Rule{ID: "EMITGRAMMAR", Props: []string{"C14"}, Min: 1,
		Doc: "abstract interpretation of the appends to the output buffer of marshalMastNode (helpers inlined) yields the emission grammar " +
			"U(len Key)(U(len k) k)* U(len Value)(U(len v) v)* U(len Link)(U(len l) l)* with U = binary.PutUvarint, compared token by token with the published grammar; an unrecognised shape is undecided.",
		Run: runEmitGrammar})
}

// binaryEncoderTerm evaluates marshalMastNode's emission term (shared with CODECSYM).
func binaryEncoderTerm(c *Ctx) (*ssa.Function, []emTerm, error) {
	fn := c.MustFunc("marshalMastNode")
	if fn == nil {
		return nil, nil, emFail("anchor missing")
	}
	names := map[*ssa.Parameter]string{}
	nNode, nFunc := 0, 0
	for _, p := range fn.Params {
		if _, ok := p.Type().Underlying().(*types.Signature); ok {
			names[p] = "M"
			nFunc++
		} else {
			names[p] = "N"
			nNode++
		}
	}
	if nNode != 1 || nFunc != 1 {
		return fn, nil, emFail("marshalMastNode no longer takes (node, element marshaler)")
	}
	env := emRoot(fn, names)
	ts, err := env.emReturn()
	return fn, ts, err
}

func frozenGrammar() []string {
	var want []string
	for _, f := range []struct{ field, elem string }{{"Key", "M(N.Key[])"}, {"Value", "M(N.Value[])"}, {"Link", "str(N.Link[])"}} {
		want = append(want,
			"U(len(N."+f.field+"))",
			"{over N."+f.field+":",
			"U(len("+f.elem+"))",
			"B("+f.elem+")",
			"}")
	}
	return want
}

func runEmitGrammar(c *Ctx) {
	fn, ts, err := binaryEncoderTerm(c)
	if fn == nil {
		return
	}
	if err != nil {
		c.Undecided(fn, c.P.Pos(fn.Pos()), "emission shape", "the encoder's emission cannot be evaluated: "+err.Error())
		return
	}
	got, at := emFlat(ts)
	want := frozenGrammar()
	posOf := func(i int) (string, *ssa.Function) {
		if i < len(at) && at[i].Pos != nil {
			return c.P.InstrPos(at[i].Pos), at[i].Fn
		}
		return c.P.Pos(fn.Pos()), fn
	}
	explain := func(w, g string) string {
		switch {
		case strings.HasPrefix(w, "U(") && strings.HasPrefix(g, "V("):
			return "a length is written with binary.PutVarint (signed, zig-zag) instead of binary.PutUvarint"
		case strings.HasPrefix(w, "U(") && strings.HasPrefix(g, "RAW["):
			return "a length is written as a fixed-width field instead of a uvarint"
		case strings.HasPrefix(w, "U(") && strings.HasPrefix(g, "B("):
			return "a length prefix is missing: the bytes follow without their uvarint length"
		case strings.HasPrefix(w, "U(") && strings.HasPrefix(g, "U("):
			return "a length prefix carries a different quantity"
		}
		return "the sequence of emitted fields differs"
	}
	n := len(want)
	if len(got) > n {
		n = len(got)
	}
	mismatch := false
	for i := 0; i < n; i++ {
		w, g := "<end>", "<end>"
		if i < len(want) {
			w = want[i]
		}
		if i < len(got) {
			g = got[i]
		}
		if w == g {
			pos, _ := posOf(i)
			if w != "}" {
				c.OK(pos, "emission "+w, "position "+fmt.Sprint(i), false)
			}
			continue
		}
		pos, in := posOf(i)
		if in == nil {
			in = fn
		}
		c.Violation(in, pos, "emission "+w, fmt.Sprintf("binary node encoding differs from the published grammar at token %d: expected %s, the code emits %s — %s. Full emission: %s", i, w, g, explain(w, g), emString(ts)))
		mismatch = true
		break
	}
	if mismatch {
		return
	}
	// VARINTBUF: binary.PutUvarint panics when the scratch array is too small
	// for the value. Lengths are non-negative ints of data held in memory
	// (< 2^56), so the published 8-byte scratch suffices; anything smaller makes
	// large nodes/values unencodable.
	seen := map[ssa.Instruction]bool{}
	for _, t := range at {
		if (t.Kind != "U" && t.Kind != "V") || t.Pos == nil || seen[t.Pos] {
			continue
		}
		seen[t.Pos] = true
		if t.Scratch >= frozenVarintScratch {
			c.OK(c.P.InstrPos(t.Pos), "varint scratch in "+t.Fn.Name(), fmt.Sprintf("%d bytes (≥ %d)", t.Scratch, frozenVarintScratch), false)
		} else {
			c.Violation(t.Fn, c.P.InstrPos(t.Pos), "varint scratch", fmt.Sprintf("binary.PutUvarint writes into a %d-byte array; the published encoder uses %d bytes (lengths < 2^56). A length ≥ 2^%d makes PutUvarint panic: such nodes can no longer be persisted", t.Scratch, frozenVarintScratch, 7*t.Scratch))
		}
	}
}

const frozenVarintScratch = 8

// tableMarshalFns: fn returns entry.F(…) where entry is the result of a
// table-lookup function; returns the functions the table's entries for the
// two published formats hold in field F.
func tableMarshalFns(c *Ctx, fn *ssa.Function) (v1, bin *ssa.Function, ok bool) {
	for _, r := range ir.Returns(fn) {
		if len(r.Results) == 0 {
			continue
		}
		call, _ := fxCallOf(r.Results[0])
		if call == nil || call.Call.IsInvoke() || ir.Callee(call.Call) != nil {
			continue
		}
		// the callee value: field F of a lookup's result
		var field string
		var src ssa.Value
		switch x := ir.ResolveCell(call.Call.Value).(type) {
		case *ssa.Field:
			field, src = fxFieldNameOf(x.X.Type(), x.Field), x.X
		case *ssa.UnOp:
			if fa, isFA := x.X.(*ssa.FieldAddr); isFA && x.Op == token.MUL {
				field, src = fxFieldNameOf(fa.X.Type(), fa.Field), fa.X
				if al, isAl := src.(*ssa.Alloc); isAl && al.Referrers() != nil {
					for _, rf := range *al.Referrers() {
						if s, isS := rf.(*ssa.Store); isS && s.Addr == ssa.Value(al) {
							src = s.Val
						}
					}
				}
			}
		}
		if src == nil {
			continue
		}
		lk, idx := fxCallOf(ir.ResolveCell(src))
		if lk == nil || idx != 0 {
			continue
		}
		L := ir.Callee(lk.Call)
		if L == nil || !fxOwnFunc(L) {
			continue
		}
		for _, b := range L.Blocks {
			if len(b.Instrs) == 0 {
				continue
			}
			iff, isIf := b.Instrs[len(b.Instrs)-1].(*ssa.If)
			if !isIf {
				continue
			}
			bin2, isBin := iff.Cond.(*ssa.BinOp)
			if !isBin {
				continue
			}
			for _, side := range []ssa.Value{bin2.X, bin2.Y} {
				t, ff := tableFieldOf(side)
				if t == nil {
					continue
				}
				entries, okT := parseCodecTable(t)
				if !okT {
					continue
				}
				for _, e := range entries {
					name, okN := fxStringOf(c.P, e[ff])
					g := fxRealFunc(ir.ResolveCell(e[field]))
					if !okN || g == nil {
						continue
					}
					switch name {
					case frozenV1:
						v1 = g
					case frozenV115:
						bin = g
					}
				}
				if v1 != nil && bin != nil {
					return v1, bin, true
				}
			}
		}
	}
	return nil, nil, false
}

// fxNilTest is ir.NilTest extended by the classification idiom: a private
// helper H(x) that maps the nil value to one constant and everything else to
// other constants; `H(x)#0 == K_nil` is then a nil test of x.
func fxNilTest(cond ssa.Value) (v ssa.Value, trueMeansNonNil bool, ok bool) {
	if v, t, ok := ir.NilTest(cond); ok {
		return v, t, true
	}
	neg := false
	for {
		u, isU := cond.(*ssa.UnOp)
		if !isU || u.Op != token.NOT {
			break
		}
		neg = !neg
		cond = u.X
	}
	bin, isB := cond.(*ssa.BinOp)
	if !isB || (bin.Op != token.EQL && bin.Op != token.NEQ) {
		return nil, false, false
	}
	for _, pr := range [][2]ssa.Value{{bin.X, bin.Y}, {bin.Y, bin.X}} {
		k := fxConst(pr[1])
		call, idx := fxCallOf(pr[0])
		if k == nil || call == nil || idx != 0 || len(call.Call.Args) != 1 {
			continue
		}
		h := ir.Callee(call.Call)
		if h == nil || !fxOwnFunc(h) {
			continue
		}
		kn, okN := nilClassOf(h)
		if !okN || kn.Kind() != k.Kind() || !constant.Compare(kn, token.EQL, k) {
			continue
		}
		t := bin.Op == token.NEQ
		if neg {
			t = !t
		}
		return call.Call.Args[0], t, true
	}
	return nil, false, false
}

// nilClassOf: h(x) returns, as result #0, constant K exactly when x is nil:
// on the path where x == nil every return yields K, and no other return does.
func nilClassOf(h *ssa.Function) (constant.Value, bool) {
	if len(h.Params) != 1 {
		return nil, false
	}
	p := h.Params[0]
	isP := func(v ssa.Value) bool { return fxStripNoConv(v) == ssa.Value(p) }
	mk := func(isNil bool) *fxAssume {
		return &fxAssume{decide: func(cond ssa.Value) (bool, bool) {
			if v, tnn, ok := ir.NilTest(cond); ok && isP(v) {
				return tnn != isNil, true
			}
			// a type assertion of a nil interface fails
			if e, ok := cond.(*ssa.Extract); ok && e.Index == 1 && isNil {
				if ta, ok := e.Tuple.(*ssa.TypeAssert); ok && isP(ta.X) {
					return false, true
				}
			}
			return false, false
		}}
	}
	var kn constant.Value
	asNil := mk(true)
	reach := asNil.reach(h.Blocks[0])
	for _, r := range ir.Returns(h) {
		if !reach[r.Block()] || len(r.Results) == 0 {
			continue
		}
		for _, l := range asNil.leaves(r.Results[0], reach) {
			k := fxConst(l)
			if k == nil || (kn != nil && !constant.Compare(kn, token.EQL, k)) {
				return nil, false
			}
			kn = k
		}
	}
	if kn == nil {
		return nil, false
	}
	asNon := mk(false)
	reach = asNon.reach(h.Blocks[0])
	for _, r := range ir.Returns(h) {
		if !reach[r.Block()] || len(r.Results) == 0 {
			continue
		}
		for _, l := range asNon.leaves(r.Results[0], reach) {
			k := fxConst(l)
			if k == nil || (k.Kind() == kn.Kind() && constant.Compare(kn, token.EQL, k)) {
				return nil, false
			}
		}
	}
	return kn, true
}
