package rules

import (
	"fmt"
	"go/token"
	"sort"
	"strings"

	"golang.org/x/tools/go/ssa"

	"mastcheck/ir"
)

// NILROOT and LINKNIL: typestate of links. `(*Mast).load(nil)` is an error
// ("unknown link type <nil>"), so every load must be given a link that was
// tested non-nil — the *same* link, not a neighbour.

func init() {
	Register(&Rule{
		ID:    "NILROOT",
		Props: []string{"C01", "C06"},
		Min:   8,
		Doc: "Mast.root is a three-state value {nil, name, node}: every use of X.root as the argument of load (or as the " +
			"first item of a diff stack) is dominated by a non-nil test of the same path, follows a store of a provably non-nil " +
			"value, or becomes a requires-root summary every caller must discharge; exported operations for which the empty " +
			"tree is a valid input may not carry it (an emptied tree has root == nil).",
		Run: runNILROOT,
	})
	Register(&Rule{
		ID:    "LINKNIL",
		Props: []string{"C10", "C01"},
		Min:   12,
		Doc: "for every load of a link slot, popped link or link parameter, the dominating nil test is on the same slot " +
			"(same base path, same index expression) with no intervening store to it; link parameters become a requirement on callers.",
		Run: runLINKNIL,
	})
}

// emptyTreeValid lists the exported operations that must succeed on an empty
// (never populated or emptied) tree. Delete is deliberately absent: on an
// empty tree it must fail anyway, and load(nil)'s error is one way to fail.
var emptyTreeValid = map[string]bool{
	"(*Mast).Get": true, "(*Mast).Iter": true, "(*Mast).SeekIter": true, "(*Mast).Insert": true,
	"(*Mast).Clone": true, "(*Mast).Cursor": true, "(*Mast).MakeRoot": true, "(*Mast).DiffIter": true,
	"(*Mast).DiffLinks": true, "(*Mast).StartDiff": true, "(*Mast).Size": true, "(*Mast).Height": true,
	"(*Mast).IsDirty": true, "(*DiffCursor).NextEntry": true, "(*Root).LoadMast": true,
}

// linkGuardExceptions: one named call edge or function each, with a reason.
var linkGuardExceptions = map[string]string{
	"NILROOT|(*Mast).Insert→(*Mast).grow": "grow runs only after canGrow returned true for a key of the node savePathForRoot has just installed as root, so the root is a non-empty node",
	"NILROOT|(*Mast).Delete":              "on an empty tree Delete must fail anyway; load(nil)'s error is an acceptable way to fail",
	"LINKNIL|(*Mast).alreadyNotified":     "the loop follows Link[0] of single-link pass-through nodes, which is non-nil because entry-less nodes are never linked (C09/NOEMPTY); on a load error the function answers 'not notified' and the caller re-loads the same link and propagates the error",
}

type loadSite struct {
	call   *ssa.Call
	arg    ssa.Value
	isRoot bool
	rootOf ssa.Value // X in X.root
}

func isMastPtr(v ssa.Value) bool { return ir.IsPtrToNamed(v.Type(), "Mast") }

// rootLoad: is v a load of X.root for some *Mast X?
func rootLoad(v ssa.Value) (ssa.Value, bool) {
	v = ir.ResolveCell(v)
	u, ok := v.(*ssa.UnOp)
	if !ok || u.Op != token.MUL {
		return nil, false
	}
	fa, ok := u.X.(*ssa.FieldAddr)
	if !ok || !isMastPtr(fa.X) || ir.FieldName(fa.X.Type(), fa.Field) != "root" {
		return nil, false
	}
	return fa.X, true
}

func loadSites(c *Ctx) []loadSite {
	load := c.MustFunc("(*Mast).load")
	if load == nil {
		return nil
	}
	var out []loadSite
	for _, ci := range c.P.Callers[load] {
		call, ok := ci.(*ssa.Call)
		if !ok {
			continue
		}
		args := call.Call.Args
		arg := args[len(args)-1]
		ls := loadSite{call: call, arg: arg}
		if x, ok := rootLoad(arg); ok {
			ls.isRoot = true
			ls.rootOf = x
		}
		out = append(out, ls)
	}
	sort.Slice(out, func(i, j int) bool { return ir.PosLess(out[i].call.Pos(), out[j].call.Pos()) })
	return out
}

// storedNonNilBefore: a store to the same path of a value that is a non-nil
// interface (MakeInterface, or phi of those) dominates use, with no later
// store to that path before use.
func storedNonNilBefore(addrSym string, use ssa.Instruction) (bool, string) {
	fn := use.Parent()
	var best *ssa.Store
	for _, b := range fn.Blocks {
		for _, ins := range b.Instrs {
			st, ok := ins.(*ssa.Store)
			if !ok || ir.Sym(st.Addr) != addrSym {
				continue
			}
			if ir.Before(st, use) {
				if best == nil || ir.Before(best, st) {
					best = st
				}
			} else if ir.InstrReaches(st, use) {
				return false, "a store to " + addrSym + " may follow the initialising one"
			}
		}
	}
	if best == nil {
		return false, ""
	}
	if nonNilIface(best.Val, 0) {
		return true, "dominated by a store of a non-nil interface value to " + addrSym
	}
	return false, "the value stored to " + addrSym + " is not provably non-nil"
}

func nonNilIface(v ssa.Value, d int) bool {
	if d > 6 {
		return false
	}
	switch x := v.(type) {
	case *ssa.MakeInterface:
		return true
	case *ssa.Phi:
		for _, e := range x.Edges {
			if !nonNilIface(e, d+1) {
				return false
			}
		}
		return len(x.Edges) > 0
	case *ssa.Call:
		// a same-package helper every return of which hands back a non-nil interface value (`r.rootLink()`)
		if h := ir.Callee(x.Call); h != nil && h.Blocks != nil && h.Pkg != nil && h.Pkg.Pkg.Path() == ir.MastPath && h.Signature.Results().Len() == 1 {
			rets := ir.Returns(h)
			for _, r := range rets {
				if !nonNilIface(r.Results[0], d+1) {
					return false
				}
			}
			return len(rets) > 0
		}
	}
	return false
}

type rootReq struct {
	fn    *ssa.Function
	param int
	site  loadSite
	via   string
}

func runNILROOT(c *Ctx) {
	P := c.P
	sites := loadSites(c)
	// requirement worklist: function requires param k's root non-nil
	reqs := map[string]*rootReq{}
	var work []*rootReq
	addReq := func(fn *ssa.Function, k int, s loadSite, via string) {
		key := fmt.Sprintf("%s#%d", ir.FuncName(fn), k)
		if reqs[key] == nil {
			r := &rootReq{fn, k, s, via}
			reqs[key] = r
			work = append(work, r)
		}
	}
	for _, s := range sites {
		if !s.isRoot {
			continue
		}
		fn := s.call.Parent()
		pos := P.InstrPos(s.call)
		what := fmt.Sprintf("load(%s) in %s", ir.Sym(s.arg), ir.FuncName(fn))
		if ok, why := ir.GuardedNonNil(s.arg, s.call); ok {
			c.OK(pos, what, why, false)
			continue
		}
		addr := ir.ResolveCell(s.arg).(*ssa.UnOp).X
		if ok, why := storedNonNilBefore(ir.Sym(addr), s.call); ok {
			c.OK(pos, what, why, false)
			continue
		}
		if p, ok := ir.ResolveCell(s.rootOf).(*ssa.Parameter); ok && p.Parent() == fn {
			c.OK(pos, what, "unguarded here: requires-root("+p.Name()+") charged to the callers", false)
			addReq(fn, paramIndex(p), s, ir.FuncName(fn))
			continue
		}
		c.Violation(fn, pos, "load of "+strings.TrimPrefix(ir.Sym(s.arg), "*"), "the root link is loaded without a dominating non-nil test; an emptied tree has root == nil and load(nil) fails with 'unknown link type <nil>'")
	}
	// diff stacks: iterItem{considerLink: X.root} built from a root without a nil test
	c.nilRootDiffItems(addReq)

	for len(work) > 0 {
		r := work[0]
		work = work[1:]
		name := ir.FuncName(r.fn)
		if why := c.Facts.debugOnlyFunc(r.fn); why != "" {
			c.OK(P.Pos(r.fn.Pos()), "requires-root of "+name, "not applicable: "+why, true)
			continue
		}
		exported := r.fn.Parent() == nil && r.fn.Object() != nil && r.fn.Object().Exported()
		if exported {
			if why, ok := linkGuardExceptions["NILROOT|"+name]; ok {
				c.OK(P.Pos(r.fn.Pos()), "requires-root of exported "+name, "exception: "+why, false)
			} else if emptyTreeValid[name] {
				c.Violation(r.fn, P.InstrPos(r.site.call), "requires non-nil root",
					fmt.Sprintf("%s reaches load(root) in %s without testing root != nil on the way, but the empty tree is a valid input: on a tree that was emptied the call fails with 'unknown link type <nil>'", name, r.via),
					"unguarded load at "+P.InstrPos(r.site.call)+" in "+ir.FuncName(r.site.call.Parent()))
			} else {
				c.Undecided(r.fn, P.Pos(r.fn.Pos()), "requires non-nil root", "exported function "+name+" requires a non-nil root and is not classified (valid on empty tree or not)")
			}
			// exported functions may also be called internally: fall through
		}
		callers := c.P.Callers[r.fn]
		if len(callers) == 0 && !exported {
			// a one-call wrapper (`loadRoot(ctx)` = `m.load(ctx, m.root)`) whose every call the loader wrote back at the call
			// site is dead in the program as analysed: its requirement is judged where it was written back
			written := false
			for _, l := range ir.InlineLog {
				if strings.HasPrefix(l, r.fn.Name()+" in ") {
					written = true
				}
			}
			if written {
				c.OK(P.Pos(r.fn.Pos()), name+" requires a non-nil root", "a thin wrapper written back at each of its call sites by the loader: judged there", false)
			} else {
				c.Undecided(r.fn, P.Pos(r.fn.Pos()), "requires non-nil root", "no static caller found for "+name)
			}
		}
		for _, cs := range callers {
			caller := cs.Parent()
			args := cs.Common().Args
			if r.param >= len(args) {
				continue
			}
			a := args[r.param]
			edge := "NILROOT|" + ir.FuncName(caller) + "→" + name
			pos := P.InstrPos(cs)
			what := fmt.Sprintf("call %s→%s needs (%s).root != nil", ir.FuncName(caller), name, ir.Sym(a))
			if why, ok := linkGuardExceptions[edge]; ok {
				c.OK(pos, what, "exception: "+why, false)
				continue
			}
			if why, ok := chainException(c, caller, r.via); ok {
				c.OK(pos, what, "exception: "+why, false)
				continue
			}
			// dominating test of (a).root
			rootSym := "*" + ir.Sym(a) + ".root"
			if guardedPath(rootSym, cs) {
				c.OK(pos, what, "dominating test "+rootSym+" != nil", false)
				continue
			}
			if ok, why := storedNonNilBefore(ir.Sym(a)+".root", cs); ok {
				c.OK(pos, what, why, false)
				continue
			}
			if p, ok := ir.ResolveCell(a).(*ssa.Parameter); ok && p.Parent() == caller {
				c.OK(pos, what, "propagated to the callers of "+ir.FuncName(caller), false)
				addReq(caller, paramIndex(p), r.site, r.via+" ← "+ir.FuncName(caller))
				continue
			}
			c.Violation(caller, pos, "call "+name+" with possibly nil root", fmt.Sprintf("%s calls %s, which loads the root unguarded, without establishing root != nil", ir.FuncName(caller), name))
		}
	}
}

// guardedPath: a dominating branch tested the value with symbolic path s non-nil.
func guardedPath(s string, use ssa.Instruction) bool {
	for _, f := range ir.FactsAt(use.Block()) {
		tv, tnn, isNil := ir.NilTest(f.Cond)
		if !isNil || f.Truth != tnn || ir.Sym(tv) != s {
			continue
		}
		var edgeTo *ssa.BasicBlock
		if f.Truth {
			edgeTo = f.From.Succs[0]
		} else {
			edgeTo = f.From.Succs[1]
		}
		clob := false
		for _, st := range ir.StoresBetween(edgeTo, use) {
			if ir.MayClobber(ir.Sym(st.Addr), []string{strings.TrimPrefix(s, "*")}) {
				clob = true
			}
		}
		if !clob {
			return true
		}
	}
	return false
}

// nilRootDiffItems: the diff pushes the two roots as the first items. An item
// with a nil considerLink means "yield this entry", so a nil root must not be
// turned into an item: either the value is tested, or it goes through a
// helper that skips nil (pushLink).
func (c *Ctx) nilRootDiffItems(addReq func(fn *ssa.Function, k int, s loadSite, via string)) {
	P := c.P
	for _, fn := range P.Funcs {
		for _, b := range fn.Blocks {
			for _, ins := range b.Instrs {
				st, ok := ins.(*ssa.Store)
				if !ok {
					continue
				}
				fa, ok := st.Addr.(*ssa.FieldAddr)
				if !ok || !ir.IsPtrToNamed(fa.X.Type(), "iterItem") || ir.FieldName(fa.X.Type(), fa.Field) != "considerLink" {
					continue
				}
				x, isRoot := rootLoad(st.Val)
				if !isRoot {
					continue
				}
				pos := P.InstrPos(st)
				what := fmt.Sprintf("iterItem{considerLink: %s} in %s", ir.Sym(st.Val), ir.FuncName(fn))
				if ok, why := ir.GuardedNonNil(st.Val, st); ok {
					c.OK(pos, what, why, false)
					continue
				}
				_ = x
				c.Violation(fn, pos, "diff item from unguarded root",
					"a root link that may be nil (empty or emptied tree) is pushed as a diff item; an item with a nil link is later read as 'yield entry (nil key)', so diffing against an emptied tree fails")
			}
		}
	}
}

func runLINKNIL(c *Ctx) {
	P := c.P
	sites := loadSites(c)
	type preq struct {
		fn    *ssa.Function
		param int
		site  loadSite
	}
	var work []preq
	seen := map[string]bool{}
	for _, s := range sites {
		if s.isRoot {
			continue
		}
		fn := s.call.Parent()
		pos := P.InstrPos(s.call)
		what := fmt.Sprintf("load(%s) in %s", ir.Sym(s.arg), ir.FuncName(fn))
		if ok, why := ir.GuardedNonNil(s.arg, s.call); ok {
			c.OK(pos, what, why, false)
			continue
		}
		if why, ok := exceptionFor(c, fn, func(n string) (string, bool) { w, ok := linkGuardExceptions["LINKNIL|"+n]; return w, ok }, 0); ok {
			c.OK(pos, what, "exception: "+why, false)
			continue
		}
		if p, ok := ir.ResolveCell(ir.Strip(s.arg)).(*ssa.Parameter); ok && p.Parent() == fn {
			k := fmt.Sprintf("%s#%d", ir.FuncName(fn), paramIndex(p))
			c.OK(pos, what, "link parameter: requirement on callers", false)
			if !seen[k] {
				seen[k] = true
				work = append(work, preq{fn, paramIndex(p), s})
			}
			continue
		}
		// the test may sit in the caller of an extracted helper that is handed the entry / node
		{
			as := ir.Sym(s.arg)
			deps := ir.LoadDeps(s.arg)
			if ok, why := viaCallers(c, fn, s.call, func(i ssa.Instruction) bool {
				st, isSt := i.(*ssa.Store)
				return isSt && ir.MayClobber(ir.Sym(st.Addr), deps)
			}, func(rw func(string) string, at ssa.Instruction) bool {
				want := rw(as)
				return ir.FlowFact(at, func(fc ir.Fact) bool {
					tv, tnn, isNil := ir.NilTest(fc.Cond)
					return isNil && fc.Truth == tnn && ir.Sym(tv) == want
				}, func(i ssa.Instruction) bool {
					st, isSt := i.(*ssa.Store)
					if !isSt {
						return false
					}
					var d2 []string
					for _, d := range deps {
						d2 = append(d2, rw(d))
					}
					return ir.MayClobber(ir.Sym(st.Addr), d2)
				})
			}); ok {
				c.OK(pos, what, "tested non-nil "+why, false)
				continue
			}
		}
		_, why := ir.GuardedNonNil(s.arg, s.call)
		c.Violation(fn, pos, "load of "+linkDesc(s.arg),
			"the link that is followed is not the link that was tested non-nil ("+why+"): a nil link makes load fail, and a tested-but-different slot means children are skipped or a nil child is followed")
	}
	for len(work) > 0 {
		r := work[0]
		work = work[1:]
		name := ir.FuncName(r.fn)
		for _, cs := range c.P.Callers[r.fn] {
			caller := cs.Parent()
			args := cs.Common().Args
			if r.param >= len(args) {
				continue
			}
			a := args[r.param]
			pos := P.InstrPos(cs)
			what := fmt.Sprintf("call %s→%s needs link %s != nil", ir.FuncName(caller), name, ir.Sym(a))
			if ok, why := ir.GuardedNonNil(a, cs); ok {
				c.OK(pos, what, why, false)
				continue
			}
			if p, ok := ir.ResolveCell(ir.Strip(a)).(*ssa.Parameter); ok && p.Parent() == caller {
				k := fmt.Sprintf("%s#%d", ir.FuncName(caller), paramIndex(p))
				c.OK(pos, what, "propagated", false)
				if !seen[k] {
					seen[k] = true
					work = append(work, preq{caller, paramIndex(p), r.site})
				}
				continue
			}
			_, why := ir.GuardedNonNil(a, cs)
			c.Violation(caller, pos, "call "+name+" with possibly nil link "+linkDesc(a), why)
		}
	}
}

// linkDesc describes a link expression without SSA register names.
func linkDesc(v ssa.Value) string {
	v = ir.Strip(ir.ResolveCell(v))
	switch x := v.(type) {
	case *ssa.UnOp:
		if x.Op == token.MUL {
			switch a := x.X.(type) {
			case *ssa.IndexAddr:
				if _, f, ok := nodeSliceRoot(a.X); ok {
					return f + "[" + idxDesc(a.Index) + "]"
				}
				return "element"
			case *ssa.FieldAddr:
				return "field " + ir.FieldName(a.X.Type(), a.Field)
			}
		}
	case *ssa.Parameter:
		return "param " + x.Name()
	case *ssa.Phi:
		return "phi"
	}
	return "value"
}

func idxDesc(v ssa.Value) string {
	if k, ok := ir.ConstInt(v); ok {
		return fmt.Sprint(k)
	}
	switch x := v.(type) {
	case *ssa.UnOp:
		if fa, ok := x.X.(*ssa.FieldAddr); ok {
			return ir.FieldName(fa.X.Type(), fa.Field)
		}
	case *ssa.BinOp:
		return idxDesc(x.X) + x.Op.String() + idxDesc(x.Y)
	case *ssa.Parameter:
		return x.Name()
	case *ssa.Call:
		if b, ok := x.Call.Value.(*ssa.Builtin); ok {
			return b.Name() + "(…)"
		}
	}
	return "i"
}

// chainException: the tabled exception "A→B" also covers a call chain A→h1→…→B whose intermediate functions are
// private helpers of A (called from nowhere else): extracting the loop that calls B into a helper of A neither loses
// the exception nor widens it. via lists the chain from the function holding the load up to the current callee.
func chainException(c *Ctx, caller *ssa.Function, via string) (string, bool) {
	names := strings.Split(via, " ← ")
	if len(names) < 2 {
		return "", false
	}
	region := map[string]bool{}
	for _, f := range regionOf(c, ir.Outermost(caller)) {
		region[ir.FuncName(f)] = true
	}
	for i, x := range names[:len(names)-1] {
		why, ok := linkGuardExceptions["NILROOT|"+ir.FuncName(caller)+"→"+x]
		if !ok {
			continue
		}
		all := true
		for _, h := range names[i+1:] {
			if !region[h] {
				all = false
			}
		}
		if all {
			return why + " (through the private helper " + strings.Join(names[i+1:], ", ") + ")", true
		}
	}
	return "", false
}
