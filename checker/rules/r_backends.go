package rules

// Rules about the three node-store backends (in-memory, file, S3):
// ATOMICFILE (C17), ERRPROP_BACKEND, MISSERR, S3KEY, IMPL (C18), LOCK (C11, C18).
// Shared machinery (implementation discovery, receiver fields, the
// path-sensitive walker, the error-drop check) lives in backends_util.go.

import (
	"fmt"
	"go/ast"
	"go/constant"
	"go/token"
	"go/types"
	"sort"
	"strings"

	"golang.org/x/tools/go/ssa"

	"mastcheck/ir"
)

var backendPkgs = []string{ir.MastPath, ir.FilePath, ir.S3Path}

func init() {
	Register(&Rule{
		ID: "ATOMICFILE", Props: []string{"C17", "C11"}, Min: 2,
		Doc: "file store: Store of every mast.Persist implementation in persist/file never creates or truncates the final path " +
			"filepath.Join(base, name) by name; every success return outside the already-exists shortcut is preceded on every feasible path, in order, by " +
			"CreateTemp in the final path's directory (pattern with a character outside the node-name alphabet), Write of the bytes parameter, " +
			"Sync, Close and Rename(temp, final), none of whose errors is dropped; Load reads exactly the same join.",
		Run: runATOMICFILE,
	})
	Register(&Rule{
		ID: "ERRPROP_BACKEND", Props: []string{"C18", "C03"}, Min: 5,
		Doc: "in Load/Store of every mast.Persist implementation of the three backend packages (and the helpers they call), on every feasible " +
			"path on which a call's error result is non-nil the method returns a non-nil error, unless a predicate (os.IsNotExist, errors.Is, == sentinel) " +
			"classified the error positively; checked-and-discarded errors are findings.",
		Run: runERRPROPBackend,
	})
	Register(&Rule{
		ID: "MISSERR", Props: []string{"C18"}, Min: 3,
		Doc: "Load of every backend returns a nil error only with data obtained from a fetch (comma-ok map lookup by the name parameter, " +
			"ReadFile, GetObject+ReadAll) whose presence/error result is known good on that path; a miss never yields (data, nil).",
		Run: runMISSERR,
	})
	Register(&Rule{
		ID: "S3KEY", Props: []string{"C18", "C03", "C05"}, Min: 6,
		Doc: "persist/s3: Load and Store pass an input whose Key is aws.String(receiver.Prefix + name) and whose Bucket is &receiver.BucketName, " +
			"identically; PutObjectInput.Body wraps exactly the bytes parameter; Load returns what it reads from the output's Body.",
		Run: runS3KEY,
	})
	Register(&Rule{
		ID: "LOCK", Props: []string{"C11", "C18"}, Min: 5,
		Doc: "for every struct type of the backend packages with a sync.Mutex/RWMutex field: in every method each access to the other " +
			"fields of the receiver (and to maps/slices loaded from them) happens with the mutex held on every path, and no path returns with it held.",
		Run: runLOCK,
	})
	Register(&Rule{
		ID: "IMPL", Props: []string{"C18"}, Min: 3,
		Doc: "the concrete types returned by NewInMemoryStore, NewPersistForPath and NewPersist implement mast.Persist (value or pointer), " +
			"and each backend package carries a compile-time witness (blank var of type mast.Persist, or a constructor declared to return mast.Persist).",
		Run: runIMPL,
	})
	Assume("C17", "the operating system's rename(2) within one directory is atomic and fsync makes file contents durable (kernel/filesystem trusted)",
		"node names consist of unpadded URL-safe base64 characters [A-Za-z0-9_-] and contain no path separator")
	Assume("C18", "library semantics of os.ReadFile, io.ReadAll, bytes.NewReader, aws.String and of the S3 client interface are trusted")
}

// ===========================================================================
// ERRPROP_BACKEND

// backendFuncs: Load and Store of every implementation plus the repository
// functions they reach through static calls.
func backendFuncs(c *Ctx, impls []backendImpl) []*ssa.Function {
	var entries []*ssa.Function
	for _, b := range impls {
		entries = append(entries, b.load, b.store)
	}
	reach := c.Facts.Reach(entries...)
	var out []*ssa.Function
	for _, fn := range c.P.Funcs {
		if reach[fn] {
			out = append(out, fn)
		}
	}
	return out
}

func runERRPROPBackend(c *Ctx) {
	impls := backendImpls(c, backendPkgs...)
	var stores []*ssa.Function
	for _, b := range impls {
		stores = append(stores, b.store)
	}
	inStore := c.Facts.Reach(stores...)
	for _, fn := range backendFuncs(c, impls) {
		errPropFunc(c, fn, inStore[fn])
	}
}

// storeProbe: a call in Store whose error may be classified to decide whether
// to write at all (the exists probe); every other call of a Store is (part of)
// the write, and no classification of its error licenses a nil return.
func storeProbe(call *ssa.Call) bool {
	switch staticID(call) {
	case "os.Stat", "os.Lstat", "os.Open", "os.Readlink":
		return true
	}
	if call.Call.IsInvoke() {
		n := call.Call.Method.Name()
		return strings.HasPrefix(n, "Head") || strings.HasPrefix(n, "Get") || n == "Load"
	}
	return false
}

func errPropFunc(c *Ctx, fn *ssa.Function, inStore bool) {
	P := c.P
	hasErr := resultHasError(fn.Signature)
	for _, b := range fn.Blocks {
		for _, ins := range b.Instrs {
			switch x := ins.(type) {
			case *ssa.Defer, *ssa.Go:
				ci := ins.(ssa.CallInstruction)
				if !resultHasError(calleeSig(ci.Common())) {
					continue
				}
				name := callName(ci)
				id := staticID(ci)
				isCleanup := id == "os.Remove" || id == "os.RemoveAll" || strings.HasSuffix(name, ".Close") || name == "Close"
				if _, isDefer := ins.(*ssa.Defer); isDefer && isCleanup {
					c.OK(P.InstrPos(ins), "deferred "+name+" in "+ir.FuncName(fn), "deferred clean-up: cannot turn a failure into a success return (ordering of an explicit Close is ATOMICFILE's clause)", true)
					continue
				}
				c.Undecided(fn, P.InstrPos(ins), "deferred/spawned "+name, "the error result of a deferred or spawned call cannot reach the caller")
			case *ssa.Call:
				if _, has := errorValue(x); !has {
					continue
				}
				name := callName(x)
				// clean-up inside a closure that the parent only defers (remove the temp file, close a handle)
				if id := staticID(x); fn.Parent() != nil && onlyDeferred(fn) && (id == "os.Remove" || id == "os.RemoveAll" || strings.HasSuffix(name, ".Close") || name == "Close") {
					c.OK(P.InstrPos(x), "error of "+name+" in "+ir.FuncName(fn), "clean-up in a deferred closure: it cannot turn a failure into a success return", true)
					continue
				}
				if !hasErr {
					c.Undecided(fn, P.InstrPos(x), "error of "+name, "call returns an error but the enclosing function has no error result")
					continue
				}
				if fn.Parent() != nil {
					c.Undecided(fn, P.InstrPos(x), "error of "+name, "call inside a closure: its error does not flow to the method result directly")
					continue
				}
				// closing a file that was opened read-only cannot lose data
				if staticID(x) == "(*os.File).Close" && len(x.Call.Args) == 1 {
					if ex, isEx := ir.Strip(ir.ResolveCell(x.Call.Args[0])).(*ssa.Extract); isEx && ex.Index == 0 {
						if oc, isCall := ex.Tuple.(*ssa.Call); isCall && staticID(oc) == "os.Open" {
							c.OK(P.InstrPos(x), "error of "+name+" in "+ir.FuncName(fn), "the file was opened read-only by os.Open: its Close cannot lose written data", true)
							continue
						}
					}
				}
				strict := inStore && !storeProbe(x)
				res := errDropCheckMode(fn, x, strict)
				switch {
				case res.overflow:
					c.Undecided(fn, P.InstrPos(x), "error of "+name, "path exploration exceeded its bound")
				case !res.reached:
					c.OK(P.InstrPos(x), "error of "+name+" in "+ir.FuncName(fn), "call unreachable on feasible paths", true)
				case len(res.bad) == 0:
					c.OK(P.InstrPos(x), "error of "+name+" in "+ir.FuncName(fn), "every feasible path after a failure ends in a non-nil error return (or the error was classified by a predicate)", false)
				case res.memLoad:
					c.Undecided(fn, P.InstrPos(x), "error of "+name, "the error result is returned through a memory cell (named result captured by a closure?) that the rule cannot follow")
				default:
					var wit []string
					for _, r := range res.bad {
						wit = append(wit, fmt.Sprintf("return at %s reachable with the error non-nil (%s)", P.InstrPos(r), res.witness[r]))
					}
					msg := fmt.Sprintf("when %s fails, %s can still return a nil error: the backend error is not returned to the caller", name, ir.FuncName(fn))
					if strict && len(errDropCheckMode(fn, x, false).bad) == 0 {
						msg += " (the error is classified by errors.Is/As, os.IsX or a comparison and then dropped: for the write of a Store no kind of failure — cancelled, timed out, … — means the node is stored)"
					}
					c.Violation(fn, P.InstrPos(x), "error of "+name+" dropped", msg, wit...)
				}
			}
		}
	}
}

// ===========================================================================
// MISSERR

func runMISSERR(c *Ctx) {
	for _, b := range backendImpls(c, backendPkgs...) {
		fn := b.load
		if len(fn.Params) < 3 || ir.ErrorResultIndex(fn.Signature) != 1 {
			c.Undecided(fn, c.P.Pos(fn.Pos()), "signature", "Load does not have the shape (recv, ctx, name) ([]byte, error)")
			continue
		}
		missErrFunc(c, rootFrame(c.P, fn), map[*ssa.Function]bool{}, false)
	}
}

type fetch struct {
	ins  ssa.Instruction // the call or lookup
	what string
	good ssa.Value // error value (must be nil) or ok value (must be true)
	isOK bool
	miss string // non-empty: fetch cannot signal a miss
}

// missErrFunc checks the success returns of the function of frame fr (Load,
// or a helper whose first result is the data Load returns) and, recursively,
// the repository helpers the returned data is fetched through.
func missErrFunc(c *Ctx, fr *frame, done map[*ssa.Function]bool, whole bool) {
	P := c.P
	fn := fr.fn
	if done[fn] {
		return
	}
	done[fn] = true
	if ei := ir.ErrorResultIndex(fn.Signature); ei < 1 || ei != fn.Signature.Results().Len()-1 {
		c.Undecided(fn, P.Pos(fn.Pos()), "signature", "data is fetched through a helper without a trailing error result")
		return
	}
	errIdx := fn.Signature.Results().Len() - 1
	var helpers, dataHelpers []*frame
	var allFetch []fetch // the reads/lookups whose data some success return returns
	type verdict struct {
		bad  []string
		und  []string
		ok   []string
		path string
		// READWHOLE: is the returned data the complete content?
		partial    []string
		partialUnd []string
		wholeOK    []string
	}
	per := map[*ssa.Return]*verdict{}
	var order []*ssa.Return
	w := &pwalker{fn: fn}
	w.onReturn = func(st *pstate, r *ssa.Return) {
		if len(r.Results) != errIdx+1 || nilness(st, r.Results[errIdx]) == triYes {
			return
		}
		v := per[r]
		if v == nil {
			v = &verdict{path: st.pathString()}
			per[r] = v
			order = append(order, r)
		}
		var fs []fetch
		var und, altered, partial, partialUnd, wholeOK []string
		seen := map[ssa.Value]bool{}
		var slice func(x ssa.Value, d int, below bool)
		slice = func(x ssa.Value, d int, below bool) {
			if x == nil || seen[x] || d > 24 {
				return
			}
			seen[x] = true
			x = ir.ResolveCell(st.deref(x))
			switch y := x.(type) {
			case *ssa.Extract:
				switch t := y.Tuple.(type) {
				case *ssa.Call:
					if !below {
						b, u, ok := wholeProducer(c, t, fr)
						partial = append(partial, b...)
						partialUnd = append(partialUnd, u...)
						wholeOK = append(wholeOK, ok...)
					}
					// comma-ok helper: `func (s *T) get(k) ([]byte, bool) { v, ok := s.m[k]; return v, ok }`
					if k := fr.child(t); k != nil {
						if sr := soleReturn(k.fn); sr != nil && y.Index < len(sr.Results) {
							if dx, isEx := ir.ResolveCell(sr.Results[y.Index]).(*ssa.Extract); isEx && dx.Index == 0 {
								if lk, isLk := dx.Tuple.(*ssa.Lookup); isLk && lk.CommaOk {
									f := fetch{ins: t, what: "map lookup in " + k.fn.Name(), isOK: true}
									for j, rv := range sr.Results {
										if ox, isOx := ir.ResolveCell(rv).(*ssa.Extract); isOx && ox.Tuple == ssa.Value(lk) && ox.Index == 1 {
											if ex := extractOf(t, j); ex != nil {
												f.good = ex
											}
										}
									}
									if !isRootParam(lk.Index, k, 2) {
										f.miss = "the lookup key is not the name parameter"
									}
									fs = append(fs, f)
									return
								}
							}
						}
					}
					if e, has := errorValue(t); has {
						fs = append(fs, fetch{ins: t, what: callName(t), good: e})
						if k := fr.child(t); k != nil {
							helpers = append(helpers, k) // the helper's own success returns are checked too
							if !below {
								dataHelpers = append(dataHelpers, k) // … and this one produces the returned bytes themselves
							}
						} else if h := ir.Callee(t.Call); h != nil && h.Blocks != nil && isOwn(P, h) {
							und = append(und, "data is fetched through helper "+h.Name()+", nested deeper than the rule follows")
						}
					}
					for _, a := range t.Call.Args {
						slice(a, d+1, true)
					}
					if t.Call.IsInvoke() {
						slice(t.Call.Value, d+1, true)
					}
				case *ssa.Lookup:
					if !t.CommaOk {
						return
					}
					if !below {
						wholeOK = append(wholeOK, "the map element itself")
					}
					f := fetch{ins: t, what: "map lookup", isOK: true}
					if ex := extractOf(t, 1); ex != nil {
						f.good = ex
					}
					if !isRootParam(t.Index, fr, 2) {
						f.miss = "the lookup key is not the name parameter"
					}
					fs = append(fs, f)
				case *ssa.TypeAssert:
					slice(t.X, d+1, below)
				default:
					und = append(und, fmt.Sprintf("data comes from %T", t))
				}
			case *ssa.Lookup:
				if _, isMap := y.X.Type().Underlying().(*types.Map); isMap {
					fs = append(fs, fetch{what: "map lookup", miss: "the map is read without a presence test, so a miss yields empty data"})
				} else {
					slice(y.X, d+1, below)
				}
			case *ssa.Call:
				if e, has := errorValue(y); has {
					fs = append(fs, fetch{ins: y, what: callName(y), good: e})
					for _, a := range y.Call.Args {
						slice(a, d+1, true)
					}
					break
				}
				if src, isCopy := copyOf(y); isCopy {
					slice(src, d+1, below) // a complete private copy: exactly the bytes
					break
				}
				if !below {
					// a local bytes.Buffer filled by one copy: the copy is the read
					if fill, kind := bufferFill(y); fill != nil {
						e, _ := errorValue(fill)
						fs = append(fs, fetch{ins: fill, what: callName(fill), good: e})
						b, u, ok := wholeCopy(c, fill, kind, fr)
						partial = append(partial, b...)
						partialUnd = append(partialUnd, u...)
						wholeOK = append(wholeOK, ok...)
						for _, a := range fill.Call.Args {
							slice(a, d+1, true)
						}
						break
					}
					// between the read and the return the bytes must stay exactly the bytes read
					und = append(und, "the returned data passes through "+callName(y)+", which may change the bytes read")
				}
				for _, a := range y.Call.Args {
					slice(a, d+1, below)
				}
			case *ssa.UnOp:
				slice(y.X, d+1, below)
			case *ssa.FieldAddr:
				if a, isAlloc := y.X.(*ssa.Alloc); isAlloc {
					if sv := wholeStoreOf(a); sv != nil {
						slice(sv, d+1, below) // a field of the element found (blob.bytes)
						break
					}
				}
				slice(y.X, d+1, below)
			case *ssa.Field:
				slice(y.X, d+1, below)
			case *ssa.IndexAddr:
				slice(y.X, d+1, below)
			case *ssa.Index:
				slice(y.X, d+1, below)
			case *ssa.Slice:
				if !below {
					altered = append(altered, "a slice expression of the data read is returned, not exactly the bytes read")
				}
				slice(y.X, d+1, below)
			case *ssa.MakeInterface:
				slice(y.X, d+1, below)
			case *ssa.ChangeInterface:
				slice(y.X, d+1, below)
			case *ssa.ChangeType:
				slice(y.X, d+1, below)
			case *ssa.Convert:
				slice(y.X, d+1, below)
			case *ssa.Phi:
				und = append(und, "returned data is a φ of several sources")
			case *ssa.MakeSlice:
				if src, isCopy := copyOf(y); isCopy {
					slice(src, d+1, below)
				}
			case *ssa.Const, *ssa.Parameter, *ssa.Alloc, *ssa.Global, *ssa.FreeVar, *ssa.MakeMap:
			default:
				und = append(und, fmt.Sprintf("returned data flows through %T", y))
			}
		}
		slice(r.Results[0], 0, false)
		v.partial = append(append(v.partial, partial...), altered...)
		v.partialUnd = append(v.partialUnd, partialUnd...)
		v.wholeOK = append(v.wholeOK, wholeOK...)
		if len(und) > 0 {
			v.und = append(v.und, und...)
			return
		}
		for _, f := range fs {
			if f.ins != nil && f.good != nil && f.miss == "" {
				known := false
				for _, g := range allFetch {
					if g.ins == f.ins {
						known = true
					}
				}
				if !known {
					allFetch = append(allFetch, f)
				}
			}
		}
		if len(fs) == 0 {
			v.bad = append(v.bad, "returns data that does not come from any lookup or read (constant/empty) together with a possibly nil error")
			return
		}
		for _, f := range fs {
			switch {
			case f.miss != "":
				v.bad = append(v.bad, f.what+": "+f.miss)
			case f.good == nil:
				v.bad = append(v.bad, "the "+map[bool]string{true: "presence", false: "error"}[f.isOK]+" result of "+f.what+" is discarded")
			case f.isOK:
				if st.facts[f.good] == triYes {
					v.ok = append(v.ok, f.what+" found (ok true on this path)")
				} else {
					v.bad = append(v.bad, "nil-error return is not confined to the path on which the "+f.what+" reported the key present")
				}
			default:
				if nilness(st, f.good) == triNo {
					v.ok = append(v.ok, "error of "+f.what+" is nil on this path")
				} else if f.good == st.deref(r.Results[errIdx]) {
					v.ok = append(v.ok, "data and error both come from "+f.what)
				} else {
					v.bad = append(v.bad, "data of "+f.what+" is returned with a possibly nil error although the error of "+f.what+" is not known to be nil")
				}
			}
		}
	}
	w.run()
	if w.overflow {
		c.Undecided(fn, P.Pos(fn.Pos()), "paths", "path exploration exceeded its bound")
		return
	}
	if len(order) == 0 {
		c.Undecided(fn, P.Pos(fn.Pos()), "no success return", ir.FuncName(fn)+" has no return that can carry a nil error")
		return
	}
	defer func() {
		hs := helpers
		if whole {
			hs = dataHelpers // completeness concerns the producer of the bytes, not the provenance of its reader
		}
		for _, k := range hs {
			missErrFunc(c, k, done, whole)
		}
	}()
	if whole {
		for i, r := range order {
			v := per[r]
			what := fmt.Sprintf("content returned by success return #%d of %s", i+1, ir.FuncName(fn))
			switch {
			case len(v.partial) > 0:
				c.Violation(fn, P.InstrPos(r), "Load does not return the complete content",
					ir.FuncName(fn)+" can return, with a nil error, less than (or something other than) the complete stored bytes: "+strings.Join(uniq(v.partial), "; "), v.path)
			case len(v.partialUnd) > 0 || len(v.und) > 0:
				c.Undecided(fn, P.InstrPos(r), "completeness of the returned content", "cannot establish that the returned bytes are the complete content: "+strings.Join(uniq(append(v.partialUnd, v.und...)), "; "), v.path)
			case len(v.wholeOK) == 0:
				if len(v.bad) > 0 {
					c.OK(P.InstrPos(r), what, "no data producer on this return (MISSERR's finding)", true)
				} else {
					c.Undecided(fn, P.InstrPos(r), "completeness of the returned content", "no recognised producer of the returned bytes", v.path)
				}
			default:
				c.OK(P.InstrPos(r), what, strings.Join(uniq(v.wholeOK), "; "), false)
			}
		}
		return
	}
	missErrReject(c, fn, errIdx, allFetch)
	for i, r := range order {
		v := per[r]
		what := fmt.Sprintf("success return #%d of %s", i+1, ir.FuncName(fn))
		switch {
		case len(v.bad) > 0:
			c.Violation(fn, P.InstrPos(r), "nil error without found data", "Load can return a nil error for a name that was not found or not read: "+strings.Join(uniq(v.bad), "; "), v.path)
		case len(v.und) > 0:
			c.Undecided(fn, P.InstrPos(r), "success return data", strings.Join(uniq(v.und), "; "), v.path)
		default:
			c.OK(P.InstrPos(r), what, strings.Join(uniq(v.ok), "; "), false)
		}
	}
}

// missErrReject: once every read/lookup executed on a path has succeeded,
// the function returns the data: no error return may follow that is not the
// failure of another call (a rejection that depends on the length or content
// of the bytes read makes a successfully stored value unloadable).
func missErrReject(c *Ctx, fn *ssa.Function, errIdx int, fetches []fetch) {
	if len(fetches) == 0 {
		return
	}
	P := c.P
	id := map[ssa.Instruction]int{}
	for i, f := range fetches {
		id[f.ins] = i
	}
	errCalls := callsReturningError(fn)
	bad := map[*ssa.Return]string{}
	var order []*ssa.Return
	w := &pwalker{fn: fn}
	w.onInstr = func(st *pstate, ins ssa.Instruction) {
		if i, ok := id[ins]; ok {
			tag := fmt.Sprintf("%d,", i)
			if !strings.Contains(","+st.aux, ","+tag) {
				st.aux += tag
			}
		}
	}
	w.onReturn = func(st *pstate, r *ssa.Return) {
		if errIdx >= len(r.Results) || nilness(st, r.Results[errIdx]) != triYes || st.aux == "" {
			return
		}
		for i, f := range fetches {
			if !strings.Contains(","+st.aux, fmt.Sprintf(",%d,", i)) {
				continue
			}
			if f.isOK {
				if st.facts[f.good] != triYes {
					return
				}
			} else if nilness(st, f.good) != triNo {
				return
			}
		}
		// the error returned is (or follows) the failure of some other call
		for _, call := range errCalls {
			switch staticID(call) {
			case "fmt.Errorf", "errors.New":
				continue
			}
			if e, _ := errorValue(call); e != nil && nilness(st, e) == triYes {
				return
			}
		}
		if _, seen := bad[r]; !seen {
			bad[r] = st.pathString()
			order = append(order, r)
		}
	}
	w.run()
	if w.overflow {
		c.Undecided(fn, P.Pos(fn.Pos()), "paths", "path exploration exceeded its bound")
		return
	}
	for _, r := range order {
		c.Violation(fn, P.InstrPos(r), "error return after a successful read",
			ir.FuncName(fn)+" can return an error although every lookup/read on that path succeeded and no other call failed: the outcome depends on the length or content of the bytes read, so some successfully stored values cannot be loaded", bad[r])
	}
	if len(order) == 0 {
		c.OK(P.Pos(fn.Pos()), "no rejection after a successful read in "+ir.FuncName(fn), "every error return follows a failed lookup, read or other call", false)
	}
}

func uniq(in []string) []string {
	seen := map[string]bool{}
	var out []string
	for _, s := range in {
		if !seen[s] {
			seen[s] = true
			out = append(out, s)
		}
	}
	return out
}

// ===========================================================================
// IMPL

func runIMPL(c *Ctx) {
	it := persistIface(c)
	if it == nil {
		return
	}
	P := c.P
	persistNamed := P.Named(ir.MastPath, "Persist")
	ctors := []struct{ pkg, name string }{
		{ir.MastPath, "NewInMemoryStore"}, {ir.FilePath, "NewPersistForPath"}, {ir.S3Path, "NewPersist"},
	}
	for _, ct := range ctors {
		fn := P.Func(ct.pkg, ct.name)
		if fn == nil {
			c.AnchorMissing("constructor " + ct.name + " in " + ct.pkg)
			continue
		}
		res := fn.Signature.Results()
		if res.Len() == 0 {
			c.Violation(fn, P.Pos(fn.Pos()), "constructor result", "constructor returns nothing")
			continue
		}
		rt := res.At(0).Type()
		ctorIsWitness := false
		if types.Identical(rt, persistNamed) {
			// declared to return the interface: the compiler checks every returned value
			ctorIsWitness = true
			var conc []string
			for _, r := range ir.Returns(fn) {
				if mi, ok := r.Results[0].(*ssa.MakeInterface); ok {
					conc = append(conc, types.TypeString(mi.X.Type(), types.RelativeTo(fn.Pkg.Pkg)))
				}
			}
			c.OK(P.Pos(fn.Pos()), ct.name+" returns mast.Persist", "declared result type is the interface; concrete type(s): "+strings.Join(uniq(conc), ", "), true)
		} else {
			switch {
			case types.Implements(rt, it):
				c.OK(P.Pos(fn.Pos()), ct.name+" result "+types.TypeString(rt, nil), "the value type implements mast.Persist", false)
			case !isPointer(rt) && types.Implements(types.NewPointer(rt), it):
				c.OK(P.Pos(fn.Pos()), ct.name+" result "+types.TypeString(rt, nil), "the pointer type implements mast.Persist (callers take the address)", false)
			default:
				miss, _ := types.MissingMethod(types.NewPointer(rt), it, true)
				mn := "?"
				if miss != nil {
					mn = miss.Name()
				}
				c.Violation(fn, P.Pos(fn.Pos()), "constructor result does not implement Persist",
					fmt.Sprintf("%s returns %s, and neither it nor its pointer type implements mast.Persist (missing or mismatching method %s)", ct.name, types.TypeString(rt, nil), mn))
			}
		}
		// compile-time witness in the package
		pk := P.Pkgs[ct.pkg]
		n := 0
		for _, f := range pk.Syntax {
			for _, d := range f.Decls {
				gd, ok := d.(*ast.GenDecl)
				if !ok || gd.Tok != token.VAR {
					continue
				}
				for _, sp := range gd.Specs {
					vs, ok := sp.(*ast.ValueSpec)
					if !ok || vs.Type == nil {
						continue
					}
					blank := false
					for _, nm := range vs.Names {
						if nm.Name == "_" {
							blank = true
						}
					}
					if !blank {
						continue
					}
					if tv, ok := pk.TypesInfo.Types[vs.Type]; ok && types.Identical(tv.Type, persistNamed) {
						n++
						c.OK(P.Pos(vs.Pos()), "witness var _ mast.Persist in "+pk.Name, "blank variable of the interface type", false)
					}
				}
			}
		}
		if n == 0 {
			if ctorIsWitness {
				c.OK(P.Pos(fn.Pos()), "witness in "+pk.Name, "the constructor's declared result type mast.Persist is the compile-time witness", true)
			} else {
				c.Note("package %s has no `var _ mast.Persist = …` witness; conformance is established by types.Implements on the constructor result only", pk.Name)
			}
		}
	}
}

func isPointer(t types.Type) bool {
	_, ok := t.Underlying().(*types.Pointer)
	return ok
}

var _ = sort.Strings

// ===========================================================================
// CTORVERBATIM

func init() {
	Register(&Rule{
		ID: "CTORVERBATIM", Props: []string{"C18"}, Min: 3,
		Doc: "the configuration fields that Load/Store of a backend use to address objects (file base path; S3 prefix and bucket) are stored " +
			"only by constructors (into a freshly built value) and verbatim from a constructor parameter: no concatenation, trimming, Clean or Join " +
			"changes the names under which nodes are read and written relative to what the caller configured.",
		Run: runCTORVERBATIM,
	})
	Register(&Rule{
		ID: "PREFIXIDENT", Props: []string{"C03", "C11"}, Min: 3,
		Doc: "NodeURLPrefix is an injective function of the store's identity: it is assembled from every constructor parameter that selects where " +
			"objects live, or from a process-unique id (never a memory address), only by allow-listed injective operations: concatenation and full-width " +
			"fmt verbs with a non-empty constant separator between any two variable components, strconv formatters, URL/hex escaping. The separator " +
			"argument relies on the component that follows a separator not containing it where that matters (S3 bucket names cannot contain '/').",
		Run: runPREFIXIDENT,
	})
}

// frameInstrs enumerates the instructions of fr.fn and of the helper frames below it.
func frameInstrs(fr *frame, visit func(ins ssa.Instruction, fr *frame)) {
	for _, b := range fr.fn.Blocks {
		if b == fr.fn.Recover {
			continue
		}
		for _, ins := range b.Instrs {
			visit(ins, fr)
			if call, ok := ins.(*ssa.Call); ok {
				if k := fr.child(call); k != nil {
					frameInstrs(k, visit)
				}
			}
		}
	}
}

// configFields: string fields of the receiver that Load or Store (or their
// helpers) read, or whose address they hand out.
func configFields(c *Ctx, b backendImpl) []string {
	loc := map[string]bool{}
	for _, fn := range []*ssa.Function{b.load, b.store} {
		frameInstrs(rootFrame(c.P, fn), func(ins ssa.Instruction, fr *frame) {
			if fr.recv == nil || !isRootRecv(fr) {
				return
			}
			if v, ok := ins.(ssa.Value); ok {
				if f, ok := fr.recv.fieldOf(v); ok && isStringType(v.Type()) {
					loc[f] = true
				}
				if f, ok := fr.recv.fieldAddrOf(v); ok {
					if pt, ok := v.Type().Underlying().(*types.Pointer); ok && isStringType(pt.Elem()) {
						loc[f] = true
					}
				}
			}
		})
	}
	var out []string
	for f := range loc {
		out = append(out, f)
	}
	sort.Strings(out)
	return out
}

// fieldStoresOf lists the stores into field `field` of values of type T in package pkg.
func fieldStoresOf(c *Ctx, b backendImpl, field string) []*ssa.Store {
	var out []*ssa.Store
	for _, fn := range c.P.Funcs {
		if fn.Pkg.Pkg.Path() != b.pkg {
			continue
		}
		for _, blk := range fn.Blocks {
			for _, ins := range blk.Instrs {
				s, ok := ins.(*ssa.Store)
				if !ok {
					continue
				}
				fa, ok := s.Addr.(*ssa.FieldAddr)
				if !ok {
					continue
				}
				pt, ok := fa.X.Type().Underlying().(*types.Pointer)
				if !ok || !types.Identical(pt.Elem(), b.named) || ir.FieldName(fa.X.Type(), fa.Field) != field {
					continue
				}
				out = append(out, s)
			}
		}
	}
	return out
}

func runCTORVERBATIM(c *Ctx) {
	P := c.P
	for _, b := range backendImpls(c, backendPkgs...) {
		for _, field := range configFields(c, b) {
			stores := fieldStoresOf(c, b, field)
			if len(stores) == 0 {
				c.Note("%s.%s is read by Load/Store but never assigned in the package (left to the user of the struct)", b.String(), field)
				continue
			}
			for _, s := range stores {
				fn := s.Parent()
				fa := s.Addr.(*ssa.FieldAddr)
				what := fmt.Sprintf("store to %s.%s in %s", b.named.Obj().Name(), field, ir.FuncName(fn))
				_, fresh := fa.X.(*ssa.Alloc)
				if ri := newRecvInfo(fn); ri != nil && ri.isBase(fa.X) {
					fresh = false // the (copy of the) receiver of a method
				}
				if !fresh {
					c.Violation(fn, P.InstrPos(s), "configuration field "+field+" written outside a constructor",
						fmt.Sprintf("%s assigns %s.%s of an existing store: Load and Store afterwards address different objects than before", ir.FuncName(fn), b.named.Obj().Name(), field))
					continue
				}
				v := ir.Strip(ir.ResolveCell(s.Val))
				if p, ok := v.(*ssa.Parameter); ok && p.Parent() == fn {
					c.OK(P.InstrPos(s), what, "stored verbatim from parameter "+p.Name(), false)
					continue
				}
				// a directory path may be stored in its absolute form: the same directory, named
				// independently of the working directory (only for the file store's path fields)
				if b.pkg == ir.FilePath {
					if p, ok := absOfParam(v, s); ok && p.Parent() == fn {
						c.OK(P.InstrPos(s), what, "stored as filepath.Abs("+p.Name()+") where that succeeds, else verbatim: the same directory", false)
						continue
					}
				}
				c.Violation(fn, P.InstrPos(s), "configuration field "+field+" not stored verbatim",
					fmt.Sprintf("%s stores %s into %s.%s instead of its parameter unchanged: the object names Load/Store use differ from what the caller configured (nodes written under the configured name are no longer found)", ir.FuncName(fn), descValue(v), b.named.Obj().Name(), field))
			}
		}
	}
}

// ===========================================================================
// PREFIXIDENT

// prefixInjective is the ALLOW-list of calls through which the identity string
// may pass: each is injective in its (first) operand, so two different
// components never yield the same text. filepath.Abs is the one exception by
// design: it maps the names of one directory to one canonical name (the file
// store's base path is fixed that way at construction). Anything not listed —
// path.Join, filepath.Join/Clean/Base/Dir, strings.Trim*/ToLower/Replace*,
// hashes, … — is "not known to be injective" and reported.
var prefixInjective = map[string]bool{
	"strconv.Itoa": true, "strconv.FormatUint": true, "strconv.FormatInt": true, "strconv.Quote": true,
	"net/url.PathEscape": true, "net/url.QueryEscape": true,
	"encoding/hex.EncodeToString": true, "(*encoding/base64.Encoding).EncodeToString": true,
	"path/filepath.Abs": true,
}

// prefixLossy: calls known to keep only part of their operand or to fold
// distinct operands together (named in the message; everything unlisted is
// reported as well).
var prefixLossy = map[string]bool{
	"path/filepath.Base": true, "path.Base": true, "path/filepath.Ext": true, "path.Ext": true, "path/filepath.VolumeName": true,
	"path/filepath.Dir": true, "path.Dir": true, "path/filepath.Clean": true, "path.Clean": true, "path/filepath.Join": true, "path.Join": true,
	"strings.TrimSuffix": true, "strings.TrimPrefix": true, "strings.Trim": true, "strings.TrimLeft": true, "strings.TrimRight": true,
	"strings.TrimSpace": true, "strings.ToLower": true, "strings.ToUpper": true, "strings.Title": true, "strings.Replace": true,
	"strings.ReplaceAll": true, "strings.Split": true, "strings.SplitN": true, "strings.Fields": true, "strings.Map": true,
}

type prefixCheck struct {
	c     *Ctx
	b     backendImpl
	bad   []string
	und   []string
	depth int
	srcs  int // identity sources reached: configuration parameters, a process-unique id, a wrapped store's prefix
	notes []string
	addr  []string // the identity is a memory address
	// helpers being followed: their parameters stand for the arguments of the call
	bind   map[*ssa.Parameter]prefixArg
	inCall map[*ssa.Function]bool
	exIdx  int                     // result position selected by the enclosing Extract
	params map[*ssa.Parameter]bool // constructor parameters that flow into the identity
}

type prefixArg struct {
	v  ssa.Value
	ri *recvInfo
}

// sprintfVerbsOK: only verbs that print their operand completely.
func sprintfVerbsOK(format string) (ok bool, why string) {
	for i := 0; i < len(format); i++ {
		if format[i] != '%' {
			continue
		}
		i++
		if i >= len(format) {
			return false, "dangling %"
		}
		switch format[i] {
		case '%', 's', 'v', 'd', 'q', 'p', 'x', 'X':
		default:
			return false, "verb %" + string(format[i]) + " (flags, width or precision can truncate the operand)"
		}
	}
	return true, ""
}

// value checks that v is assembled injectively from complete location
// values. ri is the receiver info of the function v lives in (nil in
// constructors, where parameters are the leaves).
func (pc *prefixCheck) value(v ssa.Value, ri *recvInfo, d int) {
	if v == nil || d > 12 {
		return
	}
	v = ir.Strip(ir.ResolveCell(v))
	switch x := v.(type) {
	case *ssa.Const:
		return
	case *ssa.Parameter:
		if a, ok := pc.bind[x]; ok {
			pc.value(a.v, a.ri, d+1)
			return
		}
		if ri != nil && x == ri.param {
			// the receiver itself: only its address can flow into a string
			if _, isPtr := x.Type().Underlying().(*types.Pointer); isPtr {
				pc.addr = append(pc.addr, "the address of the receiver")
				return
			}
		}
		pc.srcs++ // a configuration parameter of a constructor
		if pc.params == nil {
			pc.params = map[*ssa.Parameter]bool{}
		}
		pc.params[x] = true
		return
	case *ssa.Global:
		pc.addr = append(pc.addr, "the address of package-level variable "+x.Name())
		return
	case *ssa.BinOp:
		if x.Op == token.ADD && isStringType(x.Type()) {
			// two variable components must be kept apart by constant text, or
			// ("ab","c") and ("a","bc") give the same identity
			leaves := concatLeaves(x)
			for i := 0; i+1 < len(leaves); i++ {
				_, c1 := constString(leaves[i])
				_, c2 := constString(leaves[i+1])
				if !c1 && !c2 {
					pc.bad = append(pc.bad, fmt.Sprintf("the concatenation of %s and %s without a constant separator between them (different pairs of components give the same text)", descValue(leaves[i]), descValue(leaves[i+1])))
				}
			}
			pc.value(x.X, ri, d+1)
			pc.value(x.Y, ri, d+1)
			return
		}
		pc.bad = append(pc.bad, "operator "+x.Op.String()+" (different operands give the same result, or the operands are not themselves unique)")
	case *ssa.UnOp:
		if x.Op != token.MUL {
			pc.und = append(pc.und, "operator "+x.Op.String())
			return
		}
		if ri != nil {
			if f, ok := ri.fieldAddrOf(x.X); ok {
				pc.field(f)
				return
			}
		}
		if g, ok := x.X.(*ssa.Global); ok {
			pc.bad = append(pc.bad, "a plain (non-atomic) read of package-level variable "+g.Name()+": concurrent constructors can obtain the same value")
			return
		}
		pc.und = append(pc.und, "a value loaded from "+ir.Sym(x.X))
	case *ssa.Field:
		if ri != nil {
			if f, ok := ri.fieldOf(x); ok {
				pc.field(f)
				return
			}
		}
		pc.und = append(pc.und, "field of "+ir.Sym(x.X))
	case *ssa.Phi:
		pc.alternatives(x.Edges, ri, d+1, "one of the values merged at a branch")
	case *ssa.Extract:
		old := pc.exIdx
		pc.exIdx = x.Index
		pc.value(x.Tuple, ri, d+1)
		pc.exIdx = old
	case *ssa.Slice:
		pc.bad = append(pc.bad, "a slice expression (truncation)")
	case *ssa.Index, *ssa.Lookup, *ssa.IndexAddr:
		pc.bad = append(pc.bad, "an index expression (a single element)")
	case *ssa.Convert:
		if narrowing(x.X.Type(), x.Type()) {
			pc.bad = append(pc.bad, "a narrowing conversion to "+x.Type().String())
			return
		}
		if bt, ok := x.X.Type().Underlying().(*types.Basic); ok && bt.Kind() == types.UnsafePointer {
			pc.addr = append(pc.addr, "a pointer converted to a number")
			return
		}
		pc.value(x.X, ri, d+1)
	case *ssa.Call:
		// a process-unique number: sync/atomic Add on a package-level counter nothing else writes
		if g, why, isAdd := atomicCounterAdd(pc.c, x); isAdd {
			if why != "" {
				pc.bad = append(pc.bad, why)
			} else {
				pc.srcs++
				pc.notes = append(pc.notes, "a process-unique number taken from counter "+g.Name()+" by sync/atomic Add (no other function writes the counter)")
			}
			return
		}
		switch staticID(x) {
		case "(reflect.Value).Pointer", "(reflect.Value).UnsafePointer", "(reflect.Value).UnsafeAddr":
			pc.addr = append(pc.addr, callName(x))
			return
		}
		// a wrapper delegating to the wrapped store: same container, same prefix
		if x.Call.IsInvoke() && x.Call.Method.Name() == "NodeURLPrefix" && ri != nil {
			if f, ok := ri.fieldOf(x.Call.Value); ok {
				if it := persistIface(pc.c); it != nil && types.Implements(x.Call.Value.Type(), it) && len(fieldStoresInMethods(pc.c, pc.b, f)) == 0 {
					pc.srcs++
					pc.notes = append(pc.notes, "delegates to the NodeURLPrefix of the wrapped store in field "+f+" (injective iff that one is)")
					return
				}
			}
		}
		id := staticID(x)
		args := x.Call.Args
		switch {
		case id == "fmt.Sprintf" || id == "fmt.Sprint":
			rest := args
			if id == "fmt.Sprintf" {
				format, ok := constString(args[0])
				if !ok {
					pc.und = append(pc.und, "a non-constant format")
					return
				}
				if ok, why := sprintfVerbsOK(format); !ok {
					pc.bad = append(pc.bad, "fmt.Sprintf with "+why)
					return
				}
				if strings.Contains(strings.ReplaceAll(format, "%%", ""), "%p") {
					pc.addr = append(pc.addr, "verb %p (an address)")
				}
				if adjacentVerbs(format) {
					pc.bad = append(pc.bad, "fmt.Sprintf with two verbs and no constant text between them (different pairs of components give the same text)")
				}
				rest = args[1:]
			}
			for _, a := range rest {
				if el := variadicElems(a); el != nil {
					for _, e := range el {
						pc.value(e, ri, d+1)
					}
				} else if !ir.IsNilConst(a) {
					pc.und = append(pc.und, "a variadic argument list built elsewhere")
				}
			}
		case prefixLossy[id]:
			pc.bad = append(pc.bad, callName(x)+" (keeps only part of its operand, or maps distinct operands to the same text: e.g. Join/Clean drop a trailing slash and collapse dots)")
		case prefixInjective[id]:
			for _, a := range args {
				if el := variadicElems(a); el != nil {
					for _, e := range el {
						pc.value(e, ri, d+1)
					}
				} else {
					pc.value(a, ri, d+1)
				}
			}
		default:
			// a helper of the repository: the value is whatever its returns compute (followed to depth 2)
			if h := ir.Callee(x.Call); h != nil && h.Blocks != nil && isOwn(pc.c.P, h) && len(pc.inCall) < maxHelperDepth && !pc.inCall[h] && len(args) == len(h.Params) {
				idx := 0
				if h.Signature.Results().Len() > 1 {
					idx = pc.exIdx
				}
				if pc.bind == nil {
					pc.bind = map[*ssa.Parameter]prefixArg{}
					pc.inCall = map[*ssa.Function]bool{}
				}
				for i, p := range h.Params {
					pc.bind[p] = prefixArg{args[i], ri}
				}
				pc.inCall[h] = true
				hri := newRecvInfo(h)
				n := 0
				var alts []ssa.Value
				for _, r := range ir.Returns(h) {
					if idx < len(r.Results) {
						n++
						alts = append(alts, r.Results[idx])
					}
				}
				pc.alternatives(alts, hri, d+1, "a return of helper "+h.Name())
				delete(pc.inCall, h)
				for _, p := range h.Params {
					delete(pc.bind, p)
				}
				if n == 0 {
					pc.und = append(pc.und, "helper "+callName(x)+", which never returns")
				}
				return
			}
			pc.bad = append(pc.bad, "a call of "+callName(x)+", which is not known to be injective (the identity may only be assembled by concatenation, full-width fmt verbs, strconv formatters and URL/hex escaping)")
		}
	case *ssa.Alloc:
		pc.addr = append(pc.addr, "the address of a local value")
	default:
		pc.und = append(pc.und, fmt.Sprintf("%T", v))
	}
}

// field: the prefix reads receiver field f. A location field read by
// Load/Store is complete by construction (CTORVERBATIM); a derived field must
// itself be assembled injectively by every function that stores it.
func (pc *prefixCheck) field(f string) {
	pc.depth++
	defer func() { pc.depth-- }()
	if pc.depth > 3 {
		return
	}
	stores := fieldStoresOf(pc.c, pc.b, f)
	if len(stores) == 0 {
		pc.srcs++ // never assigned in the package: set by the user of the struct
		return
	}
	for _, s := range fieldStoresInMethods(pc.c, pc.b, f) {
		pc.bad = append(pc.bad, "field "+f+", which "+ir.FuncName(s.Parent())+" reassigns after construction (the identity of a store must not change or be copied)")
	}
	before := pc.srcs
	none := ""
	for _, s := range stores {
		b0 := pc.srcs
		pc.value(s.Val, newRecvInfo(s.Parent()), 0)
		if pc.srcs == b0 {
			none = ir.FuncName(s.Parent())
		}
	}
	if pc.srcs > before && none != "" {
		pc.bad = append(pc.bad, "field "+f+", into which "+none+" stores a value that does not identify the store (a constant)")
	}
}

// alternatives: v is one of several values (φ edges, returns of a helper);
// each of them must identify the store — a constant alternative beside a
// unique one yields duplicates.
func (pc *prefixCheck) alternatives(vals []ssa.Value, ri *recvInfo, d int, what string) {
	before := pc.srcs
	constAlt := false
	for _, e := range vals {
		b0 := pc.srcs
		pc.value(e, ri, d)
		if pc.srcs == b0 {
			constAlt = true
		}
	}
	if pc.srcs > before && constAlt {
		pc.bad = append(pc.bad, what+" is a constant while another identifies the store: distinct stores can get the same value")
	}
}

func narrowing(from, to types.Type) bool {
	size := func(t types.Type) int {
		b, ok := t.Underlying().(*types.Basic)
		if !ok {
			return 0
		}
		switch b.Kind() {
		case types.Int8, types.Uint8:
			return 1
		case types.Int16, types.Uint16:
			return 2
		case types.Int32, types.Uint32:
			return 4
		case types.Int64, types.Uint64, types.Int, types.Uint, types.Uintptr:
			return 8
		}
		return 0
	}
	a, b := size(from), size(to)
	return a > 0 && b > 0 && b < a
}

// atomicCounterAdd recognises sync/atomic Add on a package-level counter
// (atomic.AddUint64(&g, k) or g.Add(k) for the typed atomics) with a positive
// constant increment. why is non-empty when the counter does not yield
// process-unique numbers: some function writes it other than by atomic Add.
func atomicCounterAdd(c *Ctx, call *ssa.Call) (g *ssa.Global, why string, ok bool) {
	id := staticID(call)
	isAdd := false
	switch id {
	case "sync/atomic.AddUint64", "sync/atomic.AddInt64", "sync/atomic.AddUint32", "sync/atomic.AddInt32", "sync/atomic.AddUintptr",
		"(*sync/atomic.Uint64).Add", "(*sync/atomic.Int64).Add", "(*sync/atomic.Uint32).Add", "(*sync/atomic.Int32).Add", "(*sync/atomic.Uintptr).Add":
		isAdd = true
	}
	if !isAdd || len(call.Call.Args) != 2 {
		return nil, "", false
	}
	g, isG := call.Call.Args[0].(*ssa.Global)
	if !isG {
		return nil, "sync/atomic Add on a counter that is not a package-level variable (" + ir.Sym(call.Call.Args[0]) + ")", true
	}
	k, isC := call.Call.Args[1].(*ssa.Const)
	if !isC || k.Value == nil || constant.Sign(k.Value) <= 0 {
		return g, "the increment of counter " + g.Name() + " is not a positive constant", true
	}
	// every other use of the counter is an atomic Add or an atomic Load
	for _, fn := range c.P.Funcs {
		for _, b := range fn.Blocks {
			for _, ins := range b.Instrs {
				uses := false
				for _, op := range ins.Operands(nil) {
					if op != nil && *op == ssa.Value(g) {
						uses = true
					}
				}
				if !uses {
					continue
				}
				okUse := false
				if ci, isCall := ins.(ssa.CallInstruction); isCall && len(ci.Common().Args) > 0 && ci.Common().Args[0] == ssa.Value(g) {
					switch cid := staticID(ci); {
					case strings.HasPrefix(cid, "sync/atomic.Add"), strings.HasPrefix(cid, "sync/atomic.Load"),
						strings.HasPrefix(cid, "(*sync/atomic.") && (strings.HasSuffix(cid, ").Add") || strings.HasSuffix(cid, ").Load")):
						okUse = true
						if strings.Contains(cid, "Add") {
							if kk, isK := ci.Common().Args[1].(*ssa.Const); !isK || kk.Value == nil || constant.Sign(kk.Value) <= 0 {
								okUse = false
							}
						}
					}
				}
				if u, isLoad := ins.(*ssa.UnOp); isLoad && u.Op == token.MUL && u.X == ssa.Value(g) {
					okUse = true // a plain read does not change the counter
				}
				if !okUse {
					return g, fmt.Sprintf("counter %s is also written or handed out by %s (%s): its values are not unique", g.Name(), ir.FuncName(fn), c.P.InstrPos(ins)), true
				}
			}
		}
	}
	return g, "", true
}

func runPREFIXIDENT(c *Ctx) {
	P := c.P
	for _, b := range backendImpls(c, backendPkgs...) {
		pfx := P.Method(b.pkg, b.named.Obj().Name(), "NodeURLPrefix")
		if pfx == nil {
			c.AnchorMissing("NodeURLPrefix of " + b.String())
			continue
		}
		rets := ir.Returns(pfx)
		if len(rets) == 0 {
			c.Undecided(pfx, P.Pos(pfx.Pos()), "no return", "NodeURLPrefix never returns")
			continue
		}
		// a directory named by a relative path is a different directory after os.Chdir: the
		// identity (and what Load/Store address) must be fixed when the store is made
		if b.pkg == ir.FilePath {
			for _, field := range configFields(c, b) {
				for _, s := range fieldStoresOf(c, b, field) {
					fn := s.Parent()
					if fn.Signature.Recv() != nil {
						continue
					}
					v := ir.Strip(ir.ResolveCell(s.Val))
					if p, isParam := v.(*ssa.Parameter); isParam && p.Parent() == fn && absFailedAt(p, s) {
						c.OK(P.InstrPos(s), "base path of "+b.String()+" (fallback)", "the parameter is kept only where filepath.Abs("+p.Name()+") failed", true)
					} else if isParam && p.Parent() == fn {
						c.Violation(fn, P.InstrPos(s), "base path not resolved: it names a different directory after a change of working directory",
							fmt.Sprintf("%s stores its %s parameter as given: a relative path (or \"\") is resolved again at every Load/Store/CreateTemp, so after os.Chdir the store reads another directory than it wrote, NodeURLPrefix names a different directory to a shared NodeCache, and an empty path sends the temp file to the system temp directory", ir.FuncName(fn), p.Name()))
					} else if p, ok := absOfParam(v, s); ok {
						c.OK(P.InstrPos(s), "base path of "+b.String()+" fixed at construction", "filepath.Abs("+p.Name()+") is stored (the parameter itself only if Abs fails)", false)
					}
				}
			}
		}
		ri := newRecvInfo(pfx)
		reached := map[*ssa.Parameter]bool{}
		clean := true
		defer func(b backendImpl, pfx *ssa.Function) {
			if clean {
				prefixCoversCtorParams(c, b, pfx, reached)
			}
		}(b, pfx)
		for _, r := range rets {
			if r.Block() == pfx.Recover || len(r.Results) != 1 {
				continue
			}
			pc := &prefixCheck{c: c, b: b}
			pc.value(r.Results[0], ri, 0)
			for p := range pc.params {
				reached[p] = true
			}
			if len(pc.addr)+len(pc.bad)+len(pc.und) > 0 || pc.srcs == 0 {
				clean = false
			}
			switch {
			case len(pc.addr) > 0:
				c.Violation(pfx, P.InstrPos(r), "prefix derived from a memory address",
					fmt.Sprintf("NodeURLPrefix of %s identifies the store by %s: an address is reused once the store has been collected, while a NodeCache shared with later stores lives on — the new store at the same address inherits the old one's cache entries and MakeRoot skips writing nodes it never stored", b.String(), strings.Join(uniq(pc.addr), "; ")))
			case len(pc.bad) > 0:
				c.Violation(pfx, P.InstrPos(r), "prefix not injective in the store location",
					fmt.Sprintf("NodeURLPrefix of %s passes the store's location through %s: two stores at different locations can report the same prefix, and with a shared NodeCache a node flushed to one is then never written to the other", b.String(), strings.Join(uniq(pc.bad), "; ")))
			case len(pc.und) > 0:
				c.Undecided(pfx, P.InstrPos(r), "prefix construction", "cannot decide whether the prefix is injective: it involves "+strings.Join(uniq(pc.und), "; "))
			case pc.srcs == 0:
				c.Violation(pfx, P.InstrPos(r), "prefix is a constant",
					fmt.Sprintf("NodeURLPrefix of %s does not depend on the store at all: every instance reports the same prefix, so with a shared NodeCache a node flushed to one store is never written to another", b.String()))
			case len(pc.notes) > 0:
				c.OK(P.InstrPos(r), "NodeURLPrefix of "+b.String(), strings.Join(uniq(pc.notes), "; "), false)
			default:
				c.OK(P.InstrPos(r), "NodeURLPrefix of "+b.String(), "assembled from complete configuration fields by concatenation and full-width verbs only", false)
			}
		}
	}
}

// fieldStoresInMethods: stores into field f of T outside constructors.
func fieldStoresInMethods(c *Ctx, b backendImpl, f string) []*ssa.Store {
	var out []*ssa.Store
	for _, s := range fieldStoresOf(c, b, f) {
		fa := s.Addr.(*ssa.FieldAddr)
		if _, fresh := fa.X.(*ssa.Alloc); !fresh || s.Parent().Signature.Recv() != nil {
			out = append(out, s)
		}
	}
	return out
}

// ===========================================================================
// WRAPVERBATIM

func init() {
	Register(&Rule{
		ID: "WRAPVERBATIM", Props: []string{"C18"}, Min: 0,
		Doc: "a mast.Persist implementation that delegates Load/Store to another Persist held in a field (a wrapper) passes its own name and " +
			"bytes parameters through unchanged to the same method of the wrapped store, so that it honours the node-store contract iff the " +
			"wrapped store does (the returned data and error are MISSERR's and ERRPROP_BACKEND's clauses).",
		Run: runWRAPVERBATIM,
	})
}

func runWRAPVERBATIM(c *Ctx) {
	P := c.P
	it := persistIface(c)
	if it == nil {
		return
	}
	for _, b := range backendImpls(c, backendPkgs...) {
		for _, m := range []struct {
			fn   *ssa.Function
			name string
		}{{b.load, "Load"}, {b.store, "Store"}} {
			root := rootFrame(P, m.fn)
			frameCalls(root, func(call *ssa.Call, fr *frame) {
				com := call.Call
				if !com.IsInvoke() || !types.Implements(com.Value.Type(), it) {
					return
				}
				if _, isIface := com.Value.Type().Underlying().(*types.Interface); !isIface {
					return
				}
				what := fmt.Sprintf("delegated %s in %s", com.Method.Name(), ir.FuncName(m.fn))
				switch com.Method.Name() {
				case "Load", "Store":
				default:
					return
				}
				if com.Method.Name() != m.name {
					c.Violation(fr.fn, P.InstrPos(call), m.name+" delegates to "+com.Method.Name(), fmt.Sprintf("%s of the wrapper calls %s of the wrapped store", m.name, com.Method.Name()))
					return
				}
				if len(com.Args) < 2 || !isRootParam(com.Args[1], fr, 2) {
					c.Violation(fr.fn, P.InstrPos(call), "wrapper changes the name",
						fmt.Sprintf("%s passes %s instead of its own name parameter to the wrapped store: nodes are stored or looked up under a different name than the caller's", ir.FuncName(m.fn), descFval(expand(com.Args[1], fr))))
					return
				}
				if m.name == "Store" && (len(com.Args) < 3 || !isRootParam(com.Args[2], fr, 3)) {
					c.Violation(fr.fn, P.InstrPos(call), "wrapper changes the bytes",
						fmt.Sprintf("%s passes %s instead of its own bytes parameter to the wrapped store: what is loaded later is not what was stored", ir.FuncName(m.fn), descFval(expand(com.Args[2], fr))))
					return
				}
				c.OK(P.InstrPos(call), what, "name (and bytes) parameters passed through verbatim", false)
			})
		}
	}
}

// ===========================================================================
// READWHOLE

func init() {
	Register(&Rule{
		ID: "READWHOLE", Props: []string{"C18", "C17"}, Min: 3,
		Doc: "the bytes a backend Load returns with a nil error are the complete stored content: the result of os.ReadFile, or of io.ReadAll " +
			"applied directly to the opened file / the response body (no io.LimitReader, SectionReader, fixed-size Read, line reader or CopyN in " +
			"between), or the map element itself, and never a reslice of it; the in-memory Store keeps exactly its bytes parameter under its name parameter.",
		Run: runREADWHOLE,
	})
}

func runREADWHOLE(c *Ctx) {
	P := c.P
	for _, b := range backendImpls(c, backendPkgs...) {
		fn := b.load
		if len(fn.Params) < 3 || ir.ErrorResultIndex(fn.Signature) != 1 {
			c.Undecided(fn, P.Pos(fn.Pos()), "signature", "Load does not have the shape (recv, ctx, name) ([]byte, error)")
			continue
		}
		missErrFunc(c, rootFrame(P, fn), map[*ssa.Function]bool{}, true)
		// a store that keeps nodes in a map keeps the whole slice under the name
		if len(b.store.Params) < 4 {
			continue
		}
		frameInstrs(rootFrame(P, b.store), func(ins ssa.Instruction, fr *frame) {
			mu, ok := ins.(*ssa.MapUpdate)
			if !ok {
				return
			}
			held, known := containedSlices(mu.Value)
			if known && len(held) == 0 {
				return
			}
			what := "map update in " + ir.FuncName(fr.fn)
			var notBytes ssa.Value
			for _, hv := range held {
				if !isRootParam(hv, fr, 3) && !copyOfRootParam(hv, fr, 3) {
					notBytes = hv
				}
			}
			switch {
			case !known:
				c.Undecided(fr.fn, P.InstrPos(mu), "stored value", "the value put into the map is a struct built where the rule cannot see its fields")
			case !isRootParam(mu.Key, fr, 2):
				c.Violation(fr.fn, P.InstrPos(mu), "stored under something other than the name", "Store keeps the node under "+descFval(expand(mu.Key, fr))+" instead of its name parameter")
			case notBytes != nil:
				c.Violation(fr.fn, P.InstrPos(mu), "stored value is not the bytes parameter", "Store keeps "+descFval(expand(notBytes, fr))+" instead of exactly its bytes parameter: a later Load cannot return the complete content")
			default:
				c.OK(P.InstrPos(mu), what, "the complete bytes parameter (or a complete copy of it) is kept under the name parameter", false)
			}
		})
	}
}

// readers that hand on only part of their source
var truncatingReaders = map[string]string{
	"io.LimitReader":          "io.LimitReader (content beyond the limit is silently dropped)",
	"io.NewSectionReader":     "io.NewSectionReader (a section of the source)",
	"net/http.MaxBytesReader": "http.MaxBytesReader",
}

// wrappers through which io.ReadAll still sees the whole source
var transparentReaders = map[string]bool{
	"bufio.NewReader": true, "bufio.NewReaderSize": true, "io.NopCloser": true, "io/ioutil.NopCloser": true, "io.TeeReader": true,
}

// calls whose first result is only a piece of what their source holds
var partialProducers = map[string]string{
	"(*bufio.Reader).ReadLine":   "one line",
	"(*bufio.Reader).ReadBytes":  "the bytes up to a delimiter",
	"(*bufio.Reader).ReadSlice":  "the bytes up to a delimiter",
	"(*bufio.Reader).ReadString": "the text up to a delimiter",
	"(*bufio.Reader).Peek":       "a prefix",
	"(*bufio.Scanner).Bytes":     "one token",
	"(*bytes.Buffer).Next":       "a prefix",
	"(*bytes.Buffer).ReadBytes":  "the bytes up to a delimiter",
}

// wholeProducer classifies the call whose first result is the returned data.
func wholeProducer(c *Ctx, call *ssa.Call, fr *frame) (bad, und, ok []string) {
	id := staticID(call)
	switch id {
	case "os.ReadFile", "io/ioutil.ReadFile":
		return nil, nil, []string{callName(call) + " reads the whole file"}
	case "io.ReadAll", "io/ioutil.ReadAll":
		return wholeReader(c, call.Call.Args[0], fr, 0)
	}
	if what, isPartial := partialProducers[id]; isPartial {
		return []string{callName(call) + " yields " + what + ", not the whole content"}, nil, nil
	}
	if call.Call.IsInvoke() && call.Call.Method.Name() == "Load" {
		if it := persistIface(c); it != nil && types.Implements(call.Call.Value.Type(), it) {
			return nil, nil, []string{"the data of the wrapped store's Load, returned as is"}
		}
	}
	if fr.child(call) != nil {
		return nil, nil, []string{"the data returned by helper " + callName(call) + " (checked there)"}
	}
	return nil, []string{"the data is produced by " + callName(call) + ", of which the rule does not know whether it yields the complete content"}, nil
}

// wholeReader: io.ReadAll(v) reads everything that was stored.
func wholeReader(c *Ctx, v ssa.Value, fr *frame, d int) (bad, und, ok []string) {
	if d > 6 {
		return nil, []string{"reader nesting too deep"}, nil
	}
	x := expand(v, fr)
	switch y := x.v.(type) {
	case *ssa.Extract:
		if call, isCall := y.Tuple.(*ssa.Call); isCall && y.Index == 0 {
			switch staticID(call) {
			case "os.Open", "os.OpenFile":
				if why := fileReadElsewhere(y); why != "" {
					return []string{why}, nil, nil
				}
				return nil, nil, []string{"io.ReadAll directly on the opened file"}
			}
		}
	case *ssa.UnOp:
		if y.Op == token.MUL {
			if fa, isFA := y.X.(*ssa.FieldAddr); isFA {
				if _, isIface := y.Type().Underlying().(*types.Interface); isIface {
					return nil, nil, []string{"io.ReadAll directly on the " + ir.FieldName(fa.X.Type(), fa.Field) + " stream of the response"}
				}
			}
		}
	case *ssa.Call:
		id := staticID(y)
		if why, isTrunc := truncatingReaders[id]; isTrunc {
			return []string{"the source is wrapped in " + why}, nil, nil
		}
		if transparentReaders[id] && len(y.Call.Args) > 0 {
			return wholeReader(c, y.Call.Args[0], x.fr, d+1)
		}
		return nil, []string{"the source of io.ReadAll is " + descFval(x)}, nil
	case *ssa.Alloc:
		if pt, isP := y.Type().Underlying().(*types.Pointer); isP {
			if n, isN := types.Unalias(pt.Elem()).(*types.Named); isN && n.Obj().Pkg() != nil && n.Obj().Pkg().Path() == "io" {
				switch n.Obj().Name() {
				case "LimitedReader", "SectionReader":
					return []string{"the source is an io." + n.Obj().Name()}, nil, nil
				}
			}
		}
	}
	return nil, []string{"the source of io.ReadAll is " + descFval(x)}, nil
}

// fileReadElsewhere: the *os.File f is also read, written or positioned by
// another call, so ReadAll does not start at the beginning.
func fileReadElsewhere(f ssa.Value) string {
	if f.Referrers() == nil {
		return ""
	}
	for _, r := range *f.Referrers() {
		ci, ok := r.(ssa.CallInstruction)
		if !ok {
			continue
		}
		id := staticID(ci)
		if !strings.HasPrefix(id, "(*os.File).") {
			continue
		}
		switch strings.TrimPrefix(id, "(*os.File).") {
		case "Close", "Stat", "Name", "Fd", "Chmod", "SetDeadline", "SetReadDeadline", "Sync":
		default:
			return "the file is also accessed by " + callName(ci) + ", so io.ReadAll need not see the content from its beginning"
		}
	}
	return ""
}

// bufferFill: bytesCall is buf.Bytes() of a local bytes.Buffer that is filled
// by exactly one copy; it returns that call and its kind.
func bufferFill(bytesCall *ssa.Call) (*ssa.Call, string) {
	if staticID(bytesCall) != "(*bytes.Buffer).Bytes" || len(bytesCall.Call.Args) != 1 {
		return nil, ""
	}
	buf, ok := bytesCall.Call.Args[0].(*ssa.Alloc)
	if !ok || buf.Referrers() == nil {
		return nil, ""
	}
	var fill *ssa.Call
	kind := ""
	uses := func(call *ssa.Call) bool {
		for _, a := range call.Call.Args {
			if ir.Strip(a) == ssa.Value(buf) {
				return true
			}
		}
		return false
	}
	for _, b := range buf.Parent().Blocks {
		for _, ins := range b.Instrs {
			call, ok := ins.(*ssa.Call)
			if !ok || call == bytesCall || !uses(call) {
				continue
			}
			switch id := staticID(call); id {
			case "io.Copy", "io.CopyBuffer", "io.CopyN", "(*bytes.Buffer).ReadFrom":
				if fill != nil {
					return nil, ""
				}
				fill, kind = call, id
			case "(*bytes.Buffer).Len", "(*bytes.Buffer).Grow":
			default:
				return nil, ""
			}
		}
	}
	return fill, kind
}

// wholeCopy classifies the copy that fills the returned buffer.
func wholeCopy(c *Ctx, fill *ssa.Call, kind string, fr *frame) (bad, und, ok []string) {
	switch kind {
	case "io.CopyN":
		return []string{"io.CopyN copies at most a fixed number of bytes"}, nil, nil
	case "io.Copy", "io.CopyBuffer", "(*bytes.Buffer).ReadFrom":
		return wholeReader(c, fill.Call.Args[1], fr, 0)
	}
	return nil, []string{"the buffer is filled by " + callName(fill)}, nil
}

// copyOfRootParam: v is a complete copy of parameter #idx of the root method.
func copyOfRootParam(v ssa.Value, fr *frame, idx int) bool {
	x := expand(v, fr)
	src, ok := copyOf(x.v)
	return ok && isRootParam(src, x.fr, idx)
}

// absOfParam: v (stored by store instruction st) is the absolute form of a
// parameter p and nothing else: result #0 of filepath.Abs(p) on the edge on
// which its error is nil, else p itself.
func absOfParam(v ssa.Value, st ssa.Instruction) (*ssa.Parameter, bool) {
	absResult := func(x ssa.Value) (*ssa.Parameter, *ssa.Call) {
		ex, ok := x.(*ssa.Extract)
		if !ok || ex.Index != 0 {
			return nil, nil
		}
		call, ok := ex.Tuple.(*ssa.Call)
		if !ok || staticID(call) != "path/filepath.Abs" || len(call.Call.Args) != 1 {
			return nil, nil
		}
		p, _ := ir.Strip(call.Call.Args[0]).(*ssa.Parameter)
		return p, call
	}
	errNilAt := func(b *ssa.BasicBlock, call *ssa.Call) bool {
		e := extractOf(call, 1)
		if e == nil {
			return false
		}
		for _, f := range ir.FactsAt(b) {
			if tv, tnn, ok := ir.NilTest(f.Cond); ok && tv == ssa.Value(e) && f.Truth != tnn {
				return true
			}
		}
		return false
	}
	switch x := v.(type) {
	case *ssa.Extract:
		if p, call := absResult(x); p != nil && errNilAt(st.Block(), call) {
			return p, true
		}
	case *ssa.Phi:
		var param *ssa.Parameter
		nAbs := 0
		for i, e := range x.Edges {
			e = ir.Strip(e)
			if p, ok := e.(*ssa.Parameter); ok {
				if param != nil && param != p {
					return nil, false
				}
				param = p
				continue
			}
			p, call := absResult(e)
			if p == nil || (param != nil && param != p) || !errNilAt(x.Block().Preds[i], call) {
				return nil, false
			}
			param = p
			nAbs++
		}
		if param != nil && nAbs > 0 {
			return param, true
		}
	}
	return nil, false
}

// ===========================================================================
// STOREALIAS

func init() {
	Register(&Rule{
		ID: "STOREALIAS", Props: []string{"C18", "C02"}, Min: 2,
		Doc: "a backend does not share byte slices with its callers: Store never keeps its bytes parameter (or a reslice of it) in state " +
			"reachable from the receiver after it returns — only a complete copy — and Load never returns a slice that is (part of) the stored " +
			"state; otherwise reusing the buffer after Store, or writing into what Load returned, changes the stored node.",
		Run: runSTOREALIAS,
	})
}

// receiverState: addr/map value m (in frame fr) is memory reachable from the
// root method's receiver: a receiver field, a map or slice loaded from one,
// or a fresh map that the function also stores into a receiver field.
func receiverState(v ssa.Value, fr *frame) (string, bool) {
	x := expand(v, fr)
	recvField := func(a ssa.Value, f *frame) (string, bool) {
		if f.recv == nil || !isRootRecv(f) {
			return "", false
		}
		if n, ok := f.recv.fieldOf(a); ok {
			return n, true
		}
		return f.recv.fieldAddrOf(a)
	}
	if f, ok := recvField(x.v, x.fr); ok {
		return f, true
	}
	switch y := x.v.(type) {
	case *ssa.IndexAddr:
		return receiverState(y.X, x.fr)
	case *ssa.FieldAddr:
		return receiverState(y.X, x.fr)
	case *ssa.MakeMap, *ssa.MakeSlice, *ssa.Alloc:
		if y.(ssa.Value).Referrers() != nil {
			for _, r := range *y.(ssa.Value).Referrers() {
				if st, ok := r.(*ssa.Store); ok && st.Val == x.v {
					if f, ok := recvField(st.Addr, x.fr); ok {
						return f, true
					}
				}
			}
		}
	}
	return "", false
}

func runSTOREALIAS(c *Ctx) {
	P := c.P
	for _, b := range backendImpls(c, backendPkgs...) {
		// ---- Store: the parameter slice must not outlive the call in the receiver's state
		if len(b.store.Params) >= 4 {
			kept := 0
			frameInstrs(rootFrame(P, b.store), func(ins ssa.Instruction, fr *frame) {
				var val, where ssa.Value
				switch x := ins.(type) {
				case *ssa.MapUpdate:
					val, where = x.Value, x.Map
				case *ssa.Store:
					val, where = x.Val, x.Addr
				default:
					return
				}
				held, known := containedSlices(val)
				if known && len(held) == 0 {
					return
				}
				field, isState := receiverState(where, fr)
				if !isState {
					return
				}
				x := expand(val, fr)
				var srcs []fval
				var unknown []string
				if !known {
					unknown = append(unknown, "a struct built where the rule cannot see its fields")
				}
				for _, hv := range held {
					hx := expand(hv, fr)
					s2, u2 := aliasSources(hx.v, hx.fr, 0)
					srcs, unknown = append(srcs, s2...), append(unknown, u2...)
				}
				aliased := false
				for _, sv := range srcs {
					if isRootParam(sv.v, sv.fr, 3) {
						aliased = true
					}
				}
				kept++
				switch {
				case aliased:
					c.Violation(fr.fn, P.InstrPos(ins), "Store keeps the caller's slice",
						fmt.Sprintf("%s puts its bytes parameter itself (%s) into %s: the stored node shares its backing array with the caller's buffer, so reusing the buffer after Store changes what a later Load returns", ir.FuncName(b.store), descFval(x), field))
				case len(unknown) > 0:
					c.Undecided(fr.fn, P.InstrPos(ins), "slice kept in "+field, "cannot establish that the slice kept in the receiver's state shares no memory with the caller's: it comes from "+strings.Join(uniq(unknown), "; "))
				default:
					c.OK(P.InstrPos(ins), "value kept in "+field+" by "+ir.FuncName(fr.fn), "a fresh slice (a complete copy or newly allocated), not the caller's", false)
				}
			})
			if kept == 0 {
				c.OK(P.Pos(b.store.Pos()), "Store of "+b.String(), "keeps no slice in the receiver's state (the bytes are consumed before it returns)", true)
			}
		}
		// ---- Load: the returned slice must not be (part of) the stored state
		fn := b.load
		if ir.ErrorResultIndex(fn.Signature) != 1 {
			continue
		}
		srs, ov := successReturns(fn)
		if ov {
			c.Undecided(fn, P.Pos(fn.Pos()), "paths", "path exploration exceeded its bound")
			continue
		}
		root := rootFrame(P, fn)
		seen := map[*ssa.Return]bool{}
		for _, sr := range srs {
			if len(sr.vals) != 2 || seen[sr.r] {
				continue
			}
			seen[sr.r] = true
			x := expand(sr.vals[0], root)
			srcs, _ := aliasSources(x.v, x.fr, 0)
			if len(srcs) == 0 {
				c.OK(P.InstrPos(sr.r), "data returned by "+ir.FuncName(fn), "a fresh slice (a private copy, or freshly read)", false)
				continue
			}
			state := ""
			for _, base := range srcs {
				switch y := base.v.(type) {
				case *ssa.Extract:
					if lk, ok := y.Tuple.(*ssa.Lookup); ok && y.Index == 0 {
						if f, ok := receiverState(lk.X, base.fr); ok {
							state = f
						}
					}
				case *ssa.Lookup:
					if f, ok := receiverState(y.X, base.fr); ok {
						state = f
					}
				case *ssa.UnOp:
					if y.Op == token.MUL {
						if f, ok := receiverState(y.X, base.fr); ok {
							state = f
						}
					}
				}
			}
			if state != "" {
				c.Violation(fn, P.InstrPos(sr.r), "Load returns the stored slice itself",
					fmt.Sprintf("%s hands out the slice held in %s (%s): a caller that writes into the result changes the stored node for every later Load", ir.FuncName(fn), state, descFval(x)))
			} else {
				c.OK(P.InstrPos(sr.r), "data returned by "+ir.FuncName(fn), "not part of the receiver's state (freshly read or produced by a callee)", true)
			}
		}
	}
}

// absFailedAt: instruction st is reached only when filepath.Abs(p) returned a non-nil error.
func absFailedAt(p *ssa.Parameter, st ssa.Instruction) bool {
	for _, b := range st.Parent().Blocks {
		for _, ins := range b.Instrs {
			call, ok := ins.(*ssa.Call)
			if !ok || staticID(call) != "path/filepath.Abs" || len(call.Call.Args) != 1 || ir.Strip(call.Call.Args[0]) != ssa.Value(p) {
				continue
			}
			e := extractOf(call, 1)
			if e == nil {
				continue
			}
			for _, f := range ir.FactsAt(st.Block()) {
				if tv, tnn, ok := ir.NilTest(f.Cond); ok && tv == ssa.Value(e) && f.Truth == tnn {
					return true
				}
			}
		}
	}
	return false
}

// prefixCoversCtorParams: every string parameter of a constructor of the
// backend (a function that builds a fresh value of the type and fills its
// fields) selects where the objects live — endpoint, bucket, prefix, path —
// and must flow into the identity NodeURLPrefix reports; otherwise two stores
// differing only in that parameter share the keys of a common NodeCache.
func prefixCoversCtorParams(c *Ctx, b backendImpl, pfx *ssa.Function, reached map[*ssa.Parameter]bool) {
	P := c.P
	ctors := map[*ssa.Function]bool{}
	st, _ := b.named.Underlying().(*types.Struct)
	if st == nil {
		return
	}
	for i := 0; i < st.NumFields(); i++ {
		for _, s := range fieldStoresOf(c, b, st.Field(i).Name()) {
			fn := s.Parent()
			fa := s.Addr.(*ssa.FieldAddr)
			if _, fresh := fa.X.(*ssa.Alloc); fresh && fn.Signature.Recv() == nil && fn.Parent() == nil {
				ctors[fn] = true
			}
		}
	}
	var list []*ssa.Function
	for fn := range ctors {
		list = append(list, fn)
	}
	sort.Slice(list, func(i, j int) bool { return list[i].Pos() < list[j].Pos() })
	for _, fn := range list {
		for _, p := range fn.Params {
			if !isStringType(p.Type()) {
				continue
			}
			if reached[p] {
				c.OK(P.Pos(fn.Pos()), "parameter "+p.Name()+" of "+ir.FuncName(fn), "flows into the identity reported by NodeURLPrefix", false)
				continue
			}
			c.Violation(fn, P.Pos(fn.Pos()), "prefix ignores parameter "+p.Name(),
				fmt.Sprintf("the identity %s reports does not depend on parameter %s of %s: two stores that differ only in it (another service, bucket, key prefix or directory) share the keys of a common NodeCache, and a node flushed to one is never written to the other", ir.FuncName(pfx), p.Name(), ir.FuncName(fn)))
		}
	}
}

// adjacentVerbs: the format has two verbs with no literal text between them.
func adjacentVerbs(format string) bool {
	prevVerb := false
	for i := 0; i < len(format); i++ {
		if format[i] != '%' {
			prevVerb = false
			continue
		}
		if i+1 < len(format) && format[i+1] == '%' {
			i++
			prevVerb = false // a literal percent sign
			continue
		}
		if prevVerb {
			return true
		}
		i++ // the verb letter (flags/width are rejected elsewhere)
		prevVerb = true
	}
	return false
}

// ===========================================================================
// STOREWRITES

func init() {
	Register(&Rule{
		ID: "STOREWRITES", Props: []string{"C18", "C03"}, Min: 3,
		Doc: "in every backend's Store, each feasible path to a success (nil error) return has performed the backend's write: the PutObject " +
			"request (S3), the insert into the receiver's map (in-memory), the delegated Store (wrapper); for the file store the temp+rename " +
			"sequence or the Stat-of-the-final-path shortcut is ATOMICFILE's clause. No success is reported on the strength of a memo or other " +
			"state that does not belong to this store; package-level mutable state that Load/Store consult is reported by itself.",
		Run: runSTOREWRITES,
	})
}

// storeWriteEvent: ins (in frame fr) is the write of the backend.
func storeWriteEvent(c *Ctx, ins ssa.Instruction, fr *frame) string {
	switch x := ins.(type) {
	case *ssa.MapUpdate:
		if held, known := containedSlices(x.Value); !known || len(held) > 0 {
			if f, ok := receiverState(x.Map, fr); ok {
				return "insert into " + f
			}
		}
	case *ssa.Call:
		if fr.child(x) != nil {
			return ""
		}
		for _, a := range x.Call.Args {
			if namedFrom(a.Type(), awsS3Pkg, "PutObjectInput") && isPointer(a.Type()) {
				return callName(x)
			}
		}
		if x.Call.IsInvoke() && x.Call.Method.Name() == "Store" {
			if it := persistIface(c); it != nil && types.Implements(x.Call.Value.Type(), it) {
				return "Store of the wrapped store"
			}
		}
		if staticID(x) == "os.Rename" {
			return "os.Rename"
		}
	}
	return ""
}

// storeWritesFunc checks the function of frame fr and returns the name of the
// write it (or a helper) performs ("" if none) and whether all its success
// returns are preceded by it.
func storeWritesFunc(c *Ctx, fr *frame, done map[*frame]string) (event string, sound bool) {
	P := c.P
	fn := fr.fn
	if ev, ok := done[fr]; ok {
		return ev, true
	}
	done[fr] = ""
	events := map[ssa.Instruction]string{}
	for _, b := range fn.Blocks {
		if b == fn.Recover {
			continue
		}
		for _, ins := range b.Instrs {
			if ev := storeWriteEvent(c, ins, fr); ev != "" {
				events[ins] = ev
				event = ev
			}
			if call, ok := ins.(*ssa.Call); ok {
				if k := fr.child(call); k != nil {
					if ev, _ := storeWritesFunc(c, k, done); ev != "" {
						events[ins] = ev + " (in " + k.fn.Name() + ")"
						event = ev
					}
				}
			}
		}
	}
	done[fr] = event
	if event == "" {
		return "", true
	}
	ei := ir.ErrorResultIndex(fn.Signature)
	bad := map[*ssa.Return]string{}
	var order, okRets []*ssa.Return
	seenOK := map[*ssa.Return]bool{}
	w := &pwalker{fn: fn}
	w.onInstr = func(st *pstate, ins ssa.Instruction) {
		if _, ok := events[ins]; ok {
			st.aux = "W"
		}
	}
	w.onReturn = func(st *pstate, r *ssa.Return) {
		if ei >= 0 && ei < len(r.Results) && nilness(st, r.Results[ei]) == triYes {
			return
		}
		if st.aux == "W" {
			if !seenOK[r] {
				seenOK[r] = true
				okRets = append(okRets, r)
			}
			return
		}
		if _, seen := bad[r]; !seen {
			bad[r] = st.pathString()
			order = append(order, r)
		}
	}
	w.run()
	if w.overflow {
		c.Undecided(fn, P.Pos(fn.Pos()), "paths", "path exploration exceeded its bound")
		return event, false
	}
	for _, r := range order {
		c.Violation(fn, P.InstrPos(r), "success return without "+event,
			fmt.Sprintf("%s can report success on a path (%s) on which it has not performed its write (%s): a memo, a flag or state that does not belong to this store decides that the node is already there, so a node is reported stored in a store that does not hold it", ir.FuncName(fn), bad[r], event), bad[r])
	}
	for _, r := range okRets {
		if _, isBad := bad[r]; !isBad {
			c.OK(P.InstrPos(r), "success return of "+ir.FuncName(fn), "every feasible path to it performs "+event, false)
		}
	}
	return event, len(order) == 0
}

func runSTOREWRITES(c *Ctx) {
	P := c.P
	impls := backendImpls(c, backendPkgs...)
	for _, b := range impls {
		if b.pkg == ir.FilePath {
			c.OK(P.Pos(b.store.Pos()), "Store of "+b.String(), "the write before success (temp+sync+close+rename, or Stat of the final path) is decided by ATOMICFILE", true)
			continue
		}
		ev, _ := storeWritesFunc(c, rootFrame(P, b.store), map[*frame]string{})
		if ev == "" {
			c.Undecided(b.store, P.Pos(b.store.Pos()), "no write recognised", "Store performs no PutObject request, map insert into the receiver's state or delegated Store that the rule recognises")
		}
	}
	// package-level mutable state consulted by Load/Store
	reach := map[*ssa.Function]bool{}
	for _, fn := range backendFuncs(c, impls) {
		reach[fn] = true
	}
	seen := map[*ssa.Global]bool{}
	for _, fn := range c.P.Funcs {
		if !reach[fn] {
			continue
		}
		for _, blk := range fn.Blocks {
			for _, ins := range blk.Instrs {
				for _, op := range ins.Operands(nil) {
					if op == nil || *op == nil {
						continue
					}
					g, ok := (*op).(*ssa.Global)
					if !ok || seen[g] || g.Pkg == nil || !isOwn(c.P, fn) || g.Pkg != fn.Pkg {
						continue
					}
					seen[g] = true
					if why := mutableGlobal(c, g); why != "" {
						c.Violation(fn, P.InstrPos(ins), "package-level state "+g.Name()+" used by a backend",
							fmt.Sprintf("%s consults package-level variable %s, which is %s: it is shared by every store of the process (other buckets, directories, instances), so what one store did changes what another reports", ir.FuncName(fn), g.Name(), why))
					} else {
						c.OK(P.InstrPos(ins), "package-level "+g.Name()+" in "+ir.FuncName(fn), "never written after initialisation", true)
					}
				}
			}
		}
	}
}

// mutableGlobal: g is state that changes after package initialisation.
func mutableGlobal(c *Ctx, g *ssa.Global) string {
	elem := g.Type().Underlying().(*types.Pointer).Elem()
	if n, ok := types.Unalias(elem).(*types.Named); ok && n.Obj().Pkg() != nil {
		switch n.Obj().Pkg().Path() {
		case "sync", "sync/atomic":
			if n.Obj().Name() != "Pool" && n.Obj().Name() != "Once" {
				return "a " + n.Obj().Pkg().Name() + "." + n.Obj().Name() + " (mutable by construction)"
			}
		}
	}
	for _, fn := range c.P.Funcs {
		for _, blk := range fn.Blocks {
			for _, ins := range blk.Instrs {
				switch x := ins.(type) {
				case *ssa.Store:
					if x.Addr == ssa.Value(g) {
						return "assigned by " + ir.FuncName(fn)
					}
					// store through an element/field address derived from the global
					if root := addrRoot(x.Addr); root == ssa.Value(g) {
						return "modified by " + ir.FuncName(fn)
					}
				case *ssa.MapUpdate:
					if u, ok := x.Map.(*ssa.UnOp); ok && u.X == ssa.Value(g) {
						return "a map updated by " + ir.FuncName(fn)
					}
				}
			}
		}
	}
	return ""
}

// addrRoot follows FieldAddr/IndexAddr (and loads of slices/pointers) to the variable an address lies in.
func addrRoot(v ssa.Value) ssa.Value {
	for i := 0; i < 8; i++ {
		switch x := v.(type) {
		case *ssa.FieldAddr:
			v = x.X
		case *ssa.IndexAddr:
			v = x.X
		case *ssa.UnOp:
			if x.Op != token.MUL {
				return v
			}
			v = x.X
		default:
			return v
		}
	}
	return v
}

// aliasSources lists the values whose backing array the slice v (in frame fr)
// may share: reslices are stripped, complete copies and fresh allocations have
// no source, a call of a repository helper has the sources of all its returns
// (its parameters standing for the arguments). unknown names producers the
// rule cannot classify (calls outside the repository that may return a
// sub-slice of an argument).
func aliasSources(v ssa.Value, fr *frame, d int) (srcs []fval, unknown []string) {
	if d > 6 {
		return nil, []string{"nesting too deep"}
	}
	x := expand(sliceRoot(v), fr)
	if x.v != sliceRoot(x.v) {
		return aliasSources(x.v, x.fr, d+1)
	}
	if _, isCopy := copyOf(x.v); isCopy {
		return nil, nil
	}
	if sv, ok := fieldOfLocalStruct(x.v); ok {
		// a field of a struct value held in a local: it shares memory with whatever that value is
		// (e.g. blob.bytes of the element found in the receiver's map)
		return []fval{expand(sv, x.fr)}, nil
	}
	switch y := x.v.(type) {
	case *ssa.Const, *ssa.MakeSlice, *ssa.Alloc:
		return nil, nil
	case *ssa.Phi:
		for _, e := range y.Edges {
			s2, u2 := aliasSources(e, x.fr, d+1)
			srcs, unknown = append(srcs, s2...), append(unknown, u2...)
		}
		return
	case *ssa.Call:
		if b, isB := y.Call.Value.(*ssa.Builtin); isB && b.Name() == "append" {
			return aliasSources(y.Call.Args[0], x.fr, d+1) // append may write into the first operand's array
		}
		if k := x.fr.child(y); k != nil {
			n := 0
			for _, r := range ir.Returns(k.fn) {
				if len(r.Results) == 0 {
					continue
				}
				n++
				s2, u2 := aliasSources(r.Results[0], k, d+1)
				srcs, unknown = append(srcs, s2...), append(unknown, u2...)
			}
			if n == 0 {
				unknown = append(unknown, "helper "+callName(y)+" without a return")
			}
			return
		}
		switch staticID(y) {
		case "os.ReadFile", "io/ioutil.ReadFile", "io.ReadAll", "io/ioutil.ReadAll", "(*bytes.Buffer).Bytes":
			return nil, nil
		}
		if y.Call.IsInvoke() {
			return nil, nil // the result of another store/service: that one's own contract
		}
		return nil, []string{"a call of " + callName(y)}
	case *ssa.Extract:
		if call, ok := y.Tuple.(*ssa.Call); ok {
			if k := x.fr.child(call); k != nil {
				n := 0
				for _, r := range ir.Returns(k.fn) {
					if y.Index < len(r.Results) {
						n++
						s2, u2 := aliasSources(r.Results[y.Index], k, d+1)
						srcs, unknown = append(srcs, s2...), append(unknown, u2...)
					}
				}
				if n == 0 {
					unknown = append(unknown, "helper "+callName(call)+" without a return")
				}
				return
			}
			if _, isLk := y.Tuple.(*ssa.Lookup); !isLk {
				return nil, nil // freshly produced by a library or service call (ReadFile, ReadAll, wrapped Load)
			}
		}
	}
	return []fval{x}, nil
}
