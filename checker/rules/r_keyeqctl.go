package rules

// KEYEQ, second clause (adversary 19, a1): the `changed` decision of the entry
// diff is taken by reflect.DeepEqual alone. The first clause (runKEYEQ in
// r_diff.go) looks at the operands of the comparison; this file looks at what
// surrounds it:
//
//   guard   between the key comparison (the comparator callback) and the value
//           comparison only the comparator's own results are branched on, and no
//           condition that dominates the value comparison reads an entry's value:
//           the comparison is reached for every pair of entries with equal keys;
//   use     the result is used as a branch condition (possibly negated, possibly
//           returned by a small helper and branched on by its callers) and is not
//           merged with another condition;
//   report  on the `differ` edge every path to a return stores both value cells
//           read by the entry callback; on the `equal` edge none is stored.
//
// runKEYEQ calls keyeqControl for every old-against-new DeepEqual it examines.

import (
	"fmt"
	"go/token"
	"sort"
	"strings"

	"golang.org/x/tools/go/ssa"

	"mastcheck/ir"
)

// keyeqValueCells: the diff-state cells handed to the value positions of the
// entry callback (addedValue, removedValue).
func keyeqValueCells(S *sidesInfo) map[*sdSlot]bool {
	cells := map[*sdSlot]bool{}
	if S.entrySig == nil {
		return cells
	}
	for _, fn := range S.fns {
		for _, ci := range CallsOf(fn) {
			if S.callbackKind(ci) != "entry" {
				continue
			}
			args := ci.Common().Args
			for i := 0; i < S.entrySig.Params().Len() && i < len(args); i++ {
				sl := S.slotRef(args[i])
				if sl == nil {
					continue
				}
				if _, seeded := S.entrySeed[i]; seeded && !S.entryFlag[i] {
					cells[sl] = true
				}
			}
		}
	}
	return cells
}

type keyeqCtl struct {
	c     *Ctx
	S     *sidesInfo
	cells map[*sdSlot]bool
	home  *ssa.Function // the function holding the DeepEqual call (violations are keyed there)
	bad   bool
	nIf   int
	// access paths of the two compared values
	deSyms  []string
	flagged map[ssa.Value]bool // conditions already reported
}

func keyeqControl(c *Ctx, S *sidesInfo, de *ssa.Call) {
	k := &keyeqCtl{c: c, S: S, cells: keyeqValueCells(S), home: de.Parent()}
	if len(k.cells) < 2 {
		c.Undecided(k.home, c.P.InstrPos(de), "value cells of the entry callback not found",
			"the entry callback is not fed from an added-value and a removed-value cell of the diff state: the rule cannot tell where a changed entry is recorded")
		return
	}
	for _, a := range de.Call.Args {
		k.deSyms = append(k.deSyms, ir.Sym(ir.Strip(a)))
	}
	k.guards(de, 0)
	k.uses(de, de, false, 0)
	if k.nIf == 0 && !k.bad {
		c.Undecided(k.home, c.P.InstrPos(de), "value comparison decides nothing",
			"the result of the old-against-new reflect.DeepEqual is not used as a branch condition: the rule cannot find the `changed` decision")
		k.bad = true
	}
	if !k.bad {
		c.OK(c.P.InstrPos(de), "`changed` decision in "+ir.FuncName(k.home),
			"reached for every equal-key pair, decided by reflect.DeepEqual alone, both value cells recorded on the differ edge", false)
	}
}

// ---- guard ------------------------------------------------------------------------

func (k *keyeqCtl) isComparator(ci ssa.CallInstruction) bool {
	return k.c.Facts.External(ci) == "callback:keyOrder"
}

// fromComparator: v is computed from results of the key comparator (and constants) only.
func (k *keyeqCtl) fromComparator(v ssa.Value, depth int) bool {
	if depth > 6 {
		return false
	}
	switch x := v.(type) {
	case *ssa.Const:
		return true
	case *ssa.Extract:
		ci, ok := x.Tuple.(*ssa.Call)
		return ok && k.isComparator(ci)
	case *ssa.Call:
		return k.isComparator(x)
	case *ssa.BinOp:
		return k.fromComparator(x.X, depth+1) && k.fromComparator(x.Y, depth+1)
	case *ssa.UnOp:
		if x.Op == token.MUL {
			if r := ir.ResolveCell(x); r != ssa.Value(x) {
				return k.fromComparator(r, depth+1)
			}
			return false
		}
		return k.fromComparator(x.X, depth+1)
	case *ssa.Convert:
		return k.fromComparator(x.X, depth+1)
	case *ssa.ChangeType:
		return k.fromComparator(x.X, depth+1)
	case *ssa.Phi:
		for _, e := range x.Edges {
			if !k.fromComparator(e, depth+1) {
				return false
			}
		}
		return true
	case *ssa.Parameter:
		fn := x.Parent()
		idx := paramIndex(x)
		n := 0
		for _, cs := range k.c.P.Callers[fn] {
			if !k.S.slice[cs.Parent()] {
				continue
			}
			args := cs.Common().Args
			if idx < 0 || idx >= len(args) || !k.fromComparator(args[idx], depth+2) {
				return false
			}
			n++
		}
		return n > 0
	}
	return false
}

// readsEntryValue: the condition reads the value of an entry (…yield.Value, node.Value[i]).
func (k *keyeqCtl) readsEntryValue(cond ssa.Value) bool {
	for v := range operandClosure(cond, func(x ssa.Value) bool {
		_, isCall := x.(*ssa.Call)
		return isCall
	}) {
		fa, ok := v.(*ssa.FieldAddr)
		var name string
		if ok {
			name = ir.FieldName(fa.X.Type(), fa.Field)
		} else if f, isF := v.(*ssa.Field); isF {
			name = ir.FieldName(f.X.Type(), f.Field)
		} else {
			continue
		}
		if name == "Value" || (k.S.entryValueName != "" && name == k.S.entryValueName) {
			return true
		}
	}
	return false
}

func keyeqCondDesc(f ir.Fact) string {
	d := ""
	if b, ok := f.Cond.(*ssa.BinOp); ok {
		d = fmt.Sprintf("%s %s %s", sdDesc(b.X), b.Op, sdDesc(b.Y))
	} else {
		d = sdDesc(f.Cond)
	}
	if !f.Truth {
		d = "!(" + d + ")"
	}
	return d
}

// keyeqCondShape: a position-free name of the condition for the key.
func keyeqCondShape(f ir.Fact) string {
	var names []string
	for v := range operandClosure(f.Cond, nil) {
		switch x := v.(type) {
		case *ssa.FieldAddr:
			names = append(names, ir.FieldName(x.X.Type(), x.Field))
		case *ssa.Field:
			names = append(names, ir.FieldName(x.X.Type(), x.Field))
		case *ssa.Parameter:
			names = append(names, x.Name())
		}
	}
	sort.Strings(names)
	out := names[:0]
	for i, n := range names {
		if i == 0 || names[i-1] != n {
			out = append(out, n)
		}
	}
	if len(out) == 0 {
		return "a computed condition"
	}
	return strings.Join(out, ",")
}

// guards: `at` is the value comparison (or, one level up, the call of the helper that holds it).
func (k *keyeqCtl) guards(at ssa.Instruction, depth int) {
	c, P := k.c, k.c.P
	fn := at.Parent()
	var K ssa.CallInstruction
	for _, ci := range CallsOf(fn) {
		if k.isComparator(ci) && ssa.Instruction(ci) != at && ir.Before(ci, at) {
			if K == nil || ir.Before(K, ci) {
				K = ci
			}
		}
	}
	type fk struct {
		cond  ssa.Value
		truth bool
	}
	before := map[fk]bool{}
	if K != nil {
		for _, f := range ir.FactsAt(K.Block()) {
			before[fk{f.Cond, f.Truth}] = true
		}
	}
	seen := map[fk]bool{}
	for _, f := range ir.FactsAt(at.Block()) {
		if seen[fk{f.Cond, f.Truth}] {
			continue
		}
		seen[fk{f.Cond, f.Truth}] = true
		if _, isC := f.Cond.(*ssa.Const); isC {
			continue
		}
		pos := P.InstrPos(at)
		if f.From != nil && len(f.From.Instrs) > 0 {
			pos = P.InstrPos(f.From.Instrs[len(f.From.Instrs)-1])
		}
		switch {
		case k.readsEntryValue(f.Cond):
			c.Violation(k.home, pos, "value comparison reached only under a condition on a value",
				fmt.Sprintf("in %s the old and the new value are compared only where %s holds: for a pair of equal keys on which this test fails the values are never compared, so a changed entry is not reported; reflect.DeepEqual alone decides whether an entry changed",
					fn.Name(), keyeqCondDesc(f)))
			k.bad = true
			if k.flagged == nil {
				k.flagged = map[ssa.Value]bool{}
			}
			k.flagged[f.Cond] = true
		case before[fk{f.Cond, f.Truth}]:
			// decided before the keys were compared: which case of the step this is
		case k.fromComparator(f.Cond, 0):
			// the comparator's own answer
		case K != nil:
			c.Violation(k.home, pos, "value comparison skipped on "+keyeqCondShape(f),
				fmt.Sprintf("in %s, between the key comparison and reflect.DeepEqual(old value, new value), %s is tested as well: where it fails, two entries with equal keys are not compared and a changed value is not reported; after the comparator has answered, only its result may decide whether the values are compared",
					fn.Name(), keyeqCondDesc(f)))
			k.bad = true
		default:
			c.Undecided(k.home, pos, "value comparison under a condition without a key comparison before it",
				fmt.Sprintf("%s reaches the value comparison only where %s holds, and no call of the key comparator precedes it in this function: the rule cannot tell that every pair of equal keys gets its values compared", fn.Name(), keyeqCondDesc(f)))
			k.bad = true
		}
	}
	if K != nil {
		k.bypass(K, at)
		return
	}
	// no comparator here: the equal-keys decision is the caller's
	if depth >= 3 {
		c.Undecided(k.home, P.InstrPos(at), "no key comparison before the value comparison",
			"no call of the key comparator is found before the value comparison within three call levels")
		k.bad = true
		return
	}
	n := 0
	for _, cs := range P.Callers[fn] {
		if !k.S.slice[cs.Parent()] {
			continue
		}
		if _, isCall := cs.(*ssa.Call); !isCall {
			continue
		}
		n++
		k.guards(cs, depth+1)
	}
	if n == 0 {
		c.Undecided(k.home, P.InstrPos(at), "no key comparison before the value comparison",
			fmt.Sprintf("%s compares an old with a new value without comparing the keys first and has no call site in the diff", fn.Name()))
		k.bad = true
	}
}

// ---- use and report ---------------------------------------------------------------

// uses: v carries the DeepEqual result (negated when neg) at instruction level.
func (k *keyeqCtl) uses(de *ssa.Call, v ssa.Value, neg bool, depth int) {
	c, P := k.c, k.c.P
	refs := v.Referrers()
	if refs == nil {
		return
	}
	for _, r := range *refs {
		switch x := r.(type) {
		case *ssa.DebugRef:
		case *ssa.UnOp:
			if x.Op == token.NOT {
				k.uses(de, x, !neg, depth)
				continue
			}
			k.undecidedUse(x)
		case *ssa.If:
			if len(x.Block().Succs) != 2 {
				continue
			}
			k.nIf++
			equal, differ := x.Block().Succs[0], x.Block().Succs[1]
			if neg {
				equal, differ = differ, equal
			}
			k.report(x, equal, differ)
		case *ssa.Return:
			// a helper `valuesEqual(o, n) bool`: its callers decide
			fn := x.Parent()
			if depth >= 2 || len(x.Results) != 1 || len(ir.Returns(fn)) != 1 {
				k.undecidedUse(x)
				continue
			}
			n := 0
			for _, cs := range P.Callers[fn] {
				call, isCall := cs.(*ssa.Call)
				if !isCall || !k.S.slice[cs.Parent()] {
					continue
				}
				n++
				k.uses(de, call, neg, depth+1)
			}
			if n == 0 {
				k.undecidedUse(x)
			}
		case *ssa.Phi:
			c.Violation(k.home, P.InstrPos(x), "value comparison merged with another condition",
				fmt.Sprintf("in %s the result of reflect.DeepEqual(old value, new value) is merged with other conditions (%s) before it decides whether the entry is reported: another condition can suppress the report of an entry whose values differ",
					x.Parent().Name(), sdDesc(x)))
			k.bad = true
		default:
			k.undecidedUse(r)
		}
	}
}

func (k *keyeqCtl) undecidedUse(at ssa.Instruction) {
	k.c.Undecided(k.home, k.c.P.InstrPos(at), "value comparison used other than as a branch condition",
		fmt.Sprintf("the result of reflect.DeepEqual(old value, new value) flows into `%s` in %s: the rule cannot tell that it alone decides whether the entry is reported", at.String(), at.Parent().Name()))
	k.bad = true
}

// storesCell: block b stores a non-constant into cell, or calls a diff function that does so on every path.
func (k *keyeqCtl) storesCell(b *ssa.BasicBlock, cell *sdSlot, depth int) bool {
	for _, ins := range b.Instrs {
		switch x := ins.(type) {
		case *ssa.Store:
			if _, isC := x.Val.(*ssa.Const); isC {
				continue
			}
			if sl, _ := k.S.storeRoot(x.Addr); sl == cell {
				return true
			}
		case *ssa.Call:
			callee := ir.Callee(x.Call)
			if callee == nil || callee.Blocks == nil || !k.S.slice[callee] || depth >= 2 {
				continue
			}
			if !k.escapes(callee.Blocks[0], cell, depth+1) {
				return true
			}
		}
	}
	return false
}

// escapes: a return is reachable from `from` without passing a store of cell.
func (k *keyeqCtl) escapes(from *ssa.BasicBlock, cell *sdSlot, depth int) bool {
	memo := map[*ssa.BasicBlock]bool{}
	stores := func(b *ssa.BasicBlock) bool {
		v, ok := memo[b]
		if !ok {
			v = k.storesCell(b, cell, depth)
			memo[b] = v
		}
		return v
	}
	if stores(from) {
		return false
	}
	reach := ir.ReachableFrom(from, func(_, to *ssa.BasicBlock) bool { return stores(to) })
	for b := range reach {
		if len(b.Instrs) == 0 {
			continue
		}
		if ret, ok := b.Instrs[len(b.Instrs)-1].(*ssa.Return); ok {
			// a failing return reports nothing anyway
			if ei := ir.ErrorResultIndex(b.Parent().Signature); ei >= 0 && ei < len(ret.Results) && !ir.IsNilConst(ret.Results[ei]) {
				continue
			}
			return true
		}
	}
	return false
}

func (k *keyeqCtl) report(br *ssa.If, equal, differ *ssa.BasicBlock) {
	c, P := k.c, k.c.P
	fn := br.Parent()
	var cells []*sdSlot
	for sl := range k.cells {
		cells = append(cells, sl)
	}
	sort.Slice(cells, func(i, j int) bool { return cells[i].name < cells[j].name })
	for _, cell := range cells {
		short := cell.name
		if cell.field != nil {
			short = cell.field.Name()
		}
		if k.escapes(differ, cell, 0) {
			c.Violation(k.home, P.InstrPos(br), "differing values not always recorded ("+short+")",
				fmt.Sprintf("in %s, where reflect.DeepEqual(old value, new value) answers false, a path reaches a successful return without storing %s: a further condition decides whether the changed entry is reported, so a pair of entries whose values differ can go unreported",
					fn.Name(), cell.name))
			k.bad = true
		}
		// equal edge: entered only from this branch, and a store of the cell inside what it dominates
		if len(equal.Preds) == 1 && equal != differ {
			for _, b := range fn.Blocks {
				if ir.IsDead(b) || !equal.Dominates(b) {
					continue
				}
				if k.storesCell(b, cell, 2) { // stores of this function only
					c.Violation(k.home, P.InstrPos(br), "equal values recorded as a change ("+short+")",
						fmt.Sprintf("in %s, where reflect.DeepEqual(old value, new value) answers true, %s is stored: an entry that did not change is reported", fn.Name(), cell.name))
					k.bad = true
					break
				}
			}
		}
	}
}

// bypass: once the keys have been compared, every successful path either compares the values (passes `at`) or
// records a value for the entry callback (the unequal-keys cases).
func (k *keyeqCtl) bypass(K ssa.CallInstruction, at ssa.Instruction) {
	c, P := k.c, k.c.P
	fn := at.Parent()
	memo := map[*ssa.BasicBlock]bool{}
	covered := func(b *ssa.BasicBlock) bool {
		if b == at.Block() {
			return true
		}
		v, ok := memo[b]
		if !ok {
			for cell := range k.cells {
				if k.storesCell(b, cell, 0) {
					v = true
				}
			}
			if !v && fn == k.home && k.bothNil(b) {
				v = true
			}
			memo[b] = v
		}
		return v
	}
	if K.Block() == at.Block() {
		return
	}
	reach := ir.ReachableFrom(K.Block(), func(from, to *ssa.BasicBlock) bool {
		if covered(to) {
			return true
		}
		if fn != k.home || len(from.Instrs) == 0 {
			return false
		}
		// the edge itself completes "both values are nil" (an empty branch has no block of its own)
		if br, ok := from.Instrs[len(from.Instrs)-1].(*ssa.If); ok && len(from.Succs) == 2 && from.Succs[0] != from.Succs[1] {
			fs := append([]ir.Fact{{Cond: br.Cond, Truth: to == from.Succs[0], From: from}}, ir.FactsAt(from)...)
			return k.bothNilFacts(ir.ExpandFacts(fs))
		}
		return false
	})
	k.valueBranches(K)
	for _, b := range fn.Blocks {
		if !reach[b] || len(b.Instrs) == 0 || ir.IsDead(b) {
			continue
		}
		ret, ok := b.Instrs[len(b.Instrs)-1].(*ssa.Return)
		if !ok {
			continue
		}
		if ei := ir.ErrorResultIndex(fn.Signature); ei >= 0 && ei < len(ret.Results) && !ir.IsNilConst(ret.Results[ei]) {
			continue
		}
		c.Violation(k.home, P.InstrPos(K), "value comparison bypassed after the key comparison",
			fmt.Sprintf("in %s a path leads from the key comparison to the successful return at %s without comparing the two values by reflect.DeepEqual and without recording an entry: a pair of equal keys that takes it is never examined, so a changed value is not reported",
				fn.Name(), P.InstrPos(ret)))
		k.bad = true
		return
	}
}

// bothNil: on entry to b both compared values are known to be nil (two nil values are equal: nothing to compare).
func (k *keyeqCtl) bothNil(b *ssa.BasicBlock) bool { return k.bothNilFacts(ir.FactsAt(b)) }

func (k *keyeqCtl) bothNilFacts(facts []ir.Fact) bool {
	if len(k.deSyms) != 2 || k.deSyms[0] == "" || k.deSyms[1] == "" || k.deSyms[0] == k.deSyms[1] {
		return false
	}
	isNil := map[string]bool{}
	for _, f := range facts {
		bo, ok := f.Cond.(*ssa.BinOp)
		if !ok || (bo.Op != token.EQL && bo.Op != token.NEQ) || (bo.Op == token.EQL) != f.Truth {
			continue
		}
		x, y := bo.X, bo.Y
		if ir.IsNilConst(x) {
			x, y = y, x
		}
		if !ir.IsNilConst(y) {
			continue
		}
		isNil[ir.Sym(ir.Strip(x))] = true
	}
	return isNil[k.deSyms[0]] && isNil[k.deSyms[1]]
}

// nilTestOfCompared: cond is `v == nil` / `v != nil` for one of the two compared values.
func (k *keyeqCtl) nilTestOfCompared(cond ssa.Value) bool {
	bo, ok := cond.(*ssa.BinOp)
	if !ok || (bo.Op != token.EQL && bo.Op != token.NEQ) {
		return false
	}
	x, y := bo.X, bo.Y
	if ir.IsNilConst(x) {
		x, y = y, x
	}
	if !ir.IsNilConst(y) {
		return false
	}
	s := ir.Sym(ir.Strip(x))
	return s != "" && len(k.deSyms) == 2 && (s == k.deSyms[0] || s == k.deSyms[1])
}

// valueBranches: in the function that compares the keys and the values, an entry's value is opaque: no branch reads
// one, except — after the key comparison — a nil test of the two compared values (the bypass clause judges where
// such a test leads).
func (k *keyeqCtl) valueBranches(K ssa.CallInstruction) {
	fn := K.Parent()
	if fn != k.home {
		return
	}
	for _, b := range fn.Blocks {
		if ir.IsDead(b) || len(b.Instrs) == 0 {
			continue
		}
		br, ok := b.Instrs[len(b.Instrs)-1].(*ssa.If)
		if !ok || k.flagged[br.Cond] || !k.readsEntryValue(br.Cond) {
			continue
		}
		if ir.Before(K, br) && k.nilTestOfCompared(br.Cond) {
			continue
		}
		f := ir.Fact{Cond: br.Cond, Truth: true}
		k.c.Violation(k.home, k.c.P.InstrPos(br), "diff step branches on an entry's value",
			fmt.Sprintf("%s branches on %s: what the diff step does with a pair of entries may depend on their values only through reflect.DeepEqual(old value, new value) once the keys have compared equal; a value-dependent branch elsewhere drops or invents reports for some values", fn.Name(), keyeqCondDesc(f)))
		k.bad = true
	}
}
