package rules

import (
	"go/constant"
	"fmt"
	"go/token"
	"go/types"
	"sort"
	"strings"

	"golang.org/x/tools/go/ssa"

	"mastcheck/ir"
)

// Second batch of rules prompted by independently written mutants
// (DESIGN.md Appendix B): each is a structural necessary condition.

func init() {
	Register(&Rule{ID: "SIGNONLY", Props: []string{"C06", "C01", "C10", "C09"}, Min: 10,
		Doc: "a key comparison result is interpreted by sign only: every test of a KeyCompare / Key.Order result compares it with 0 (a comparator may return any negative or positive magnitude, not just ±1).",
		Run: runSIGNONLY})
	Register(&Rule{ID: "NILOLD", Props: []string{"C06", "C07"}, Min: 1,
		Doc: "the old tree handed to DiffIter / DiffLinks / StartDiff may be nil: every dereference of that parameter (field access, method call), in the entry points and wherever it is passed on, is preceded on every path by a non-nil test.",
		Run: runNILOLD})
	Register(&Rule{ID: "FOUNDCHECK", Props: []string{"C01"}, Min: 2,
		Doc: "locating a position is not finding the key: in Get and in Delete's lookup every 'found' result (Get's true, findEntry's node) is dominated by a comparison of the entry's key with the probe key that came out equal.",
		Run: runFOUNDCHECK})
	Register(&Rule{ID: "RESETALL", Props: []string{"C06"}, Min: 2,
		Doc: "every report field the diff step can set (key, added/removed value, flags, links) is cleared before each step by both drivers (the callback loop and the cursor), so no entry carries values of the previous one.",
		Run: runRESETALL})
	Register(&Rule{ID: "DECODEBOUNDS", Props: []string{"C05", "C14", "C19"}, Min: 1,
		Doc: "the decoder accepts every length the encoder can emit and nothing truncated: no decoding function rejects a decoded length by comparing it with a constant (only with the bytes remaining), and the byte count of every Uvarint is tested as n <= 0.",
		Run: runDECODEBOUNDS})
	Register(&Rule{ID: "QUEUED", Props: []string{"C03"}, Min: 1,
		Doc: "the node store returns a freshly computed name without error only after the write of that node was queued (an unconditional channel send of the store closure) or the cache vouched for it: no path skips the send.",
		Run: runQUEUED})
	Register(&Rule{ID: "XCOPYFLAGS", Props: []string{"C13", "C02"}, Min: 1,
		Doc: "the node copy used by ToMut / ToShared carries the source's dirty and shared flags into the copy (a copy of an unsaved node that reports clean makes a clone look persisted).",
		Run: runXCOPYFLAGS})
}

// comparatorResults lists result #0 of every key-comparison call: through a
// function value of KeyCompare shape, or the Key interface's Order method.
func comparatorResults(c *Ctx) []ssa.Value {
	var out []ssa.Value
	for _, fn := range c.P.Funcs {
		if fn.Pkg.Pkg.Path() != ir.MastPath {
			continue
		}
		for _, ci := range CallsOf(fn) {
			call, ok := ci.(*ssa.Call)
			if !ok {
				continue
			}
			if isKeyCompareCall(call) {
				if call.Referrers() != nil {
					for _, r := range *call.Referrers() {
						if ex, ok := r.(*ssa.Extract); ok && ex.Index == 0 {
							out = append(out, ex)
						}
					}
				}
			}
			if call.Call.IsInvoke() && call.Call.Method.Name() == "Order" {
				out = append(out, call)
			}
		}
	}
	return out
}

func runSIGNONLY(c *Ctx) {
	P := c.P
	for _, res := range comparatorResults(c) {
		seen := map[ssa.Value]bool{}
		var walk func(v ssa.Value)
		walk = func(v ssa.Value) {
			if seen[v] || v.Referrers() == nil {
				return
			}
			seen[v] = true
			for _, r := range *v.Referrers() {
				switch x := r.(type) {
				case *ssa.BinOp:
					var k int64
					var isK bool
					if x.X == v {
						k, isK = ir.ConstInt(x.Y)
					} else if x.Y == v {
						k, isK = ir.ConstInt(x.X)
					}
					switch x.Op {
					case token.EQL, token.NEQ, token.LSS, token.LEQ, token.GTR, token.GEQ:
					default:
						continue // arithmetic on the result (none today)
					}
					pos := P.InstrPos(x)
					fn := x.Parent()
					what := fmt.Sprintf("comparison result tested %s %d in %s", x.Op, k, ir.FuncName(fn))
					// tests that still only look at the sign: x < 1 ≡ x <= 0, x >= 1 ≡ x > 0, x > -1 ≡ x >= 0, x <= -1 ≡ x < 0
					op := x.Op
					if x.Y == v { // constant on the left: k OP x
						switch op {
						case token.LSS:
							op = token.GTR
						case token.GTR:
							op = token.LSS
						case token.LEQ:
							op = token.GEQ
						case token.GEQ:
							op = token.LEQ
						}
					}
					signOnly := isK && (k == 0 || (k == 1 && (op == token.LSS || op == token.GEQ)) || (k == -1 && (op == token.GTR || op == token.LEQ)))
					if signOnly {
						c.OK(pos, what, "by sign", true)
					} else if isK {
						c.Violation(fn, pos, fmt.Sprintf("comparison result tested against %d", k),
							"key comparators may return any negative or positive value (Key.Order, user KeyCompare written as a-b): testing for a particular magnitude silently drops the other outcomes")
					}
				case *ssa.Phi:
					walk(x)
				case *ssa.Store:
					if cell := ir.CellOf(x.Addr); cell != nil && x.Val == v {
						forEachCellLoad(cell, func(ld *ssa.UnOp) { walk(ld) })
					}
				case *ssa.Return:
					// returned to a caller inside the repository (DefaultKeyCompare's Key case): followed there
				}
			}
		}
		walk(res)
	}
}

func runNILOLD(c *Ctx) {
	P := c.P
	type pk struct {
		fn  *ssa.Function
		idx int
	}
	var work []pk
	seen := map[pk]bool{}
	for _, name := range []string{"(*Mast).DiffIter", "(*Mast).DiffLinks", "(*Mast).StartDiff"} {
		fn := c.MustFunc(name)
		if fn == nil {
			continue
		}
		for i, p := range fn.Params {
			if i > 0 && ir.IsPtrToNamed(p.Type(), "Mast") {
				work = append(work, pk{fn, i})
			}
		}
	}
	n := 0
	for len(work) > 0 {
		w := work[0]
		work = work[1:]
		if seen[w] {
			continue
		}
		seen[w] = true
		p := w.fn.Params[w.idx]
		if p.Referrers() == nil {
			continue
		}
		// uses, also through the cell go/ssa makes for a captured parameter
		var uses []ssa.Instruction
		var vals []ssa.Value
		vals = append(vals, p)
		for _, r := range *p.Referrers() {
			if st, ok := r.(*ssa.Store); ok && st.Val == ssa.Value(p) {
				if cell, ok := st.Addr.(*ssa.Alloc); ok {
					forEachCellLoad(cell, func(ld *ssa.UnOp) { vals = append(vals, ld) })
				}
			}
		}
		for _, v := range vals {
			if v.Referrers() != nil {
				uses = append(uses, *v.Referrers()...)
			}
		}
		for _, u := range uses {
			switch x := u.(type) {
			case *ssa.FieldAddr:
				n++
				pos := P.InstrPos(x)
				what := fmt.Sprintf("dereference of the old tree (%s.%s) in %s", p.Name(), ir.FieldName(x.X.Type(), x.Field), ir.FuncName(w.fn))
				if ir.FlowNonNil(x.X, x) {
					c.OK(pos, what, "non-nil on every path", false)
				} else {
					c.Violation(w.fn, pos, "old tree dereferenced without a nil test", "a nil old tree is a documented input (diff against nothing: everything is added); this access panics on it")
				}
			case ssa.CallInstruction:
				for ai, a := range x.Common().Args {
					isP := false
					for _, v := range vals {
						if a == v {
							isP = true
						}
					}
					if !isP {
						continue
					}
					guarded := ir.FlowNonNil(a, x)
					for _, callee := range c.Facts.Callees(x) {
						if ai < len(callee.Params) && !guarded {
							work = append(work, pk{callee, ai})
						}
					}
				}
			}
		}
	}
	if n == 0 {
		c.OK("-", "the old tree is only passed on, never dereferenced unguarded", "nothing to check", true)
	}
}

func runFOUNDCHECK(c *Ctx) {
	P := c.P
	cmps := map[ssa.Value]bool{}
	for _, v := range comparatorResults(c) {
		cmps[v] = true
	}
	isCmp := func(v ssa.Value) bool {
		if cmps[v] {
			return true
		}
		for c := range cmps {
			if sameValue(v, c) {
				return true
			}
		}
		return false
	}
	// keyEqualsAt(node, i, key) (bool, error): a helper whose answer is "the comparator came out 0"
	equalHelper := func(v ssa.Value) (trueMeansEqual bool, ok bool) {
		var call *ssa.Call
		switch x := v.(type) {
		case *ssa.Call:
			call = x
		case *ssa.Extract:
			if x.Index == 0 {
				call, _ = x.Tuple.(*ssa.Call)
			}
		}
		if call == nil {
			return false, false
		}
		h := ir.Callee(call.Call)
		if h == nil || h.Blocks == nil || !isOwn(P, h) {
			return false, false
		}
		ei := ir.ErrorResultIndex(h.Signature)
		n := 0
		for _, r := range ir.Returns(h) {
			if ei >= 0 && ei < len(r.Results) && !ir.IsNilConst(r.Results[ei]) {
				continue
			}
			bin, isBin := ir.ResolveCell(r.Results[0]).(*ssa.BinOp)
			if !isBin || !isCmp(bin.X) {
				return false, false
			}
			if k, isK := ir.ConstInt(bin.Y); !isK || k != 0 {
				return false, false
			}
			switch bin.Op {
			case token.EQL:
				if n > 0 && !trueMeansEqual {
					return false, false
				}
				trueMeansEqual = true
			case token.NEQ:
				if n > 0 && trueMeansEqual {
					return false, false
				}
			default:
				return false, false
			}
			n++
		}
		return trueMeansEqual, n > 0
	}
	equalFact := func(b *ssa.BasicBlock) bool {
		// also when the comparison sits, unchanged, in a private helper whose outcome is tested here (foundhelper_util.go)
		return heldThroughHelpers(c, ir.FactsAt(b), identityBind, func(f ir.Fact, _ bindFn) bool {
			if tme, ok := equalHelper(f.Cond); ok && f.Truth == tme {
				return true
			}
			bin, ok := f.Cond.(*ssa.BinOp)
			if !ok {
				return false
			}
			k, isK := ir.ConstInt(bin.Y)
			if !isK || k != 0 || !isCmp(bin.X) {
				return false
			}
			return (bin.Op == token.EQL && f.Truth) || (bin.Op == token.NEQ && !f.Truth)
		}, 0)
	}
	for _, name := range []string{"(*Mast).Get", "findEntry"} {
		fn := c.MustFunc(name)
		if fn == nil {
			continue
		}
		ei := ir.ErrorResultIndex(fn.Signature)
		for _, r := range ir.Returns(fn) {
			if ei < 0 || !ir.IsNilConst(r.Results[ei]) {
				continue
			}
			found := false
			if v, isC := ir.ConstBool(r.Results[0]); isC {
				found = v
				// once the key comparison came out equal the entry exists, whatever its value is: "not found" is wrong
				if !v && equalFact(r.Block()) {
					c.Violation(fn, P.InstrPos(r), "'not found' although the key compared equal",
						"a return after the key was confirmed reports the entry as absent (e.g. an entry whose stored value is nil): a present key is reported not found")
				}
			} else if isNodePtr(r.Results[0].Type()) {
				if ir.IsNilConst(r.Results[0]) {
					// success without a node: the caller goes on to use it
					c.Violation(fn, P.InstrPos(r), "success return without a node",
						name+" returns a nil node together with a nil error: the caller treats that as 'found' and dereferences the node (Delete of an absent key or with a non-matching value panics instead of failing)")
					continue
				}
				found = true
			}
			if !found {
				continue
			}
			if name == "findEntry" {
				// Delete(key, value) removes the entry only if the stored value matches: the found return is
				// also dominated by DeepEqual(stored value, the value parameter) having come out true
				// (also inside a private helper handed that parameter: foundhelper_util.go)
				valOK := heldThroughHelpers(c, ir.FactsAt(r.Block()), identityBind, func(f ir.Fact, bind bindFn) bool {
					call, ok := f.Cond.(*ssa.Call)
					if !ok || !f.Truth {
						return false
					}
					if sc := ir.Callee(call.Call); sc == nil || sc.String() != "reflect.DeepEqual" {
						return false
					}
					for _, a := range call.Call.Args {
						if p, isP := bind(a).(*ssa.Parameter); isP && p.Parent() == fn {
							return true
						}
					}
					return false
				}, 0)
				if valOK {
					c.OK(P.InstrPos(r), "'found' result of "+name+": value", "dominated by DeepEqual(stored value, value argument) == true", false)
				} else {
					c.Violation(fn, P.InstrPos(r), "'found' without confirming the value",
						"a delete with a non-matching value must fail without effect; on some path the entry is reported found although DeepEqual(stored value, given value) did not come out true")
				}
			}
			if name == "(*Mast).Get" {
				// the caller's destination receives the entry's value on every found path: either no destination
				// was given (value == nil) or reflect.Value.Set has run — also when the stored value is nil
				var dest *ssa.Parameter
				for _, p := range fn.Params[1:] {
					if _, isIface := p.Type().Underlying().(*types.Interface); isIface && !strings.Contains(p.Type().String(), "Context") {
						dest = p // the last interface-typed parameter
					}
				}
				if dest != nil {
					setDone := ir.FlowFactGen(r, func(fc ir.Fact) bool {
						tv, tnn, ok := ir.NilTest(fc.Cond)
						return ok && ir.ResolveCell(ir.Strip(tv)) == ssa.Value(dest) && fc.Truth != tnn
					}, func(i ssa.Instruction) bool {
						call, ok := i.(*ssa.Call)
						if !ok {
							return false
						}
						sc := ir.Callee(call.Call)
						if sc != nil && sc.String() == "(reflect.Value).Set" {
							return true
						}
						// a helper that runs Set on every path (assignValue(dest, v))
						if sc != nil && sc.Blocks != nil && isOwn(P, sc) {
							all := true
							rets := ir.Returns(sc)
							for _, hr := range rets {
								if !ir.FlowFactGen(hr, func(ir.Fact) bool { return false }, func(j ssa.Instruction) bool {
									c2, ok := j.(*ssa.Call)
									if !ok {
										return false
									}
									s2 := ir.Callee(c2.Call)
									return s2 != nil && s2.String() == "(reflect.Value).Set"
								}, func(ssa.Instruction) bool { return false }) {
									all = false
								}
							}
							return all && len(rets) > 0
						}
						return false
					}, func(ssa.Instruction) bool { return false })
					if setDone {
						c.OK(P.InstrPos(r), "'found' result of Get: destination", "the destination is set (reflect.Value.Set) on every path with a destination", false)
					} else {
						c.Violation(fn, P.InstrPos(r), "'found' without handing the value to the destination",
							"on some path Get reports the entry found and returns without setting the caller's destination (an entry whose stored value is nil): the destination keeps what it held before the call, not the last value written for the key")
					}
				}
			}
			if equalFact(r.Block()) {
				c.OK(P.InstrPos(r), "'found' result of "+name, "dominated by a key comparison that came out equal", false)
			} else {
				c.Violation(fn, P.InstrPos(r), "'found' without confirming the key",
					"the search only locates the position where the key would be; reporting the entry there as the key without an equality test makes a lookup or delete of an absent key act on its neighbour")
			}
		}
	}
}

func runRESETALL(c *Ctx) {
	P := c.P
	step := c.MustFunc("(*Mast).diffOne")
	if step == nil {
		return
	}
	// report fields: diffState fields the step (and what it calls) stores to, other than the stacks/memos/tree
	fields := map[string]bool{}
	for fn := range c.Facts.Reach(step) {
		for _, b := range fn.Blocks {
			for _, ins := range b.Instrs {
				if st, ok := ins.(*ssa.Store); ok {
					if fa, ok := st.Addr.(*ssa.FieldAddr); ok && ir.IsPtrToNamed(fa.X.Type(), "diffState") {
						fields[ir.FieldName(fa.X.Type(), fa.Field)] = true
					}
				}
			}
		}
	}
	if len(fields) == 0 {
		c.AnchorMissing("report fields stored by the diff step")
		return
	}
	var fs []string
	for f := range fields {
		fs = append(fs, f)
	}
	sort.Strings(fs)
	// drivers: functions calling the step. A private helper that runs the step once per call (the step call is not in
	// a loop of its own: `diffStep` = reset + step) is not a driver: its call sites are, and a field counts as cleared
	// there when the helper clears it on the way to the step or the caller does on the way to the helper.
	var check func(cs ssa.CallInstruction, pending []string, via string, depth int)
	check = func(cs ssa.CallInstruction, pending []string, via string, depth int) {
		drv := cs.Parent()
		var missing []string
		for _, f := range pending {
			f := f
			clears := func(i ssa.Instruction) bool {
				return clearsField(c, i, f, 0)
			}
			if !mustPassSince(cs, clears) {
				missing = append(missing, f)
			}
		}
		if callers := c.P.Callers[drv]; depth < 2 && len(callers) > 0 && !sdBlockInCycle(cs.Block()) && onlyCalledStatically(c, drv) && !c.Facts.Reach(step)[drv] {
			for _, cs2 := range callers {
				check(cs2, missing, via+" through "+drv.Name(), depth+1)
			}
			return
		}
		what := fmt.Sprintf("%s clears {%s} before each step%s", ir.FuncName(drv), strings.Join(fs, ","), via)
		if len(missing) == 0 {
			c.OK(P.InstrPos(cs), what, "every report field is reset on every path to the step, in every iteration", false)
		} else {
			c.Violation(drv, P.InstrPos(cs), "report fields not cleared before a diff step: "+strings.Join(missing, ","),
				"a field the step sets only for some outcomes keeps the previous entry's value: added entries carry an old value, removed ones a new value, links repeat")
		}
	}
	for _, cs := range c.P.Callers[step] {
		check(cs, fs, "", 0)
	}
}

// onlyCalledStatically: every use of fn is a call the program's caller table lists: an unexported function or
// method that is never taken as a value, or a function literal that is only called in place by its variable.
func onlyCalledStatically(c *Ctx, fn *ssa.Function) bool {
	if fn.Parent() == nil {
		return fn.Object() != nil && !fn.Object().Exported() && !c.Facts.addrTaken[fn]
	}
	n := 0
	for _, b := range fn.Parent().Blocks {
		for _, ins := range b.Instrs {
			mc, ok := ins.(*ssa.MakeClosure)
			if !ok || mc.Fn != ssa.Value(fn) {
				continue
			}
			n++
			if mc.Referrers() == nil {
				return false
			}
			for _, r := range *mc.Referrers() {
				switch x := r.(type) {
				case *ssa.DebugRef:
				case *ssa.Call:
					if x.Call.Value != ssa.Value(mc) {
						return false
					}
					for _, a := range x.Call.Args {
						if a == ssa.Value(mc) {
							return false
						}
					}
				default:
					return false
				}
			}
		}
	}
	return n == 1
}

// clearsField: instruction stores the zero value to diffState.<f>, or calls a
// function that does so on every path.
func clearsField(c *Ctx, i ssa.Instruction, f string, depth int) bool {
	if st, ok := i.(*ssa.Store); ok {
		if fa, ok := st.Addr.(*ssa.FieldAddr); ok && ir.IsPtrToNamed(fa.X.Type(), "diffState") && ir.FieldName(fa.X.Type(), fa.Field) == f {
			if ir.IsNilConst(st.Val) {
				return true
			}
			if v, isC := ir.ConstBool(st.Val); isC && !v {
				return true
			}
		}
		return false
	}
	if ci, ok := i.(*ssa.Call); ok && depth < 2 {
		for _, callee := range c.Facts.Callees(ci) {
			rets := ir.Returns(callee)
			if len(rets) == 0 {
				continue
			}
			all := true
			for _, r := range rets {
				if !ir.MustPass(r, func(j ssa.Instruction) bool { return clearsField(c, j, f, depth+1) }) {
					all = false
				}
			}
			if all {
				return true
			}
		}
	}
	return false
}

// mustPassSince: on every path that reaches `at` — from function entry or from
// a previous execution of `at` (loop) — an instruction satisfying pred executes.
func mustPassSince(at ssa.Instruction, pred func(ssa.Instruction) bool) bool {
	return ir.FlowHeld(at, pred, func(i ssa.Instruction) bool { return i == at })
}

func runDECODEBOUNDS(c *Ctx) {
	P := c.P
	set := loadPathFuncs(c)
	n := 0
	for _, fn := range P.Funcs {
		if !set[fn] {
			continue
		}
		// the byte count Uvarint returns: 0 means the buffer ended, negative means overflow — both must be rejected
		for _, ci := range CallsOf(fn) {
			call, ok := ci.(*ssa.Call)
			if !ok {
				continue
			}
			sc := ir.Callee(call.Call)
			if sc == nil || (sc.String() != "encoding/binary.Uvarint" && sc.String() != "encoding/binary.Varint") || call.Referrers() == nil {
				continue
			}
			for _, r := range *call.Referrers() {
				ex, ok := r.(*ssa.Extract)
				if !ok || ex.Index != 1 || ex.Referrers() == nil {
					continue
				}
				covers := false
				for _, u := range *ex.Referrers() {
					bin, ok := u.(*ssa.BinOp)
					if !ok || bin.X != ssa.Value(ex) {
						continue
					}
					k, isK := ir.ConstInt(bin.Y)
					if !isK {
						continue
					}
					switch {
					case bin.Op == token.LEQ && k == 0, bin.Op == token.LSS && k == 1, bin.Op == token.GTR && k == 0, bin.Op == token.GEQ && k == 1:
						covers = true
					}
				}
				if covers {
					c.OK(P.InstrPos(call), "byte count of "+sc.Name()+" in "+ir.FuncName(fn), "tested as n <= 0 (exhausted buffer and overflow both rejected)", false)
				} else {
					f := c.Violation(fn, P.InstrPos(call), "exhausted buffer not rejected after "+sc.Name(),
						"Uvarint returns n == 0 when the buffer ends and n < 0 on overflow; a test that misses n == 0 decodes a truncated node as length 0 — a cut-off top node loads as an (almost) empty tree instead of being rejected")
					f.Props = []string{"C19"} // well-formed nodes still round-trip: only rejection of bad input breaks
				}
			}
		}
		// decoded lengths: result #0 of binary.Uvarint/Varint, and what it is converted / stored into
		lens := map[ssa.Value]bool{}
		for _, ci := range CallsOf(fn) {
			call, ok := ci.(*ssa.Call)
			if !ok {
				continue
			}
			if sc := ir.Callee(call.Call); sc != nil && (sc.String() == "encoding/binary.Uvarint" || sc.String() == "encoding/binary.Varint") && call.Referrers() != nil {
				for _, r := range *call.Referrers() {
					if ex, ok := r.(*ssa.Extract); ok && ex.Index == 0 {
						lens[ex] = true
					}
				}
			}
		}
		if len(lens) == 0 {
			continue
		}
		for changed := true; changed; {
			changed = false
			for _, b := range fn.Blocks {
				for _, ins := range b.Instrs {
					if cv, ok := ins.(*ssa.Convert); ok && lens[cv.X] && !lens[cv] {
						lens[cv] = true
						changed = true
					}
				}
			}
		}
		for _, b := range fn.Blocks {
			for _, ins := range b.Instrs {
				bin, ok := ins.(*ssa.BinOp)
				if !ok {
					continue
				}
				switch bin.Op {
				case token.EQL, token.NEQ, token.LSS, token.LEQ, token.GTR, token.GEQ:
				default:
					continue
				}
				var other ssa.Value
				if lens[bin.X] {
					other = bin.Y
				} else if lens[bin.Y] {
					other = bin.X
				} else {
					continue
				}
				n++
				if k, isK := ir.ConstInt(other); isK && k != 0 {
					c.Violation(fn, P.InstrPos(bin), "decoded length compared with a constant",
						"the encoder writes any length; a decoder-side limit makes nodes that were written correctly (a large value, a wide node) unreadable")
				} else {
					c.OK(P.InstrPos(bin), "length check in "+ir.FuncName(fn), "compares with 0 or a run-time quantity (bytes remaining)", false)
				}
			}
		}
		c.OK(P.Pos(fn.Pos()), "decoded lengths in "+ir.FuncName(fn), "no constant bound", true)
	}
	_ = n
	// (3) a []byte input is cut at a decoded position only after that position was compared with the bytes left:
	// buf[:v] / buf[v:] with a run-time v needs `len(buf) < v` (or an equivalent) tested and rejected on every path
	for _, fn := range P.Funcs {
		if !set[fn] {
			continue
		}
		for _, b := range fn.Blocks {
			for _, ins := range b.Instrs {
				sl, ok := ins.(*ssa.Slice)
				if !ok {
					continue
				}
				st, ok := sl.X.Type().Underlying().(*types.Slice)
				if !ok {
					continue
				}
				if bt, ok := st.Elem().Underlying().(*types.Basic); !ok || bt.Kind() != types.Uint8 {
					continue
				}
				if _, isParamRooted := ir.ResolveCell(sl.X).(*ssa.Parameter); !isParamRooted {
					if _, isExtract := ir.ResolveCell(sl.X).(*ssa.Extract); !isExtract {
						continue // only the input buffer and what remains of it after a decoding step
					}
				}
				for _, bnd := range []ssa.Value{sl.Low, sl.High} {
					if bnd == nil {
						continue
					}
					if _, isC := bnd.(*ssa.Const); isC {
						continue
					}
					// the byte count reported by Uvarint is within the buffer by contract (and tested > 0 above)
					if ex, ok := ir.ResolveCell(bnd).(*ssa.Extract); ok && ex.Index == 1 {
						if call, ok := ex.Tuple.(*ssa.Call); ok {
							if sc := ir.Callee(call.Call); sc != nil && (sc.String() == "encoding/binary.Uvarint" || sc.String() == "encoding/binary.Varint") {
								continue
							}
						}
					}
					bs, xs := ir.Sym(bnd), ir.Sym(sl.X)
					what := fmt.Sprintf("%s cut at %s in %s", pathDesc(xs), pathDesc(bs), ir.FuncName(fn))
					deps := append(ir.LoadDeps(bnd), ir.LoadDeps(sl.X)...)
					ok := ir.FlowFact(sl, func(f ir.Fact) bool {
						bin, isBin := f.Cond.(*ssa.BinOp)
						if !isBin {
							return false
						}
						x, y, op := bin.X, bin.Y, bin.Op
						// normalise to  len(X) OP v
						if ir.Sym(x) == bs {
							x, y = y, x
							switch op {
							case token.LSS:
								op = token.GTR
							case token.GTR:
								op = token.LSS
							case token.LEQ:
								op = token.GEQ
							case token.GEQ:
								op = token.LEQ
							}
						}
						if ir.Sym(y) != bs {
							return false
						}
						lc, isCall := x.(*ssa.Call)
						if !isCall {
							return false
						}
						if bi, isB := lc.Call.Value.(*ssa.Builtin); !isB || bi.Name() != "len" || ir.Sym(lc.Call.Args[0]) != xs {
							return false
						}
						if !f.Truth {
							switch op {
							case token.LSS:
								op = token.GEQ
							case token.GTR:
								op = token.LEQ
							case token.LEQ:
								op = token.GTR
							case token.GEQ:
								op = token.LSS
							default:
								return false
							}
						}
						return op == token.GEQ // len(X) >= v  (len(X) > v would reject exact fits: not accepted as the guard)
					}, func(i ssa.Instruction) bool {
						switch y := i.(type) {
						case *ssa.Store:
							return ir.MayClobber(ir.Sym(y.Addr), deps)
						case ssa.CallInstruction:
							// a call that is handed the address of the length variable rewrites it
							for _, a := range y.Common().Args {
								if al, ok := a.(*ssa.Alloc); ok {
									for _, d := range deps {
										if d == ir.Sym(al) {
											return true
										}
									}
								}
							}
						}
						return false
					})
					if !ok && dbBoundedByCallee(sl, bnd) {
						c.OK(P.InstrPos(sl), what, "the helper that read the length returns it without error only when at least that many bytes follow", false)
						continue
					}
					if ok {
						c.OK(P.InstrPos(sl), what, "compared with the bytes remaining on every path, too-long rejected", false)
					} else {
						f := c.Violation(fn, P.InstrPos(sl), "input buffer cut at an unchecked position",
							"a length read from the node's bytes is used as a slice bound without having been compared with the number of bytes left: a truncated or corrupt node makes the decoder panic (slice bounds out of range) instead of returning an error, so loading a root whose top node is undecodable crashes instead of failing")
						f.Props = []string{"C19"}
					}
				}
			}
		}
	}
}

// dbBoundedByCallee: the buffer sl cuts is result #i of a call of a function g of the repository and the bound is
// the length the same call produced — its result #k, or the content of a local handed to it by address that nothing
// rewrites afterwards —, the cut is reached only when that call's error result was nil, and g returns without error
// only a length that was compared, as an unsigned number, with the length of the very slice it returns as result #i
// (k <= len(buf)-used for buf[used:]). The local test `len(buf) < n` in the caller is then dead code.
func dbBoundedByCallee(sl *ssa.Slice, bnd ssa.Value) bool {
	xe, ok := ir.ResolveCell(sl.X).(*ssa.Extract)
	if !ok {
		return false
	}
	call, ok := xe.Tuple.(*ssa.Call)
	if !ok || call.Call.IsInvoke() {
		return false
	}
	g := ir.Callee(call.Call)
	if g == nil || g.Blocks == nil || g.Signature.Recv() != nil || len(g.Params) != len(call.Call.Args) {
		return false
	}
	ei := ir.ErrorResultIndex(g.Signature)
	if ei < 0 || ei == xe.Index {
		return false
	}
	// which length: a result of the call, or an out-parameter
	resIdx, parIdx := -1, -1
	switch b := bnd.(type) {
	case *ssa.Extract:
		if b.Tuple != ssa.Value(call) || b.Index == ei || b.Index == xe.Index {
			return false
		}
		resIdx = b.Index
	case *ssa.UnOp:
		al, isA := b.X.(*ssa.Alloc)
		if b.Op != token.MUL || !isA {
			return false
		}
		for j, a := range call.Call.Args {
			if a == ssa.Value(al) {
				if parIdx >= 0 {
					return false
				}
				parIdx = j
			}
		}
		if parIdx < 0 {
			return false
		}
		// from the call to the cut nothing else writes the local
		if !ir.FlowFactGen(sl, func(ir.Fact) bool { return false }, func(i ssa.Instruction) bool { return i == ssa.Instruction(call) }, func(i ssa.Instruction) bool {
			if i == ssa.Instruction(call) {
				return false
			}
			switch y := i.(type) {
			case *ssa.Store:
				return y.Addr == ssa.Value(al) || y.Val == ssa.Value(al)
			case ssa.CallInstruction:
				for _, a := range y.Common().Args {
					if a == ssa.Value(al) {
						return true
					}
				}
			case *ssa.MakeClosure:
				for _, a := range y.Bindings {
					if a == ssa.Value(al) {
						return true
					}
				}
			}
			return false
		}) {
			return false
		}
	default:
		return false
	}
	// the cut lies behind `err == nil` of that call
	if !ir.FlowFact(sl, func(f ir.Fact) bool {
		v, tnn, isNil := ir.NilTest(f.Cond)
		if !isNil {
			return false
		}
		e, isE := v.(*ssa.Extract)
		return isE && e.Tuple == ssa.Value(call) && e.Index == ei && f.Truth != tnn
	}, func(i ssa.Instruction) bool { return i == ssa.Instruction(call) }) {
		return false
	}
	// the callee: every return that may be a success hands out a bounded length
	unconv := func(v ssa.Value) ssa.Value {
		if cv, ok := v.(*ssa.Convert); ok {
			return cv.X
		}
		return v
	}
	isUnsigned := func(t types.Type) bool {
		b, ok := t.Underlying().(*types.Basic)
		return ok && b.Info()&types.IsUnsigned != 0
	}
	wideInt := func(t types.Type) bool {
		b, ok := t.Underlying().(*types.Basic)
		if !ok {
			return false
		}
		switch b.Kind() {
		case types.Int, types.Int64, types.Uint, types.Uint64:
			return true
		}
		return false
	}
	isLenOf := func(v, of ssa.Value) bool {
		lc, ok := v.(*ssa.Call)
		if !ok {
			return false
		}
		bi, isB := lc.Call.Value.(*ssa.Builtin)
		return isB && bi.Name() == "len" && len(lc.Call.Args) == 1 && lc.Call.Args[0] == of
	}
	var outPar *ssa.Parameter
	var outStores []*ssa.Store
	if parIdx >= 0 {
		outPar = g.Params[parIdx]
		if outPar.Referrers() == nil {
			return false
		}
		for _, r := range *outPar.Referrers() {
			switch y := r.(type) {
			case *ssa.Store:
				if y.Addr != ssa.Value(outPar) {
					return false
				}
				outStores = append(outStores, y)
			case *ssa.DebugRef:
			default:
				return false // read, passed on or retained: not a plain out-parameter
			}
		}
		if len(outStores) != 1 {
			return false
		}
	}
	n := 0
	for _, r := range ir.Returns(g) {
		if ei >= len(r.Results) || xe.Index >= len(r.Results) {
			return false
		}
		if !ir.IsNilConst(r.Results[ei]) {
			if ec, isC := r.Results[ei].(*ssa.Call); isC {
				if sc := ir.Callee(ec.Call); sc != nil && (sc.String() == "errors.New" || sc.String() == "fmt.Errorf") {
					continue // certainly an error
				}
			}
			return false
		}
		n++
		var v ssa.Value
		if resIdx >= 0 {
			if resIdx >= len(r.Results) {
				return false
			}
			v = r.Results[resIdx]
		} else {
			st := outStores[0]
			if !ir.FlowFactGen(r, func(ir.Fact) bool { return false }, func(i ssa.Instruction) bool { return i == ssa.Instruction(st) }, func(ssa.Instruction) bool { return false }) {
				return false // a success that leaves the caller's local as it was
			}
			v = st.Val
		}
		if !wideInt(v.Type()) {
			return false
		}
		k := unconv(v)
		if !isUnsigned(k.Type()) || !wideInt(k.Type()) {
			return false
		}
		// the returned slice and the number of bytes it holds
		res := r.Results[xe.Index]
		rs, isSl := res.(*ssa.Slice)
		remaining := func(m ssa.Value) bool {
			if isLenOf(m, res) {
				return true
			}
			if !isSl || rs.High != nil || rs.Max != nil {
				return false
			}
			if rs.Low == nil {
				return isLenOf(m, rs.X)
			}
			// buf[used:] with used the byte count of Uvarint(buf): 0 < used <= len(buf) by contract once used > 0 was tested
			ue, isE := rs.Low.(*ssa.Extract)
			if !isE || ue.Index != 1 {
				return false
			}
			uc, isC := ue.Tuple.(*ssa.Call)
			if !isC {
				return false
			}
			if sc := ir.Callee(uc.Call); sc == nil || (sc.String() != "encoding/binary.Uvarint" && sc.String() != "encoding/binary.Varint") || len(uc.Call.Args) != 1 || uc.Call.Args[0] != rs.X {
				return false
			}
			sub, isB := m.(*ssa.BinOp)
			return isB && sub.Op == token.SUB && isLenOf(sub.X, rs.X) && sub.Y == ssa.Value(ue)
		}
		if !ir.FlowFact(r, func(f ir.Fact) bool {
			bin, isBin := f.Cond.(*ssa.BinOp)
			if !isBin {
				return false
			}
			x, y, op := bin.X, bin.Y, bin.Op
			if y == k {
				x, y = y, x
				switch op {
				case token.LSS:
					op = token.GTR
				case token.GTR:
					op = token.LSS
				case token.LEQ:
					op = token.GEQ
				case token.GEQ:
					op = token.LEQ
				}
			}
			if x != k {
				return false
			}
			if !f.Truth {
				switch op {
				case token.GTR:
					op = token.LEQ
				case token.GEQ:
					op = token.LSS
				default:
					return false
				}
			}
			if op != token.LEQ && op != token.LSS {
				return false
			}
			// the unsigned comparison is against the (non-negative) number of bytes that remain
			cv, isCv := y.(*ssa.Convert)
			return isCv && isUnsigned(cv.Type()) && remaining(cv.X)
		}, func(ssa.Instruction) bool { return false }) {
			return false
		}
	}
	return n > 0
}

func runQUEUED(c *Ctx) {
	P := c.P
	fn, _ := persistingStoreFn(c)
	if fn == nil {
		return
	}
	sites := storeSites(c)
	nameCell := ir.CellOf(sites[0].Common().Args[1])
	ei := ir.ErrorResultIndex(fn.Signature)
	isSend := func(i ssa.Instruction) bool {
		s, ok := i.(*ssa.Send)
		if !ok {
			return false
		}
		mc, ok := s.X.(*ssa.MakeClosure)
		return ok && mc.Fn == ssa.Value(sites[0].Parent())
	}
	n := 0
	for _, r := range ir.Returns(fn) {
		if ei < 0 || !ir.IsNilConst(r.Results[ei]) {
			continue
		}
		if nameCell == nil || ir.CellOf(r.Results[0]) != nameCell {
			continue // the recorded source name of a clean node
		}
		n++
		pos := P.InstrPos(r)
		// cache vouches: dominated by a true NodeCache.Contains
		vouched := false
		for _, f := range ir.FactsAt(r.Block()) {
			if call, ok := f.Cond.(*ssa.Call); ok && f.Truth && c.Facts.External(call) == "NodeCache.Contains" {
				vouched = true
			}
		}
		switch {
		case vouched:
			c.OK(pos, "node store returns the name on a cache hit", "NodeCache.Contains(key) is true: the store already holds the node (CACHEAFTER)", false)
		case sentBySelect(r, sites[0].Parent()):
			c.OK(pos, "node store returns the name after queueing the write", "the return is reached only on the select arm that sent the store closure to the writers (the other arms return an error)", false)
		case ir.MustPass(r, isSend):
			c.OK(pos, "node store returns the name after queueing the write", "every path passes the channel send of the store closure", false)
		default:
			c.Violation(fn, pos, "name returned without queueing the write",
				"some path returns the freshly computed name with a nil error although the store closure was never sent to the writers (a select/conditional around the send): MakeRoot reports success with this node missing from the store")
		}
	}
	if n == 0 {
		c.Undecided(fn, P.Pos(fn.Pos()), "no return of the computed name", "cannot find where the node store returns the name it computed")
	}
}

// sentBySelect: r is dominated by the branch `index == k` of a select whose k-th arm sends the store closure (the
// queue send made cancellable: `select { case storeQ <- write: case <-ctx.Done(): return "", ctx.Err() }`).
func sentBySelect(r *ssa.Return, closure *ssa.Function) bool {
	for _, f := range ir.FactsAt(r.Block()) {
		bin, ok := f.Cond.(*ssa.BinOp)
		if !ok || bin.Op != token.EQL || !f.Truth {
			continue
		}
		ex, ok := bin.X.(*ssa.Extract)
		k, isC := bin.Y.(*ssa.Const)
		if !ok || !isC || ex.Index != 0 || k.Value == nil {
			continue
		}
		sel, ok := ex.Tuple.(*ssa.Select)
		if !ok {
			continue
		}
		idx, exact := constant.Int64Val(constant.ToInt(k.Value))
		if !exact || idx < 0 || int(idx) >= len(sel.States) {
			continue
		}
		st := sel.States[idx]
		if st.Dir != types.SendOnly || st.Send == nil {
			continue
		}
		if mc, ok := ir.ResolveCell(st.Send).(*ssa.MakeClosure); ok && mc.Fn == ssa.Value(closure) {
			return true
		}
	}
	return false
}

func runXCOPYFLAGS(c *Ctx) {
	P := c.P
	ts := c.MustFunc("(*mastNode).ToShared")
	if ts == nil {
		return
	}
	A := c.Facts.Own()
	// the copy function: a callee of ToShared on the receiver that returns only fresh nodes
	var cp *ssa.Function
	for _, ci := range CallsOf(ts) {
		if f := ir.Callee(ci.Common()); f != nil && f != ts && isNodePtrResult(f) && A.returns(f, 0, 0) {
			cp = f
		}
	}
	if cp == nil {
		c.AnchorMissing("node copy function used by ToShared")
		return
	}
	src := cp.Params[0]
	for _, flag := range []string{"dirty", "shared"} {
		ok := false
		var at ssa.Instruction
		for _, b := range cp.Blocks {
			for _, ins := range b.Instrs {
				st, isSt := ins.(*ssa.Store)
				if !isSt {
					continue
				}
				fa, isFA := st.Addr.(*ssa.FieldAddr)
				if !isFA || !isNodePtr(fa.X.Type()) || ir.FieldName(fa.X.Type(), fa.Field) != flag {
					continue
				}
				at = st
				if ld, isLd := st.Val.(*ssa.UnOp); isLd && ld.Op == token.MUL {
					if sfa, isF := ld.X.(*ssa.FieldAddr); isF && ir.ResolveCell(sfa.X) == ssa.Value(src) && ir.FieldName(sfa.X.Type(), sfa.Field) == flag {
						ok = true
					}
				}
			}
		}
		// the copy built by a constructor helper that takes the flags as parameters (emptyLike(node.dirty, node.shared))
		if !ok {
			for _, ci := range CallsOf(cp) {
				h := ir.Callee(ci.Common())
				if h == nil || h == cp || h.Blocks == nil || !isOwn(P, h) {
					continue
				}
				for _, hb := range h.Blocks {
					for _, hi := range hb.Instrs {
						st, isSt := hi.(*ssa.Store)
						if !isSt {
							continue
						}
						fa, isFA := st.Addr.(*ssa.FieldAddr)
						if !isFA || !isNodePtr(fa.X.Type()) || ir.FieldName(fa.X.Type(), fa.Field) != flag {
							continue
						}
						prm, isP := ir.ResolveCell(st.Val).(*ssa.Parameter)
						if !isP || prm.Parent() != h || paramIndex(prm) >= len(ci.Common().Args) {
							continue
						}
						a := ci.Common().Args[paramIndex(prm)]
						if ld, isLd := a.(*ssa.UnOp); isLd && ld.Op == token.MUL {
							if sfa, isF := ld.X.(*ssa.FieldAddr); isF && ir.ResolveCell(sfa.X) == ssa.Value(src) && ir.FieldName(sfa.X.Type(), sfa.Field) == flag {
								ok, at = true, ci
							}
						}
					}
				}
			}
		}
		if ok {
			c.OK(P.InstrPos(at), fmt.Sprintf("%s copies .%s from its source", cp.Name(), flag), "struct copy keeps the flag", false)
		} else {
			pos := P.Pos(cp.Pos())
			if at != nil {
				pos = P.InstrPos(at)
			}
			c.Violation(cp, pos, "node copy does not carry ."+flag,
				"ToShared/Clone copies of nodes with unsaved changes must stay dirty (IsDirty on a clone of a modified tree), and copies keep the shared flag for ToMut to clear")
		}
	}
}

func isNodePtrResult(f *ssa.Function) bool {
	r := f.Signature.Results()
	return r.Len() >= 1 && isNodePtr(r.At(0).Type())
}

var _ = types.Typ
