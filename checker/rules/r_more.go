package rules

import (
	"fmt"
	"go/constant"
	"go/token"
	"go/types"
	"sort"
	"strings"

	"golang.org/x/tools/go/ssa"

	"mastcheck/ir"
)

// Rules added after the first round of independently written mutants: each
// is a structural necessary condition that the earlier catalogue had left
// unchecked (DESIGN.md Appendix B says which mutant prompted which rule).

func init() {
	Register(&Rule{ID: "NODEURLPREFIX", Props: []string{"C03", "C18", "C05", "C11"}, Min: 3,
		Doc: "every store's NodeURLPrefix identifies the container its Load/Store address: its result depends on the receiver's identity, or on every string-typed location field " +
			"that Load/Store read (S3: BucketName and Prefix; file: the base path) — directly or through the value the constructor stored — so two stores that address different objects never share cache keys.",
		Run: runNODEURLPREFIX})
	Register(&Rule{ID: "DECODEFRESH", Props: []string{"C05", "C08", "C01"}, Min: 1,
		Doc: "every decoded key/value gets its own freshly allocated target: a reflect.New whose result is stored into a slice element inside a loop is itself executed inside that loop " +
			"(a hoisted target makes all entries of a node alias or inherit leftovers of the previous entry).",
		Run: runDECODEFRESH})
	Register(&Rule{ID: "NILLINKDECODE", Props: []string{"C05", "C09"}, Min: 2,
		Doc: "decoders turn an empty link name back into a nil link: a string stored into a []interface{} element on the load path is known non-empty on that path (the writer encodes a nil link as the empty string).",
		Run: runNILLINKDECODE})
	Register(&Rule{ID: "CURSORCLONE", Props: []string{"C02", "C10", "C16"}, Min: 2,
		Doc: "Cursor() walks the clone, not the original: the tree it stores in the cursor and the tree through which it loads the path's root node are both the local result of Clone.",
		Run: runCURSORCLONE})
	Register(&Rule{ID: "STALEPTR", Props: []string{"C10", "C01", "C12"}, Min: 3,
		Doc: "no store goes through a pointer to a slice element (p = &S[i]) after S may have been re-allocated by S = append(S, …) without p being re-derived: such a write lands in the old backing array and is lost.",
		Run: runSTALEPTR})
	Register(&Rule{ID: "ITERDONE", Props: []string{"C10", "C01", "C16"}, Min: 2,
		Doc: "where an API function recognises a stop sentinel (ErrIterDone) with ==, every function between the user callback and that comparison returns the callback's error itself, never a wrapped copy; where it uses errors.Is, a level may also wrap it, but only so that Unwrap still reaches it (fmt.Errorf with %w on the error, errors.Join) — never re-formatted with %v/%s or errors.New(err.Error()).",
		Run: runITERDONE})
	Register(&Rule{ID: "FINDOPTS", Props: []string{"C01", "C10"}, Min: 4,
		Doc: "all point operations agree on how a search is parameterised: every findOptions is built with targetLayer = min(keyLayer(key, branchFactor), height) and currentHeight = height of the same tree.",
		Run: runFINDOPTS})
	Register(&Rule{ID: "DIRTYNEW", Props: []string{"C13"}, Min: 2,
		Doc: "every node a mutator creates and installs as the tree's root (argument of the link constructor Mast.store whose result is stored into Mast.root: grow, shrink) is marked dirty on every path: a new root that is not dirty makes the tree report clean although it differs from the persisted version. (A fresh child has no source name, so the node store writes it whatever its flag says; it is not demanded there.)",
		Run: runDIRTYNEW})
	Register(&Rule{ID: "MASTSHARE", Props: []string{"C11", "C02"}, Min: 1,
		Doc: "Clone copies the Mast struct by value, so no function may write through a slice or map held in a Mast field (element store, append, copy, map update): clones would share that memory.",
		Run: runMASTSHARE})
	Register(&Rule{ID: "GROWLOOP", Props: []string{"C04", "C09"}, Min: 2,
		Doc: "height changes are applied until the rule is satisfied: Insert calls the level-adding function inside a loop and Delete calls the level-removing function inside a loop (one insert or delete may change the height by more than one).",
		Run: runGROWLOOP})
	Register(&Rule{ID: "NILSLICE", Props: []string{"C08", "C14", "C04"}, Min: 10,
		Doc: "a node's Key and Value slices are never nil, only empty: every slice stored into them is made, literal, the node's own field, or an append onto such a slice — nil and empty encode differently under the JSON node format.",
		Run: runNILSLICE})
}

// ---- NODEURLPREFIX -----------------------------------------------------------------

func operandClosure(v ssa.Value, stop func(ssa.Value) bool) map[ssa.Value]bool {
	seen := map[ssa.Value]bool{}
	var walk func(ssa.Value)
	walk = func(x ssa.Value) {
		if x == nil || seen[x] {
			return
		}
		seen[x] = true
		if stop != nil && stop(x) {
			return
		}
		if a, ok := x.(*ssa.Alloc); ok {
			// values stored into the allocation (varargs arrays, cells)
			if a.Referrers() != nil {
				for _, r := range *a.Referrers() {
					switch y := r.(type) {
					case *ssa.Store:
						if y.Addr == ssa.Value(a) {
							walk(y.Val)
						}
					case *ssa.IndexAddr:
						if y.Referrers() != nil {
							for _, rr := range *y.Referrers() {
								if st, ok := rr.(*ssa.Store); ok && st.Addr == ssa.Value(y) {
									walk(st.Val)
								}
							}
						}
					}
				}
			}
		}
		if ins, ok := x.(ssa.Instruction); ok {
			for _, op := range ins.Operands(nil) {
				if op != nil && *op != nil {
					walk(*op)
				}
			}
		}
	}
	walk(v)
	return seen
}

func isStringType(t types.Type) bool {
	b, ok := t.Underlying().(*types.Basic)
	return ok && b.Kind() == types.String
}

func runNODEURLPREFIX(c *Ctx) {
	P := c.P
	for _, b := range backendImpls(c, ir.MastPath, ir.FilePath, ir.S3Path) {
		name := b.named.Obj().Name()
		pfx := P.Method(b.pkg, name, "NodeURLPrefix")
		if pfx == nil {
			c.AnchorMissing("NodeURLPrefix of " + b.String())
			continue
		}
		st, _ := b.named.Underlying().(*types.Struct)
		// location fields: string fields of the receiver read by Load or Store
		loc := map[string]bool{}
		// Load, Store and the receiver's own helper methods they call (objectKey(name), nodePath(name) …)
		addrFns := []*ssa.Function{b.load, b.store}
		seenFn := map[*ssa.Function]bool{b.load: true, b.store: true}
		for i := 0; i < len(addrFns) && i < 16; i++ {
			for _, ci := range CallsOf(addrFns[i]) {
				h := ir.Callee(ci.Common())
				if h == nil || seenFn[h] || h.Blocks == nil || h.Signature.Recv() == nil || h.Pkg != addrFns[i].Pkg {
					continue
				}
				rt := h.Signature.Recv().Type()
				if p, ok := rt.Underlying().(*types.Pointer); ok {
					rt = p.Elem()
				}
				if !types.Identical(rt, b.named) {
					continue
				}
				seenFn[h] = true
				addrFns = append(addrFns, h)
			}
		}
		for _, fn := range addrFns {
			ri := newRecvInfo(fn)
			for _, blk := range fn.Blocks {
				for _, ins := range blk.Instrs {
					if v, ok := ins.(ssa.Value); ok {
						if f, ok := ri.fieldOf(v); ok && isStringType(v.Type()) {
							loc[f] = true
						}
					}
					if fa, ok := ins.(*ssa.FieldAddr); ok {
						if f, ok := ri.fieldAddrOf(fa); ok {
							if pt, ok := fa.Type().Underlying().(*types.Pointer); ok && isStringType(pt.Elem()) {
								loc[f] = true
							}
						}
					}
				}
			}
		}
		var locs []string
		for f := range loc {
			locs = append(locs, f)
		}
		sort.Strings(locs)
		pos := P.Pos(pfx.Pos())
		what := fmt.Sprintf("NodeURLPrefix of %s (location fields: %s)", b.String(), strings.Join(locs, ","))
		ri := newRecvInfo(pfx)
		rets := ir.Returns(pfx)
		if len(rets) == 0 {
			c.Undecided(pfx, pos, "no return", "NodeURLPrefix never returns")
			continue
		}
		okAll := true
		why := ""
		for _, r := range rets {
			cl := operandClosure(r.Results[0], nil)
			// receiver identity (e.g. %p of the pointer receiver)
			usesIdentity := false
			fields := map[string]bool{}
			for v := range cl {
				if f, ok := ri.fieldOf(v); ok {
					fields[f] = true
				}
				if mi, ok := v.(*ssa.MakeInterface); ok && ri.isBase(mi.X) {
					if _, isPtr := mi.X.Type().Underlying().(*types.Pointer); isPtr {
						usesIdentity = true
					}
				}
			}
			if usesIdentity {
				why = "depends on the receiver's identity"
				continue
			}
			missing := []string{}
			for _, lf := range locs {
				if fields[lf] {
					continue
				}
				// through a derived field set by the constructor(s)
				covered := false
				for g := range fields {
					if constructorDerives(c, b, st, g, lf) {
						covered = true
					}
				}
				if !covered {
					missing = append(missing, lf)
				}
			}
			if len(missing) > 0 {
				okAll = false
				c.Violation(pfx, P.InstrPos(r), "NodeURLPrefix ignores "+strings.Join(missing, ","),
					fmt.Sprintf("the prefix that distinguishes this store in a shared NodeCache does not depend on %s, which Load/Store use to address objects: two stores differing only there share cache keys, so a flush to one is skipped because the other has the node", strings.Join(missing, ",")))
			} else if why == "" {
				why = "depends on " + strings.Join(locs, ",") + " (directly or via the constructor)"
			}
		}
		if okAll {
			c.OK(pos, what, why, false)
		}
	}
}

// constructorDerives: in every function of the package that builds a value of
// the backend type and sets field g, the value stored into g depends on the
// value stored into field lf of the same literal.
func constructorDerives(c *Ctx, b backendImpl, st *types.Struct, g, lf string) bool {
	found := false
	for _, fn := range c.P.Funcs {
		if fn.Pkg.Pkg.Path() != b.pkg {
			continue
		}
		// group field stores by allocation
		type lit struct{ vals map[string]ssa.Value }
		lits := map[*ssa.Alloc]*lit{}
		for _, blk := range fn.Blocks {
			for _, ins := range blk.Instrs {
				s, ok := ins.(*ssa.Store)
				if !ok {
					continue
				}
				fa, ok := s.Addr.(*ssa.FieldAddr)
				if !ok {
					continue
				}
				al, ok := fa.X.(*ssa.Alloc)
				if !ok || !types.Identical(al.Type().Underlying().(*types.Pointer).Elem(), b.named) {
					continue
				}
				if lits[al] == nil {
					lits[al] = &lit{vals: map[string]ssa.Value{}}
				}
				lits[al].vals[ir.FieldName(fa.X.Type(), fa.Field)] = s.Val
			}
		}
		for _, l := range lits {
			gv, hasG := l.vals[g]
			if !hasG {
				continue
			}
			lv, hasL := l.vals[lf]
			if !hasL {
				return false
			}
			found = true
			cl := operandClosure(gv, nil)
			if !cl[lv] && !cl[ir.Strip(lv)] {
				return false
			}
		}
	}
	return found
}

// ---- DECODEFRESH --------------------------------------------------------------------

func loadPathFuncs(c *Ctx) map[*ssa.Function]bool {
	lp := c.MustFunc("(*Mast).loadPersisted")
	if lp == nil {
		return nil
	}
	return c.Facts.Reach(lp)
}

func runDECODEFRESH(c *Ctx) {
	P := c.P
	set := loadPathFuncs(c)
	for _, fn := range P.Funcs {
		if !set[fn] {
			continue
		}
		for _, b := range fn.Blocks {
			for _, ins := range b.Instrs {
				call, ok := ins.(*ssa.Call)
				if !ok {
					continue
				}
				if !allocatesDecodeTarget(call, 0) {
					continue
				}
				// element stores fed by this allocation
				fed := false
				for _, bb := range fn.Blocks {
					for _, i2 := range bb.Instrs {
						st, ok := i2.(*ssa.Store)
						if !ok {
							continue
						}
						if _, isElem := st.Addr.(*ssa.IndexAddr); !isElem {
							continue
						}
						if !operandClosure(st.Val, nil)[call] {
							continue
						}
						fed = true
						pos := P.InstrPos(call)
						what := "reflect.New feeding an element store in " + ir.FuncName(fn)
						if !inCycle(bb) {
							c.OK(pos, what, "the store is not in a loop", true)
							continue
						}
						if ir.CanReach(bb, b) && ir.CanReach(b, bb) && inCycle(b) {
							c.OK(pos, what, "allocated anew in every iteration of the loop that stores it", false)
						} else {
							c.Violation(fn, pos, "decode target hoisted out of the element loop",
								"one reflect.New target is reused for every element of the slice: entries decoded later overwrite or inherit parts of earlier ones (pointers, slices, maps, omitted fields), so a reloaded node differs from the one persisted")
						}
					}
				}
				_ = fed
			}
		}
	}
}

// ---- NILLINKDECODE ---------------------------------------------------------------------

// nonEmptyStringFact: block b lies under a fact that string value s is not "".
func nonEmptyStringFact(b *ssa.BasicBlock, s ssa.Value) bool {
	for _, f := range ir.FactsAt(b) {
		cond, truth := f.Cond, f.Truth
		if u, ok := cond.(*ssa.UnOp); ok && u.Op == token.NOT {
			cond, truth = u.X, !truth
		}
		bin, ok := cond.(*ssa.BinOp)
		if !ok {
			continue
		}
		isEmptyConst := func(v ssa.Value) bool {
			k, ok := v.(*ssa.Const)
			return ok && k.Value != nil && k.Value.Kind() == constant.String && constant.StringVal(k.Value) == ""
		}
		var other ssa.Value
		if isEmptyConst(bin.Y) {
			other = bin.X
		} else if isEmptyConst(bin.X) {
			other = bin.Y
		}
		if other != nil && (other == s || ir.Sym(other) == ir.Sym(s)) {
			if (bin.Op == token.EQL && !truth) || (bin.Op == token.NEQ && truth) {
				return true
			}
		}
		// len(s) > 0 etc.
		if ss, ok := ir.LenAtLeast1(f); ok && ss == ir.Sym(s) {
			return true
		}
	}
	// string(body) with body known non-nil / non-empty
	if cv, ok := s.(*ssa.Convert); ok {
		if ir.NonNilAt(b, ir.Sym(cv.X)) {
			return true
		}
		for _, f := range ir.FactsAt(b) {
			if ss, ok := ir.LenAtLeast1(f); ok && ss == ir.Sym(cv.X) {
				return true
			}
		}
	}
	return false
}

func runNILLINKDECODE(c *Ctx) {
	P := c.P
	set := loadPathFuncs(c)
	n := 0
	for _, fn := range P.Funcs {
		if !set[fn] {
			continue
		}
		for _, b := range fn.Blocks {
			for _, ins := range b.Instrs {
				st, ok := ins.(*ssa.Store)
				if !ok {
					continue
				}
				ia, ok := st.Addr.(*ssa.IndexAddr)
				if !ok {
					continue
				}
				sl, ok := ia.X.Type().Underlying().(*types.Slice)
				if !ok {
					continue
				}
				if it, ok := sl.Elem().Underlying().(*types.Interface); !ok || it.NumMethods() != 0 {
					continue
				}
				mi, ok := st.Val.(*ssa.MakeInterface)
				if !ok || !isStringType(mi.X.Type()) {
					continue
				}
				if _, isConst := mi.X.(*ssa.Const); isConst {
					continue
				}
				n++
				pos := P.InstrPos(st)
				what := "decoded string stored as a link in " + ir.FuncName(fn)
				if nonEmptyStringFact(b, mi.X) {
					c.OK(pos, what, "known non-empty on this path (an empty name decodes to a nil link)", false)
				} else {
					c.Violation(fn, pos, "empty link name not decoded to nil",
						"a nil child link is written as the empty string; storing that string as a link makes traversal try to load a node named \"\" (the reloaded tree fails or differs), and link counts no longer say which children exist")
				}
			}
		}
	}
	// the decoded string handed back by an element decoder (a closure given to a shared slice-decoding
	// loop): `return string(body), nil` — the body must be known non-empty where the decoder is called
	for _, fn := range P.Funcs {
		if !set[fn] {
			continue
		}
		for _, r := range ir.Returns(fn) {
			for _, res := range r.Results {
				mi, ok := res.(*ssa.MakeInterface)
				if !ok || !isStringType(mi.X.Type()) {
					continue
				}
				if it, ok := mi.Type().Underlying().(*types.Interface); !ok || it.NumMethods() != 0 {
					continue
				}
				if _, isConst := mi.X.(*ssa.Const); isConst {
					continue
				}
				n++
				pos := P.InstrPos(r)
				what := "decoded string returned as an element by " + ir.FuncName(fn)
				if nonEmptyStringFact(r.Block(), mi.X) {
					c.OK(pos, what, "known non-empty on this path", false)
					continue
				}
				var prm *ssa.Parameter
				if cv, ok := mi.X.(*ssa.Convert); ok {
					prm, _ = cv.X.(*ssa.Parameter)
				}
				idx := -1
				for i, q := range fn.Params {
					if q == prm && prm != nil {
						idx = i
					}
				}
				sites, good := 0, true
				if idx >= 0 {
					for _, g := range P.Funcs {
						for _, ci := range CallsOf(g) {
							is := false
							for _, callee := range c.Facts.Callees(ci) {
								if callee == fn {
									is = true
								}
							}
							args := ci.Common().Args
							ai := idx - (len(fn.Params) - len(args))
							if !is || ai < 0 || ai >= len(args) {
								continue
							}
							sites++
							a := args[ai]
							okSite := ir.NonNilAt(ci.Block(), ir.Sym(a))
							for _, f := range ir.FactsAt(ci.Block()) {
								if ss, ok := ir.LenAtLeast1(f); ok && ss == ir.Sym(a) {
									okSite = true
								}
							}
							if !okSite {
								good = false
							}
						}
					}
				}
				if sites > 0 && good {
					c.OK(pos, what, fmt.Sprintf("the body is known non-empty at all %d call sites of the element decoder (an empty name is left as a nil link)", sites), false)
				} else {
					c.Violation(fn, pos, "empty link name not decoded to nil",
						"a nil child link is written as the empty string; returning that string as an element makes traversal try to load a node named \"\" (the reloaded tree fails or differs)")
				}
			}
		}
	}
	if n == 0 {
		c.Undecided(nil, "-", "no link decoding found", "the load path no longer stores decoded strings into link slices in a recognisable form")
	}
}

// ---- CURSORCLONE --------------------------------------------------------------------------

func runCURSORCLONE(c *Ctx) {
	P := c.P
	fn := c.MustFunc("(*Mast).Cursor")
	clone := c.MustFunc("(*Mast).Clone")
	load := c.MustFunc("(*Mast).load")
	if fn == nil || clone == nil || load == nil {
		return
	}
	// Clone may delegate to a private helper that Cursor uses directly as well (`m.snapshot(ctx)`)
	body := cloneBodyFn(c, clone)
	isCloneFn := func(f *ssa.Function) bool { return f != nil && (f == clone || (body != clone && f == body)) }
	// the local holding Clone's result
	var nm *ssa.Alloc
	for _, b := range fn.Blocks {
		for _, ins := range b.Instrs {
			st, ok := ins.(*ssa.Store)
			if !ok {
				continue
			}
			if ex, ok := st.Val.(*ssa.Extract); ok && ex.Index == 0 {
				if call, ok := ex.Tuple.(*ssa.Call); ok && isCloneFn(ir.Callee(call.Call)) {
					nm, _ = st.Addr.(*ssa.Alloc)
				}
			}
		}
	}
	if nm == nil {
		c.Violation(fn, P.Pos(fn.Pos()), "Cursor does not clone the tree", "a cursor must capture a version (Clone); without it later changes to the tree move under the cursor")
		return
	}
	// the captured tree is a Clone on every path: nothing else is ever stored into that local
	for _, b := range fn.Blocks {
		for _, ins := range b.Instrs {
			st, ok := ins.(*ssa.Store)
			if !ok || st.Addr != ssa.Value(nm) {
				continue
			}
			isClone := false
			if ex, ok := st.Val.(*ssa.Extract); ok && ex.Index == 0 {
				if call, ok := ex.Tuple.(*ssa.Call); ok && isCloneFn(ir.Callee(call.Call)) {
					isClone = true
					// the helper may hand back the clone's root node as a further result: it is the node it installed
					if h := ir.Callee(call.Call); h == body && body != clone && h.Signature.Results().Len() >= 2 && isNodePtr(h.Signature.Results().At(1).Type()) {
						same := true
						hei := ir.ErrorResultIndex(h.Signature)
						for _, r := range ir.Returns(h) {
							if hei >= 0 && !ir.IsNilConst(r.Results[hei]) {
								continue
							}
							if ir.IsNilConst(r.Results[1]) {
								continue
							}
							installed := false
							for _, hb := range h.Blocks {
								for _, hi := range hb.Instrs {
									if _, f, hst, ok := mastFieldStore(hi); ok && f == "root" && ir.Strip(hst.Val) == ir.Strip(r.Results[1]) {
										installed = true
									}
								}
							}
							same = same && installed
						}
						if same {
							c.OK(P.InstrPos(st), "the cursor's root node comes with the clone", "the helper hands back the node it installed as the clone's root", false)
						} else {
							c.Violation(fn, P.InstrPos(st), "Cursor path rooted in the original tree",
								"the node the helper hands back next to the clone is not the node it installed as the clone's root: the cursor walks nodes that do not belong to the version it captured")
						}
					}
				}
			}
			if isClone {
				c.OK(P.InstrPos(st), "the cursor's tree is set from Clone", "store of Clone's result", false)
			} else {
				c.Violation(fn, P.InstrPos(st), "cursor's tree not always a Clone",
					"on some path the cursor keeps a plain copy of the tree header instead of a Clone: the cursor then walks live, still-mutable nodes (an unshared clean root, e.g. of a never-modified empty tree, is filled in place by later Inserts)")
			}
		}
	}
	for _, ci := range CallsOf(fn) {
		if ir.Callee(ci.Common()) != load {
			continue
		}
		args := ci.Common().Args
		recvOK := ir.ResolveCell(args[0]) == ssa.Value(nm)
		if !recvOK {
			// the clone reached through the new cursor's own field (cursor := &Cursor{m: &clone}; cursor.m.load(…)):
			// that field holds the clone (checked below for every store into a Cursor.m)
			if ld, ok := args[0].(*ssa.UnOp); ok && ld.Op == token.MUL {
				if fa, ok := ld.X.(*ssa.FieldAddr); ok && ir.IsPtrToNamed(fa.X.Type(), "Cursor") && ir.FieldName(fa.X.Type(), fa.Field) == "m" {
					if _, fresh := ir.ResolveCell(fa.X).(*ssa.Alloc); fresh {
						recvOK = true
					}
				}
			}
		}
		x, isRoot := rootLoad(args[len(args)-1])
		argOK := isRoot && ir.ResolveCell(x) == ssa.Value(nm)
		if recvOK && argOK {
			c.OK(P.InstrPos(ci), "Cursor loads the clone's root through the clone", "receiver and root both belong to the local Clone result", false)
		} else {
			c.Violation(fn, P.InstrPos(ci), "Cursor path rooted in the original tree",
				"the cursor's path starts at a node loaded from the original tree instead of the clone: the cursor walks live nodes that later Insert/Delete/MakeRoot on the original change in place")
		}
	}
	for _, b := range fn.Blocks {
		for _, ins := range b.Instrs {
			st, ok := ins.(*ssa.Store)
			if !ok {
				continue
			}
			fa, ok := st.Addr.(*ssa.FieldAddr)
			if !ok || !ir.IsPtrToNamed(fa.X.Type(), "Cursor") || !ir.IsPtrToNamed(st.Val.Type(), "Mast") {
				continue
			}
			if ir.ResolveCell(st.Val) == ssa.Value(nm) {
				c.OK(P.InstrPos(st), "Cursor.m is the clone", "address of the local Clone result", false)
			} else {
				c.Violation(fn, P.InstrPos(st), "Cursor keeps the original tree", "the cursor's later loads go through the original tree, not the captured version")
			}
		}
	}
}

// ---- STALEPTR ---------------------------------------------------------------------------------

func runSTALEPTR(c *Ctx) {
	P := c.P
	n := 0
	for _, fn := range P.Funcs {
		if fn.Pkg.Pkg.Path() != ir.MastPath {
			continue
		}
		// append-stores: L = append(…)
		type grow struct {
			st  *ssa.Store
			loc string
		}
		var grows []grow
		for _, b := range fn.Blocks {
			for _, ins := range b.Instrs {
				st, ok := ins.(*ssa.Store)
				if !ok {
					continue
				}
				if call, ok := st.Val.(*ssa.Call); ok {
					if bi, ok := call.Call.Value.(*ssa.Builtin); ok && bi.Name() == "append" {
						grows = append(grows, grow{st, ir.Sym(st.Addr)})
					}
				}
			}
		}
		if len(grows) == 0 {
			continue
		}
		for _, b := range fn.Blocks {
			for _, ins := range b.Instrs {
				st, ok := ins.(*ssa.Store)
				if !ok {
					continue
				}
				// store through p or &p.f where p = &S[i], S = *L
				addr := st.Addr
				if fa, ok := addr.(*ssa.FieldAddr); ok {
					addr = fa.X
				}
				var p ssa.Instruction
				var loc string
				if ia, ok := addr.(*ssa.IndexAddr); ok {
					ld, ok := ia.X.(*ssa.UnOp)
					if !ok || ld.Op != token.MUL {
						continue
					}
					p, loc = ia, ir.Sym(ld.X)
				} else if call, ok := addr.(*ssa.Call); ok {
					// pe := c.top(): an accessor that returns &S[i]; the pointer is as old as the call
					_, ret, _, ok := navAccessor(call)
					if !ok {
						continue
					}
					ia, ok := ret.(*ssa.IndexAddr)
					if !ok {
						continue
					}
					ld, ok := ia.X.(*ssa.UnOp)
					if !ok || ld.Op != token.MUL {
						continue
					}
					// the accessor's `c.path`, in the caller's terms
					full := navSym(call)
					if i := strings.LastIndex(full, "["); i > 0 {
						p, loc = call, strings.TrimPrefix(full[:i], "*")
					}
				}
				if p == nil {
					continue
				}
				for _, g := range grows {
					if g.loc != loc || g.st == st {
						continue
					}
					n++
					if staleBetween(p, g.st, st) {
						c.Violation(fn, P.InstrPos(st), "store through an element pointer taken before "+pathDesc(loc)+" = append(…)",
							fmt.Sprintf("the pointer into %s was computed before the append at %s, which may move the slice to a new backing array; the store then updates the abandoned copy and the change is lost (only when the append re-allocates)", pathDesc(loc), P.InstrPos(g.st)))
					} else {
						c.OK(P.InstrPos(st), fmt.Sprintf("store through &%s[i] in %s", pathDesc(loc), ir.FuncName(fn)), "the element pointer is re-derived after every append that can precede the store", false)
					}
				}
			}
		}
	}
	if n == 0 {
		c.OK("-", "no store through an element pointer of an appended slice", "nothing to check", true)
	}
}

// staleBetween: can `use` execute after `grow` without `def` (the IndexAddr)
// having been executed again in between, although def executed before grow?
func staleBetween(def, grow, use ssa.Instruction) bool {
	if !ir.InstrReaches(def, grow) {
		return false
	}
	db := def.Block()
	// forward search from grow, not passing through def
	gb := grow.Block()
	ub := use.Block()
	gi, ui, di := ir.InstrIndex(grow), ir.InstrIndex(use), ir.InstrIndex(def)
	if gb == ub && gi < ui && !(db == gb && di > gi && di < ui) {
		return true
	}
	seen := map[*ssa.BasicBlock]bool{}
	var work []*ssa.BasicBlock
	// leaving gb: if def is in gb after grow, every continuation re-derives
	if db == gb && di > gi {
		return false
	}
	work = append(work, gb.Succs...)
	for len(work) > 0 {
		b := work[len(work)-1]
		work = work[:len(work)-1]
		if seen[b] {
			continue
		}
		seen[b] = true
		if b == ub {
			if !(db == ub && di < ui) {
				return true
			}
			continue // re-derived before the use in this block; do not continue past? the use happened; stop this path
		}
		if b == db {
			continue // re-derived
		}
		work = append(work, b.Succs...)
	}
	return false
}

// ---- ITERDONE ----------------------------------------------------------------------------------

func sentinelHasProducer(c *Ctx, g *ssa.Global) bool {
	for _, fn := range c.P.Funcs {
		ei := ir.ErrorResultIndex(fn.Signature)
		if ei < 0 {
			continue
		}
		for _, r := range ir.Returns(fn) {
			if ld, ok := r.Results[ei].(*ssa.UnOp); ok && ld.Op == token.MUL && ld.X == ssa.Value(g) {
				return true
			}
		}
	}
	return false
}

func runITERDONE(c *Ctx) {
	P := c.P
	n := 0
	for _, fn := range P.Funcs {
		if fn.Pkg.Pkg.Path() != ir.MastPath {
			continue
		}
		for _, b := range fn.Blocks {
			for _, ins := range b.Instrs {
				errV, g, viaIs := stopTest(ins)
				if g == nil {
					continue
				}
				if sentinelHasProducer(c, g) {
					continue // produced inside the repository (ErrNoMoreDiffs): CBPROP/ERRFLOW cover it
				}
				if !viaIs && testedWithIs(fn, errV, g) {
					continue // `err == S || errors.Is(err, S)`: the errors.Is test is the one that decides
				}
				how := "`== " + g.Name() + "`"
				if viaIs {
					how = "`errors.Is(…, " + g.Name() + ")`"
				}
				// the error comes from a call that is handed one of fn's function-typed parameters
				for call := range stopErrSources(c, fn, errV) {
					n++
					bad := false
					iterdoneViaIs, iterdoneUnknown = viaIs, nil
					for _, callee := range c.Facts.Callees(call) {
						for ai, a := range call.Call.Args {
							if _, isFn := a.Type().Underlying().(*types.Signature); !isFn || ai >= len(callee.Params) {
								continue
							}
							if w := wrapsCallbackError(c, callee, callee.Params[ai], map[*ssa.Function]bool{}); w != nil {
								bad = true
								if viaIs {
									c.Violation(w.Parent(), P.InstrPos(w), "callback error wrapped without %w before an errors.Is test for "+g.Name(),
										fmt.Sprintf("%s recognises the stop signal with %s, but on the way from the user callback the error is re-formatted here (not wrapped with %%w): errors.Is cannot unwrap the result to the sentinel, so stopping an iteration returns an error instead of nil", ir.FuncName(fn), how))
								} else {
									c.Violation(w.Parent(), P.InstrPos(w), "callback error wrapped before a == comparison with "+g.Name(),
										fmt.Sprintf("%s recognises the stop signal with `== %s`, but on the way from the user callback the error is wrapped here; the wrapped error is not equal to the sentinel, so stopping an iteration returns an error instead of nil (only when the callback stops inside this function's level)", ir.FuncName(fn), g.Name()))
								}
							}
						}
					}
					for _, w := range iterdoneUnknown {
						bad = true
						c.Undecided(w.Parent(), P.InstrPos(w), "callback error wrapped before an errors.Is test for "+g.Name(),
							fmt.Sprintf("%s recognises the stop signal with %s; whether this wrapping call keeps the callback's error reachable through Unwrap cannot be told (format not constant, or operands not a plain argument list)", ir.FuncName(fn), how))
					}
					iterdoneViaIs, iterdoneUnknown = false, nil
					for call, ret := range swallowedAt {
						bad = true
						c.Violation(call.Parent(), P.InstrPos(ret), "stop signal swallowed below "+fn.Name(),
							fmt.Sprintf("%s turns the callback's stop signal into a nil return; only %s may do that — the enclosing levels of the walk carry on with the remaining entries after the callback said stop", ir.FuncName(call.Parent()), ir.FuncName(fn)))
					}
					swallowedAt = map[*ssa.Call]*ssa.Return{}
					if !bad {
						if viaIs {
							c.OK(P.InstrPos(ins), fmt.Sprintf("%s tests for %s using errors.Is", ir.FuncName(fn), g.Name()), "callback errors reach the test unwrapped or wrapped with %w only, and unswallowed", false)
						} else {
							c.OK(P.InstrPos(ins), fmt.Sprintf("%s compares with %s using ==", ir.FuncName(fn), g.Name()), "callback errors reach the comparison unwrapped and unswallowed", false)
						}
					}
				}
			}
		}
	}
	if n == 0 {
		c.OK("-", "no ==/errors.Is test for a user-produced sentinel", "nothing to check", true)
	}
	// the walk must stop when the callback says so: what Iter/SeekIter hand down as the callback is the
	// user's function itself, or a wrapper that returns a non-nil error whenever the user's function does
	for _, name := range []string{"(*Mast).Iter", "(*Mast).SeekIter"} {
		fn := c.P.MastFunc(name)
		if fn == nil {
			continue
		}
		var cb *ssa.Parameter
		for _, p := range fn.Params {
			if sig, ok := p.Type().Underlying().(*types.Signature); ok && ir.ErrorResultIndex(sig) >= 0 {
				cb = p
			}
		}
		if cb == nil {
			continue
		}
		for _, ci := range CallsOf(fn) {
			if len(c.Facts.Callees(ci)) == 0 {
				continue
			}
			for _, a := range ci.Common().Args {
				if _, isFn := a.Type().Underlying().(*types.Signature); !isFn {
					continue
				}
				pos := P.InstrPos(ci)
				if ir.ResolveCell(a) == ssa.Value(cb) {
					c.OK(pos, name+" passes the user's callback down unchanged", "same function value", false)
					continue
				}
				mc, ok := a.(*ssa.MakeClosure)
				transparent := false
				if ok {
					w := mc.Fn.(*ssa.Function)
					for _, wc := range CallsOf(w) {
						call, isCall := wc.(*ssa.Call)
						if !isCall {
							continue
						}
						if fv, isFV := ir.ResolveCell(call.Call.Value).(*ssa.FreeVar); isFV && ir.BindingOf(fv) != nil && ir.Origin(call.Call.Value) == ssa.Value(cb) {
							if ok2, _ := errorPropagated(w, call, call); ok2 {
								transparent = true
							}
						}
					}
				}
				if transparent {
					c.OK(pos, name+" passes a wrapper of the user's callback", "the wrapper returns a non-nil error whenever the callback does", false)
				} else {
					f := c.Violation(fn, pos, "callback wrapped so that its stop signal does not stop the walk",
						"the function handed to the tree walk is not the user's callback and does not return the callback's error: when the callback says stop, the walk keeps loading every remaining node (an early-stopped iteration reads the whole tree)")
					f.Props = []string{"C16"} // the entries reported are still right: only the read bound breaks
				}
			}
		}
	}
}

// wrapsCallbackError: in fn (and callees that receive the same callback), is
// an error produced by calling parameter cb — or by such a callee — passed to
// a wrapping call whose result is returned?
// swallowedAt collects, per run of ITERDONE, callback(-family) calls whose error can end in a nil return below the API function.
var swallowedAt = map[*ssa.Call]*ssa.Return{}

func wrapsCallbackError(c *Ctx, fn *ssa.Function, cb *ssa.Parameter, seen map[*ssa.Function]bool) *ssa.Call {
	if seen[fn] {
		return nil
	}
	seen[fn] = true
	carriers := map[ssa.Value]bool{}
	for _, ci := range CallsOf(fn) {
		call, ok := ci.(*ssa.Call)
		if !ok {
			continue
		}
		if ir.ResolveCell(call.Call.Value) == ssa.Value(cb) {
			carriers[call] = true
			continue
		}
		for ai, a := range call.Call.Args {
			if ir.ResolveCell(a) == ssa.Value(cb) {
				carriers[call] = true
				if ir.ErrorResultIndex(call.Call.Signature()) >= 0 && call.Call.Signature().Results().Len() > 1 {
					// tuple result: the Extract is the carrier
					if call.Referrers() != nil {
						for _, r := range *call.Referrers() {
							if ex, ok := r.(*ssa.Extract); ok {
								carriers[ex] = true
							}
						}
					}
				}
				for _, callee := range c.Facts.Callees(call) {
					if ai < len(callee.Params) {
						if w := wrapsCallbackError(c, callee, callee.Params[ai], seen); w != nil {
							return w
						}
					}
				}
			}
		}
	}
	ei := ir.ErrorResultIndex(fn.Signature)
	if ei < 0 {
		return nil
	}
	// the stop signal must leave this level as an error: a level that turns it into nil lets the outer levels carry on
	for v := range carriers {
		call, ok := v.(*ssa.Call)
		if !ok {
			continue
		}
		var errV ssa.Value = call
		if call.Call.Signature().Results().Len() > 1 {
			continue
		}
		if ok2, ret := errorPropagated(fn, call, errV); !ok2 && ret != nil {
			swallowedAt[call] = ret
		}
	}
	return opaqueWrapReturned(c, fn, carriers, 0)
}

// ---- FINDOPTS --------------------------------------------------------------------------------------

// isMinFunc: fn(x, y) returns the smaller of its two parameters.
func isMinFunc(fn *ssa.Function) bool {
	if fn == nil || len(fn.Params) != 2 || fn.Signature.Results().Len() != 1 {
		return false
	}
	x, y := fn.Params[0], fn.Params[1]
	got := map[*ssa.Parameter]bool{}
	for _, r := range ir.Returns(fn) {
		// `return min(x, y)`: the Go 1.21 builtin applied to the two parameters
		if bc, ok := r.Results[0].(*ssa.Call); ok {
			if b, ok := bc.Call.Value.(*ssa.Builtin); ok && b.Name() == "min" && len(bc.Call.Args) == 2 {
				a0, a1 := bc.Call.Args[0], bc.Call.Args[1]
				if (a0 == ssa.Value(x) && a1 == ssa.Value(y)) || (a0 == ssa.Value(y) && a1 == ssa.Value(x)) {
					got[x], got[y] = true, true
					continue
				}
			}
			return false
		}
		p, ok := r.Results[0].(*ssa.Parameter)
		if !ok {
			return false
		}
		q := x
		if p == x {
			q = y
		}
		// facts: p <= q must hold here
		ok = false
		facts := ir.FactsAt(r.Block())
		for _, f := range facts {
			bin, isB := f.Cond.(*ssa.BinOp)
			if !isB {
				continue
			}
			a, b2 := bin.X, bin.Y
			op := bin.Op
			truth := f.Truth
			// normalise to "a OP b" true
			if !truth {
				switch op {
				case token.LSS:
					op = token.GEQ
				case token.LEQ:
					op = token.GTR
				case token.GTR:
					op = token.LEQ
				case token.GEQ:
					op = token.LSS
				default:
					continue
				}
			}
			switch {
			case a == ssa.Value(p) && b2 == ssa.Value(q) && (op == token.LSS || op == token.LEQ):
				ok = true
			case a == ssa.Value(q) && b2 == ssa.Value(p) && (op == token.GTR || op == token.GEQ):
				ok = true
			}
		}
		if !ok {
			return false
		}
		got[p] = true
	}
	return got[x] && got[y]
}

func runFINDOPTS(c *Ctx) {
	P := c.P
	n := 0
	for _, fn := range P.Funcs {
		if fn.Pkg.Pkg.Path() != ir.MastPath {
			continue
		}
		for _, b := range fn.Blocks {
			for _, ins := range b.Instrs {
				st, ok := ins.(*ssa.Store)
				if !ok {
					continue
				}
				fa, ok := st.Addr.(*ssa.FieldAddr)
				if !ok || !ir.IsPtrToNamed(fa.X.Type(), "findOptions") {
					continue
				}
				if _, isLit := fa.X.(*ssa.Alloc); !isLit {
					continue // the descent's own bookkeeping (currentHeight--), not an initialisation
				}
				field := ir.FieldName(fa.X.Type(), fa.Field)
				pos := P.InstrPos(st)
				switch field {
				case "targetLayer":
					n++
					what := "findOptions.targetLayer in " + ir.FuncName(fn)
					if inSeekRegion(c, fn) {
						c.OK(pos, what, "range scan: decided by SEEKLEAF (descends to the leaves)", true)
						continue
					}
					switch minLayerHeight(c, st.Val, 0) {
					case 0:
						c.Violation(fn, pos, "targetLayer is not min(key layer, height)",
							"a search must stop at the key's layer but never above the root: with targetLayer above the height the descent never reaches its target (lookups miss present keys, the height counter wraps)")
					case 1:
						c.Violation(fn, pos, "targetLayer not computed from keyLayer and height", "the two operands of the minimum must be the key's layer and the tree's height")
					default:
						c.OK(pos, what, "min(keyLayer(key, bf), m.height)", false)
					}
				case "currentHeight":
					n++
					if mastFieldLoad(st.Val, "height") {
						c.OK(pos, "findOptions.currentHeight in "+ir.FuncName(fn), "m.height", false)
					} else {
						c.Violation(fn, pos, "currentHeight is not the tree's height", "the descent counts levels down from the root's height")
					}
				}
			}
		}
	}
	if n == 0 {
		c.AnchorMissing("findOptions literals")
	}
}

// minLayerHeight: 2 = v is min(keyLayer(…), Mast.height) (directly, or the value every success return of a
// helper yields), 1 = a minimum of something else, 0 = not a minimum at all.
func minLayerHeight(c *Ctx, v ssa.Value, depth int) int {
	if depth > 2 {
		return 0
	}
	v = ir.Origin(v)
	var call *ssa.Call
	switch x := v.(type) {
	case *ssa.Call:
		call = x
	case *ssa.Extract:
		if x.Index != 0 {
			return 0
		}
		call, _ = x.Tuple.(*ssa.Call)
	}
	if call == nil {
		return 0
	}
	sc := ir.Callee(call.Call)
	isBuiltinMin := false
	if b, ok := call.Call.Value.(*ssa.Builtin); ok && b.Name() == "min" && len(call.Call.Args) == 2 {
		isBuiltinMin = true
	}
	if isBuiltinMin || isMinFunc(sc) {
		var layerOK, heightOK bool
		for _, a := range call.Call.Args {
			if mastFieldLoad(a, "height") {
				heightOK = true
			}
			if isKeyLayerResult(c, a, 0) {
				layerOK = true
			}
		}
		if layerOK && heightOK {
			return 2
		}
		return 1
	}
	if sc == nil || sc.Blocks == nil || !isOwn(c.P, sc) {
		return 0
	}
	ei := ir.ErrorResultIndex(sc.Signature)
	best, n := 2, 0
	for _, r := range ir.Returns(sc) {
		if ei >= 0 && !ir.IsNilConst(r.Results[ei]) {
			continue // failing return: the caller does not use the layer
		}
		n++
		if k := minLayerHeight(c, r.Results[0], depth+1); k < best {
			best = k
		}
	}
	if n == 0 {
		return 0
	}
	return best
}

// ---- DIRTYNEW -----------------------------------------------------------------------------------------

// valueHasDirtyTrue: a mastNode *value* whose dirty field is true: a composite
// literal, or the result of a function all of whose returns are such values.
func valueHasDirtyTrue(v ssa.Value, depth int) bool {
	if depth > 3 {
		return false
	}
	if lit := literalFields(v); lit != nil {
		d, ok := lit["dirty"]
		if !ok {
			return false
		}
		b, isC := ir.ConstBool(d)
		return isC && b
	}
	if call, ok := v.(*ssa.Call); ok {
		f := ir.Callee(call.Call)
		if f == nil || f.Blocks == nil {
			return false
		}
		rets := ir.Returns(f)
		if len(rets) == 0 {
			return false
		}
		for _, r := range rets {
			if len(r.Results) != 1 || !valueHasDirtyTrue(r.Results[0], depth+1) {
				return false
			}
		}
		return true
	}
	return false
}

func dirtyTrueStoreOn(x ssa.Value) func(ssa.Instruction) bool {
	return func(i ssa.Instruction) bool {
		if st, ok := i.(*ssa.Store); ok && isNodePtr(st.Addr.Type()) && sameBase(st.Addr, x) && valueHasDirtyTrue(st.Val, 0) {
			return true
		}
		b, f, st, ok := flagStore(i)
		if !ok || f != "dirty" || !sameBase(b, x) {
			return false
		}
		v, isC := ir.ConstBool(st.Val)
		return isC && v
	}
}

func returnsDirty(fn *ssa.Function, seen map[*ssa.Function]bool) bool {
	if seen[fn] {
		return true
	}
	seen[fn] = true
	rets := ir.Returns(fn)
	if len(rets) == 0 {
		return false
	}
	for _, r := range rets {
		v := r.Results[0]
		if ir.IsNilConst(v) {
			continue
		}
		if !ir.MustPass(r, dirtyTrueStoreOn(v)) {
			return false
		}
	}
	return true
}

func runDIRTYNEW(c *Ctx) {
	P := c.P
	ms := c.MustFunc("(*Mast).store")
	if ms == nil {
		return
	}
	for _, cs := range c.P.Callers[ms] {
		fn := cs.Parent()
		x := cs.Common().Args[len(cs.Common().Args)-1]
		pos := P.InstrPos(cs)
		what := fmt.Sprintf("node %s linked by %s", pathDesc(ir.Sym(x)), ir.FuncName(fn))
		ok := false
		why := ""
		// only a node that can become the tree's root needs the flag: IsDirty reads root.dirty; a fresh child (source
		// nil) is written by the node store whatever its flag says
		becomesRoot := false
		if call, isCall := cs.(*ssa.Call); isCall && call.Referrers() != nil {
			for _, r := range *call.Referrers() {
				ex, isEx := r.(*ssa.Extract)
				if !isEx || ex.Index != 0 {
					continue
				}
				for _, b := range fn.Blocks {
					for _, ins := range b.Instrs {
						if _, f, st, isSt := mastFieldStore(ins); isSt && f == "root" && ir.ResolveCell(ir.Strip(st.Val)) == ssa.Value(ex) {
							becomesRoot = true
						}
					}
				}
			}
		}
		if !becomesRoot {
			c.OK(pos, what, "becomes a child link only (never the root): the node store writes a fresh node regardless of its dirty flag", true)
			continue
		}
		switch v := ir.ResolveCell(x).(type) {
		case *ssa.Alloc:
			ok = ir.MustPass(cs, dirtyTrueStoreOn(v))
			why = "dirty=true stored on every path before it is linked"
		case *ssa.Call:
			if f := ir.Callee(v.Call); f != nil && f.Blocks != nil {
				ok = returnsDirty(f, map[*ssa.Function]bool{})
				why = "result of " + f.Name() + ", which marks every node it returns dirty"
			}
		case *ssa.Parameter:
			ok, why = true, "parameter (checked at the callers of "+fn.Name()+")"
		}
		if ok {
			c.OK(pos, what, why, false)
		} else {
			c.Violation(fn, pos, "new node linked without being marked dirty",
				"a node created by this operation becomes part of the tree with dirty=false: IsDirty can report a modified tree as clean, although its contents differ from the version it was loaded from")
		}
	}
}

// ---- MASTSHARE ------------------------------------------------------------------------------------------

func mastFieldRoot(v ssa.Value) (string, bool) {
	for i := 0; i < 8; i++ {
		switch x := v.(type) {
		case *ssa.Slice:
			v = x.X
		case *ssa.UnOp:
			if x.Op != token.MUL {
				return "", false
			}
			if fa, ok := x.X.(*ssa.FieldAddr); ok && ir.IsPtrToNamed(fa.X.Type(), "Mast") {
				if _, local := ir.ResolveCell(fa.X).(*ssa.Alloc); local {
					return "", false
				}
				return ir.FieldName(fa.X.Type(), fa.Field), true
			}
			return "", false
		default:
			return "", false
		}
	}
	return "", false
}

func runMASTSHARE(c *Ctx) {
	P := c.P
	n := 0
	for _, fn := range P.Funcs {
		if fn.Pkg.Pkg.Path() != ir.MastPath {
			continue
		}
		for _, b := range fn.Blocks {
			for _, ins := range b.Instrs {
				var root ssa.Value
				kind := ""
				switch x := ins.(type) {
				case *ssa.Store:
					if ia, ok := x.Addr.(*ssa.IndexAddr); ok {
						root, kind = ia.X, "element store"
					}
				case *ssa.MapUpdate:
					root, kind = x.Map, "map update"
				case *ssa.Call:
					if bi, ok := x.Call.Value.(*ssa.Builtin); ok && (bi.Name() == "append" || bi.Name() == "copy") && len(x.Call.Args) > 0 {
						root, kind = x.Call.Args[0], bi.Name()
					}
				}
				if root == nil {
					continue
				}
				if f, ok := mastFieldRoot(root); ok {
					n++
					c.Violation(fn, P.InstrPos(ins), kind+" through Mast."+f,
						"Clone copies the Mast struct by value, so clones share the memory behind this field; writing through it from trees used on different goroutines is a data race and lets one tree's operation corrupt another's")
				}
			}
		}
	}
	c.OK("-", "writes through slices/maps held in Mast fields", fmt.Sprintf("%d found", n), false)
	// type level: a reference-typed field is shared by every clone; the only ones allowed are the
	// interface-typed handles (root link, sample key/value, store, cache) and the function values
	if st := P.StructOf(ir.MastPath, "Mast"); st != nil {
		for i := 0; i < st.NumFields(); i++ {
			f := st.Field(i)
			// (looked for inside struct- and array-typed fields as well: `scratch struct{ path []pathEntry }`, a memo
			// struct holding a *mastNode — adv16-E-a1, -a3 — are copied by Clone just the same)
			kind := sharedRefKind(f.Type(), 0)
			if kind == "" {
				c.OK(P.Pos(f.Pos()), "Mast."+f.Name(), "value, interface or function typed", true)
				continue
			}
			c.Violation(nil, P.Pos(f.Pos()), "Mast."+f.Name()+" is a "+kind,
				"Clone copies the Mast struct by value: a "+kind+"-typed field makes every clone share that memory, so operations on clones from different goroutines race on it (scratch buffers, caches and counters must not live in Mast)")
		}
	} else {
		c.AnchorMissing("struct Mast")
	}
}

// sharedRefKind: does a value of type t, copied by assignment, share memory with the original? Slices, maps, pointers
// and channels do, at any depth inside structs and arrays; interfaces and function values are the tabled handles (root
// link, sample key/value, store, cache, callbacks) and are not followed; sync types must not be copied at all.
func sharedRefKind(t types.Type, d int) string {
	if d > 4 {
		return ""
	}
	if n, ok := types.Unalias(t).(*types.Named); ok && n.Obj().Pkg() != nil && n.Obj().Pkg().Path() == "sync" {
		return "sync." + n.Obj().Name() + " (copied by Clone)"
	}
	switch u := t.Underlying().(type) {
	case *types.Slice:
		return "slice"
	case *types.Map:
		return "map"
	case *types.Pointer:
		return "pointer"
	case *types.Chan:
		return "channel"
	case *types.Array:
		if k := sharedRefKind(u.Elem(), d+1); k != "" {
			return "array of " + k
		}
	case *types.Struct:
		for i := 0; i < u.NumFields(); i++ {
			if k := sharedRefKind(u.Field(i).Type(), d+1); k != "" {
				return "struct holding a " + k + " (field " + u.Field(i).Name() + ")"
			}
		}
	}
	return ""
}

// growLoopUnavoidable: in caller, every store to Mast.size from which the loop around cs can be reached is followed by the
// loop's test on every path to a successful return.
func growLoopUnavoidable(c *Ctx, caller *ssa.Function, cs ssa.CallInstruction) {
	P := c.P
	loop := map[*ssa.BasicBlock]bool{}
	for _, b := range caller.Blocks {
		if b == cs.Block() || (ir.CanReach(b, cs.Block()) && ir.CanReach(cs.Block(), b)) {
			loop[b] = true
		}
	}
	headers := map[*ssa.BasicBlock]bool{}
	for b := range loop {
		for _, p := range b.Preds {
			if !loop[p] {
				headers[b] = true
			}
		}
	}
	if len(headers) == 0 {
		return
	}
	ei := ir.ErrorResultIndex(caller.Signature)
	for _, b := range caller.Blocks {
		for _, ins := range b.Instrs {
			base, f, st, ok := mastFieldStore(ins)
			if !ok || f != "size" || loop[b] {
				continue
			}
			if _, local := ir.ResolveCell(base).(*ssa.Alloc); local {
				continue
			}
			reachesLoop := false
			for h := range headers {
				if ir.CanReach(b, h) {
					reachesLoop = true
				}
			}
			if !reachesLoop {
				continue // the size is updated after the loop (Insert counts the entry last)
			}
			// search from the store's block, not entering a loop header
			seen := map[*ssa.BasicBlock]bool{b: true}
			work := []*ssa.BasicBlock{b}
			var bad *ssa.Return
			for len(work) > 0 && bad == nil {
				x := work[0]
				work = work[1:]
				if x != b || true {
					if r, isRet := x.Instrs[len(x.Instrs)-1].(*ssa.Return); isRet && (x != b || true) {
						if ei >= 0 && ei < len(r.Results) && ir.IsNilConst(r.Results[ei]) {
							bad = r
						}
					}
				}
				for _, s2 := range x.Succs {
					if headers[s2] || seen[s2] {
						continue
					}
					seen[s2] = true
					work = append(work, s2)
				}
			}
			if bad != nil {
				c.Violation(caller, P.InstrPos(bad), "success return between the size update and the height loop",
					"after "+ir.FuncName(caller)+" has changed Mast.size (at "+P.InstrPos(st)+") a successful return is reachable without evaluating the test of the loop that adjusts the height: whatever decided to skip the loop was computed from the old size or from the node as it was before the change, so a tree can keep a height its new size no longer justifies — equal contents persist to different roots")
			} else {
				c.OK(P.InstrPos(st), "size update in "+ir.FuncName(caller)+" is followed by the height loop", "every successful return after it passes the loop's test", false)
			}
		}
	}
}

// ---- GROWLOOP ---------------------------------------------------------------------------------------------

func runGROWLOOP(c *Ctx) {
	P := c.P
	// level-changing functions: those that store Mast.height ± 1 on a non-local Mast
	dir := map[*ssa.Function]int{}
	for _, fn := range P.Funcs {
		for _, b := range fn.Blocks {
			for _, ins := range b.Instrs {
				base, f, st, ok := mastFieldStore(ins)
				if !ok || f != "height" {
					continue
				}
				if _, local := ir.ResolveCell(base).(*ssa.Alloc); local {
					continue
				}
				if bin, ok := st.Val.(*ssa.BinOp); ok && mastFieldLoad(bin.X, "height") {
					if bin.Op == token.ADD {
						dir[fn] = 1
					} else if bin.Op == token.SUB {
						dir[fn] = -1
					}
				}
			}
		}
	}
	if len(dir) < 2 {
		c.AnchorMissing("functions that add and remove a level (store height±1)")
		return
	}
	// a private helper that performs the step once (installGrownRoot called by grow) makes its caller the
	// level-changing function: the loop is looked for around the outermost such caller
	var order []*ssa.Function
	for fn := range dir {
		order = append(order, fn)
	}
	sort.Slice(order, func(i, j int) bool { return ir.PosLess(order[i].Pos(), order[j].Pos()) })
	for qi := 0; qi < len(order); qi++ {
		fn := order[qi]
		d := dir[fn]
		for _, cs := range c.P.Callers[fn] {
			caller := cs.Parent()
			what := fmt.Sprintf("%s calls %s", ir.FuncName(caller), fn.Name())
			if co := ir.Outermost(caller); !inCycle(cs.Block()) && co == caller && co.Object() != nil && !co.Object().Exported() && !c.Facts.addrTaken[co] && len(c.P.Callers[co]) > 0 && co != fn {
				if _, seen := dir[co]; !seen {
					dir[co] = d
					order = append(order, co)
				}
				c.OK(P.InstrPos(cs), what, "single step inside the private helper "+ir.FuncName(co)+": the loop is required around its callers", false)
				continue
			}
			// the guard on the height: every level above 0 may be removed, none may be required beyond that
			for _, f := range ir.FactsAt(cs.Block()) {
				bin, ok := f.Cond.(*ssa.BinOp)
				if !ok || !mastFieldLoad(bin.X, "height") {
					continue
				}
				k, isK := ir.ConstInt(bin.Y)
				if !isK {
					continue
				}
				op := bin.Op
				if !f.Truth {
					switch op {
					case token.GTR:
						op = token.LEQ
					case token.GEQ:
						op = token.LSS
					case token.LSS:
						op = token.GEQ
					case token.LEQ:
						op = token.GTR
					case token.EQL:
						op = token.NEQ
					case token.NEQ:
						op = token.EQL
					}
				}
				okGuard := (op == token.GTR && k == 0) || (op == token.NEQ && k == 0) || (op == token.GEQ && k == 1)
				if d < 0 && !okGuard {
					c.Violation(caller, P.InstrPos(cs), "level removal guarded by height "+op.String()+fmt.Sprint(k),
						"a tree may shrink whenever its height is above 0; a stricter guard leaves a tree (down to the empty one) with a height its size no longer justifies, so equal contents persist to different roots")
				} else if d < 0 {
					c.OK(P.InstrPos(cs), what+" under height > 0", "the only height guard is 'above level 0'", false)
				}
			}
			if inCycle(cs.Block()) {
				c.OK(P.InstrPos(cs), what, "inside a loop: repeated until the height rule is satisfied", false)
				// … and the loop's test is evaluated after every change of the size that precedes it: no successful
				// return lies between the size update and the loop (adv16-B-a1: Delete decided *before* removing the
				// entry that "the height cannot change" — with the size one too high — and returned before the loop)
				growLoopUnavoidable(c, caller, cs)
			} else {
				verb := "grow"
				if d < 0 {
					verb = "shrink"
				}
				c.Violation(caller, P.InstrPos(cs), "single "+verb+" step",
					"one operation can require the height to change by more than one level (e.g. inserting a key whose layer is two above the height once size allows it); applying a single step leaves a tree that is not the canonical one for its contents")
			}
		}
	}
}

// ---- NILSLICE ------------------------------------------------------------------------------------------------

func nonNilBacked(v ssa.Value, ownBase ssa.Value, ownField string, d int) (bool, string) {
	return nonNilBackedE(v, ownBase, ownField, d, nil)
}

func nonNilBackedE(v ssa.Value, ownBase ssa.Value, ownField string, d int, env *penv) (bool, string) {
	if d > 8 {
		return false, "too deep"
	}
	switch x := v.(type) {
	case *ssa.MakeSlice:
		return true, "make"
	case *ssa.Const:
		return false, "nil"
	case *ssa.ChangeType:
		return nonNilBackedE(x.X, ownBase, ownField, d+1, env)
	case *ssa.Convert:
		return nonNilBackedE(x.X, ownBase, ownField, d+1, env)
	case *ssa.Slice:
		if _, ok := x.X.(*ssa.Alloc); ok {
			return true, "literal"
		}
		return nonNilBackedE(x.X, ownBase, ownField, d+1, env)
	case *ssa.Call:
		if b, ok := x.Call.Value.(*ssa.Builtin); ok && b.Name() == "append" {
			return nonNilBackedE(x.Call.Args[0], ownBase, ownField, d+1, env)
		}
		if n, ok := stdSliceOp(x); ok && n != "slices.Clip" {
			return nonNilBackedE(x.Call.Args[0], ownBase, ownField, d+1, env)
		}
		if rets, ne, callee := helperReturns(x, env); rets != nil && d < 6 {
			for _, rv := range rets {
				if ok, why := nonNilBackedE(rv, ownBase, ownField, d+2, ne); !ok {
					return false, why + " (returned by " + callee.Name() + ")"
				}
			}
			return true, "result of " + callee.Name()
		}
		return false, "call result"
	case *ssa.Extract:
		if rets, ne, callee := helperReturns(x, env); rets != nil && d < 6 {
			for _, rv := range rets {
				if ok, why := nonNilBackedE(rv, ownBase, ownField, d+2, ne); !ok {
					return false, why + " (returned by " + callee.Name() + ")"
				}
			}
			return true, "result of " + callee.Name()
		}
		return false, "call result"
	case *ssa.Parameter:
		if a, up, ok := env.lookup(x); ok {
			return nonNilBackedE(a, ownBase, ownField, d+1, up)
		}
		return false, "a parameter"
	case *ssa.UnOp:
		if x.Op == token.MUL {
			if _, f, _, ok := nodeBaseOfAddr(x.X); ok && (f == "Key" || f == "Value" || f == "Link") {
				return true, "a node's ." + f + " (non-nil by induction)"
			}
		}
		return false, "loaded slice"
	case *ssa.Phi:
		for _, e := range x.Edges {
			if ok, why := nonNilBackedE(e, ownBase, ownField, d+1, env); !ok {
				return false, why
			}
		}
		return true, "phi"
	}
	return false, fmt.Sprintf("%T", v)
}

func runNILSLICE(c *Ctx) {
	P := c.P
	A := c.Facts.Own()
	for _, w := range A.Writes {
		st, ok := w.Instr.(*ssa.Store)
		if !ok || w.Kind != "field" || (w.Field != "Key" && w.Field != "Value") {
			continue
		}
		pos := P.InstrPos(st)
		what := fmt.Sprintf("%s.%s = … in %s", pathDesc(ir.Sym(w.Base)), w.Field, ir.FuncName(w.Fn))
		if ok, why := nonNilBacked(st.Val, w.Base, w.Field, 0); ok {
			c.OK(pos, what, why, false)
		} else {
			c.Violation(w.Fn, pos, "node."+w.Field+" may become a nil slice ("+why+")",
				"an empty Key/Value list must be an empty slice, not nil: under the JSON (v1marshaler) node format nil encodes as null and empty as [], so equal entries would be stored as different bytes under different names")
		}
	}
}

// ---- MAKECAP / POWLOOP (added after the C01 mutants) -------------------------------------------------------

func init() {
	Register(&Rule{ID: "MAKECAP", Props: []string{"C01", "C05"}, Min: 5,
		Doc: "make([]T, n, c) panics when n > c: every make with a non-constant capacity has a length that is 0, a constant not above a capacity of the form e+k (k ≥ that constant), the same expression as the capacity, or is dominated by a test establishing n ≤ c.",
		Run: runMAKECAP})
	Register(&Rule{ID: "POWLOOP", Props: []string{"C04", "C05", "C01", "C09"}, Min: 1,
		Doc: "LoadMast recomputes shrinkBelowSize as BranchFactor^Height: the stored value is the accumulator of a counted loop that starts at 1, multiplies by Root.BranchFactor once per iteration and runs exactly Root.Height times.",
		Run: runPOWLOOP})
}

func stripConv(v ssa.Value) ssa.Value {
	for {
		switch x := v.(type) {
		case *ssa.Convert:
			v = x.X
		case *ssa.ChangeType:
			v = x.X
		default:
			return v
		}
	}
}

func runMAKECAP(c *Ctx) {
	P := c.P
	for _, fn := range P.Funcs {
		for _, b := range fn.Blocks {
			for _, ins := range b.Instrs {
				mk, ok := ins.(*ssa.MakeSlice)
				if !ok {
					continue
				}
				pos := P.InstrPos(mk)
				what := fmt.Sprintf("make(len=%s, cap=%s) in %s", pathDesc(ir.Sym(mk.Len)), pathDesc(ir.Sym(mk.Cap)), ir.FuncName(fn))
				if mk.Len == mk.Cap || ir.Sym(stripConv(mk.Len)) == ir.Sym(stripConv(mk.Cap)) {
					c.OK(pos, what, "length and capacity are the same expression", true)
					continue
				}
				lk, lConst := ir.ConstInt(mk.Len)
				ck, cConst := ir.ConstInt(mk.Cap)
				if lConst && cConst {
					if lk <= ck {
						c.OK(pos, what, "constants", true)
					} else {
						c.Violation(fn, pos, "make with constant length above constant capacity", "always panics")
					}
					continue
				}
				if lConst && lk == 0 {
					c.OK(pos, what, "length 0", true)
					continue
				}
				if lConst {
					if add, ok := stripConv(mk.Cap).(*ssa.BinOp); ok && add.Op == token.ADD {
						if k, isK := ir.ConstInt(add.Y); isK && k >= lk {
							c.OK(pos, what, fmt.Sprintf("capacity is e+%d ≥ %d for a non-negative e", k, lk), false)
							continue
						}
					}
				}
				// capacity written as max(len, …): at least the length by construction
				if mc, ok := stripConv(mk.Cap).(*ssa.Call); ok {
					if bi, ok := mc.Call.Value.(*ssa.Builtin); ok && bi.Name() == "max" {
						hasLen := false
						for _, a := range mc.Call.Args {
							if a == mk.Len || ir.Sym(stripConv(a)) == ir.Sym(stripConv(mk.Len)) {
								hasLen = true
							}
						}
						if hasLen {
							c.OK(pos, what, "capacity is max(len, …)", false)
							continue
						}
					}
				}
				// a dominating comparison between the two
				proved := false
				ls, cs := ir.Sym(stripConv(mk.Len)), ir.Sym(stripConv(mk.Cap))
				for _, f := range ir.FactsAt(b) {
					bin, ok := f.Cond.(*ssa.BinOp)
					if !ok {
						continue
					}
					xs, ys := ir.Sym(stripConv(bin.X)), ir.Sym(stripConv(bin.Y))
					op := bin.Op
					if !f.Truth {
						switch op {
						case token.GTR:
							op = token.LEQ
						case token.GEQ:
							op = token.LSS
						case token.LSS:
							op = token.GEQ
						case token.LEQ:
							op = token.GTR
						default:
							continue
						}
					}
					if xs == ls && ys == cs && (op == token.LEQ || op == token.LSS) {
						proved = true
					}
					if xs == cs && ys == ls && (op == token.GEQ || op == token.GTR) {
						proved = true
					}
				}
				if proved {
					c.OK(pos, what, "dominated by a test establishing len ≤ cap", false)
				} else {
					c.Violation(fn, pos, "make whose length may exceed its capacity",
						"nothing on the path establishes len ≤ cap: for a node with more entries than the capacity expression allows (an over-full node is legal) make panics with 'cap out of range' — a panic on a healthy store")
				}
			}
		}
	}
}

func runPOWLOOP(c *Ctx) {
	P := c.P
	fn := c.MustFunc("(*Root).LoadMast")
	if fn == nil {
		return
	}
	var env map[*ssa.Parameter]ssa.Value
	var isRootField func(v ssa.Value, name string) bool
	isRootField = func(v ssa.Value, name string) bool {
		if p, isP := stripConv(v).(*ssa.Parameter); isP && env != nil && env[p] != nil {
			saved := env
			env = nil
			r := isRootField(saved[p], name)
			env = saved
			return r
		}
		ld, ok := stripConv(v).(*ssa.UnOp)
		if !ok || ld.Op != token.MUL {
			return false
		}
		fa, ok := ld.X.(*ssa.FieldAddr)
		return ok && ir.IsPtrToNamed(fa.X.Type(), "Root") && ir.FieldName(fa.X.Type(), fa.Field) == name
	}
	n := 0
	for _, b := range fn.Blocks {
		for _, ins := range b.Instrs {
			_, f, st, ok := mastFieldStore(ins)
			if !ok || f != "shrinkBelowSize" {
				continue
			}
			n++
			pos := P.InstrPos(st)
			val := st.Val
			env = nil
			if inner, e, ok := helperResult(val); ok {
				val, env = inner, e
			}
			acc, ok := stripConv(val).(*ssa.Phi)
			if !ok {
				c.Undecided(fn, pos, "shrinkBelowSize not a loop accumulator", "cannot recognise how BranchFactor^Height is computed")
				continue
			}
			// `for range n` (Go 1.22) is built bottom-tested: pre: if 0 < n goto body else done; body: acc, i = φ…;
			// acc' = acc·bf; i' = i+1; if i' < n goto body else done; done: φ(1 from pre, acc' from body)
			if okRot, whyRot, isRot := powRotated(acc, isRootField); isRot {
				if okRot {
					c.OK(pos, "shrinkBelowSize in LoadMast", "accumulator of a range-over-int loop: starts at 1, multiplied by Root.BranchFactor once per iteration, exactly Root.Height iterations", false)
				} else {
					c.Violation(fn, pos, "shrinkBelowSize is not BranchFactor^Height", whyRot+": a reloaded tree gets the thresholds of a different height and grows/shrinks at the wrong sizes (e.g. deleting it empty fails in shrink)")
				}
				continue
			}
			h := acc.Block()
			var why []string
			// accumulator: 1 outside, acc*BranchFactor inside
			loop := map[*ssa.BasicBlock]bool{}
			if len(h.Succs) == 2 {
				loop = ir.ReachableFrom(h.Succs[0], func(_, to *ssa.BasicBlock) bool { return to == h })
			}
			for i, e := range acc.Edges {
				if loop[h.Preds[i]] {
					mul, ok := stripConv(e).(*ssa.BinOp)
					if !ok || mul.Op != token.MUL || !((stripConv(mul.X) == ssa.Value(acc) && isRootField(mul.Y, "BranchFactor")) || (stripConv(mul.Y) == ssa.Value(acc) && isRootField(mul.X, "BranchFactor"))) {
						why = append(why, "the accumulator is not multiplied by Root.BranchFactor once per iteration")
					}
				} else if k, isK := ir.ConstInt(stripConv(e)); !isK || k != 1 {
					why = append(why, "the accumulator does not start at 1")
				}
			}
			// trip count: exactly Height iterations
			iff, _ := h.Instrs[len(h.Instrs)-1].(*ssa.If)
			okTrip := false
			if iff != nil {
				if cmp, ok := iff.Cond.(*ssa.BinOp); ok {
					ctr, _ := stripConv(cmp.X).(*ssa.Phi)
					if ctr != nil && ctr.Block() == h {
						var init, step int64 = -99, 0
						for i, e := range ctr.Edges {
							if loop[h.Preds[i]] {
								if inc, ok := stripConv(e).(*ssa.BinOp); ok && stripConv(inc.X) == ssa.Value(ctr) {
									if k, isK := ir.ConstInt(inc.Y); isK {
										if inc.Op == token.ADD {
											step = k
										} else if inc.Op == token.SUB {
											step = -k
										}
									}
								}
							} else if k, isK := ir.ConstInt(stripConv(e)); isK {
								init = k
							}
						}
						bound := isRootField(cmp.Y, "Height")
						switch {
						case bound && cmp.Op == token.LSS && init == 0 && step == 1:
							okTrip = true
						case bound && cmp.Op == token.LEQ && init == 1 && step == 1:
							okTrip = true
						}
						if !okTrip {
							why = append(why, fmt.Sprintf("the loop does not run exactly Root.Height times (counter starts at %d, step %+d, test %s against Height=%v)", init, step, cmp.Op, bound))
						}
					} else if ctr2, _ := stripConv(cmp.X).(*ssa.Phi); ctr2 != nil {
						_ = ctr2
					}
				}
			}
			if iff == nil {
				why = append(why, "no loop condition")
			} else if !okTrip && len(why) == 0 {
				// e.g. counting down from Height
				if cmp, ok := iff.Cond.(*ssa.BinOp); ok {
					if ctr, _ := stripConv(cmp.X).(*ssa.Phi); ctr != nil && ctr.Block() == h && cmp.Op == token.GTR {
						if k, isK := ir.ConstInt(cmp.Y); isK && k == 0 {
							initOK, stepOK := false, false
							for i, e := range ctr.Edges {
								if loop[h.Preds[i]] {
									if dec, ok := stripConv(e).(*ssa.BinOp); ok && dec.Op == token.SUB && stripConv(dec.X) == ssa.Value(ctr) {
										if k, isK := ir.ConstInt(dec.Y); isK && k == 1 {
											stepOK = true
										}
									}
								} else if isRootField(e, "Height") {
									initOK = true
								}
							}
							okTrip = initOK && stepOK
						}
					}
				}
				if !okTrip {
					why = append(why, "cannot show that the loop runs exactly Root.Height times")
				}
			}
			if len(why) == 0 {
				c.OK(pos, "shrinkBelowSize = BranchFactor^Height in "+ir.FuncName(fn), "accumulator starts at 1, ×BranchFactor per iteration, exactly Height iterations", false)
			} else {
				c.Violation(fn, pos, "shrinkBelowSize is not BranchFactor^Height", strings.Join(why, "; ")+": a reloaded tree gets the thresholds of a different height and grows/shrinks at the wrong sizes (e.g. deleting it empty fails in shrink)")
			}
		}
	}
	if n == 0 {
		c.AnchorMissing("store of Mast.shrinkBelowSize in LoadMast")
	}
}

// allocatesDecodeTarget: the call is reflect.New, or a repository helper whose
// result is built from a reflect.New executed inside it (one allocation per call).
func allocatesDecodeTarget(call *ssa.Call, depth int) bool {
	sc := ir.Callee(call.Call)
	if sc == nil {
		return false
	}
	if sc.String() == "reflect.New" {
		return true
	}
	if depth >= 2 || sc.Blocks == nil {
		return false
	}
	for _, r := range ir.Returns(sc) {
		for _, res := range r.Results {
			for v := range operandClosure(res, nil) {
				if c2, ok := v.(*ssa.Call); ok && c2 != call && c2.Parent() == sc && allocatesDecodeTarget(c2, depth+1) {
					return true
				}
			}
		}
	}
	return false
}

// ---- GROWCHECK (added after C04 round 2) -------------------------------------------------------------------

func init() {
	Register(&Rule{ID: "GROWCHECK", Props: []string{"C04", "C12"}, Min: 1,
		Doc: "the node Insert examines to decide whether the tree must grow is the root it has just installed: the receiver of the growth test is element 0 of the very path slice handed to the root-installing call (or a load of the root) and is read after that call.",
		Run: runGROWCHECK})
}

func runGROWCHECK(c *Ctx) {
	P := c.P
	ins := c.MustFunc("(*Mast).Insert")
	if ins == nil {
		return
	}
	// root-installing calls: callees that store Mast.root and take a []pathEntry
	type inst struct {
		site rsite
		path string // the path argument, in Insert's terms
	}
	sites := regionSites(c, ins)
	var installs []inst
	for _, rs := range sites {
		ci := rs.ci
		for _, callee := range c.Facts.Callees(ci) {
			storesRoot := false
			for _, b := range callee.Blocks {
				for _, i := range b.Instrs {
					if _, f, _, ok := mastFieldStore(i); ok && f == "root" {
						storesRoot = true
					}
				}
			}
			if !storesRoot {
				continue
			}
			for _, a := range ci.Common().Args {
				if sl, ok := a.Type().Underlying().(*types.Slice); ok && ir.IsNamed(sl.Elem(), pathNames(c.P).typ) {
					installs = append(installs, inst{rs, rs.symInEntry(ir.Sym(a))})
				}
			}
		}
	}
	if len(installs) == 0 {
		c.AnchorMissing("Insert's call that installs the new root from the search path")
		return
	}
	// does a run before b? both are sites of Insert's region: compared at their anchors in Insert, or, under the same
	// anchor, inside the helper they share
	before := func(a, b rsite) bool {
		if a.anchor() != b.anchor() {
			return ir.Before(a.anchor(), b.anchor())
		}
		return a.ci.Parent() == b.ci.Parent() && ir.Before(a.ci, b.ci)
	}
	reaches := func(a, b rsite) bool {
		if a.anchor() != b.anchor() {
			return ir.InstrReaches(a.anchor(), b.anchor())
		}
		return a.ci.Parent() == b.ci.Parent() && ir.InstrReaches(a.ci, b.ci)
	}
	// growth tests: calls in a loop of Insert (or of a private helper of it) on a *mastNode returning (bool, error)
	n := 0
	for _, rs := range sites {
		call, ok := rs.ci.(*ssa.Call)
		if !ok || !rs.inLoop() {
			continue
		}
		var recv ssa.Value
		for _, a := range call.Call.Args {
			if isNodePtr(a.Type()) && recv == nil {
				recv = a // the node the test looks at (the receiver, or the argument of a Mast method)
			}
		}
		if recv == nil {
			continue
		}
		res := call.Call.Signature().Results()
		if res.Len() != 2 || !ir.IsErrorType(res.At(1).Type()) {
			continue
		}
		if b, ok := res.At(0).Type().Underlying().(*types.Basic); !ok || b.Kind() != types.Bool {
			continue
		}
		n++
		// the test runs the layer callback on the root's keys after the new root is installed: it is consulted only once
		// the size allows a growth at all, so an ordinary insert has no fallible step after its commit point
		sizeOK := false
		for _, f := range rs.facts() {
			bin, isBin := f.Cond.(*ssa.BinOp)
			if !isBin {
				continue
			}
			x, y, op := bin.X, bin.Y, bin.Op
			if mastFieldLoad(y, "size") && mastFieldLoad(x, "growAfterSize") {
				x, y = y, x
				switch op {
				case token.LSS:
					op = token.GTR
				case token.GTR:
					op = token.LSS
				case token.LEQ:
					op = token.GEQ
				case token.GEQ:
					op = token.LEQ
				}
			}
			if !mastFieldLoad(x, "size") || !mastFieldLoad(y, "growAfterSize") {
				continue
			}
			if (op == token.GEQ && f.Truth) || (op == token.LSS && !f.Truth) || (op == token.GTR && f.Truth) {
				sizeOK = true
			}
		}
		// a wrapper around the real test (`m.shouldGrow(node)` whose body compares the size and then asks canGrow):
		// the clause is decided at the inner site
		if !sizeOK {
			if h := ir.Callee(call.Call); h != nil && privateHelper(c, h) {
				for _, inner := range sites {
					ic, isCall := inner.ci.(*ssa.Call)
					if !isCall || ic.Parent() != h || ic == call {
						continue
					}
					res := ic.Call.Signature().Results()
					if res.Len() == 2 && ir.IsErrorType(res.At(1).Type()) {
						if bt, ok := res.At(0).Type().Underlying().(*types.Basic); ok && bt.Kind() == types.Bool {
							for _, a := range ic.Call.Args {
								if isNodePtr(a.Type()) {
									sizeOK = true
								}
							}
						}
					}
				}
			}
		}
		if sizeOK {
			c.OK(P.InstrPos(call), "growth test consulted only at the size threshold", "under size ≥ growAfterSize", false)
		} else {
			c.Violation(ins, P.InstrPos(call), "growth test runs on every insert",
				"the growth test (which runs the layer callback on the root's keys) is reached without the size having been compared with growAfterSize first: every Insert then has a fallible callback after the new root was installed, so a failing layer/marshal function leaves the key inserted with the size not updated on any insert, not only at a threshold")
		}
		// the installing call that dominates this test
		var install *inst
		for i := range installs {
			if before(installs[i].site, rs) {
				install = &installs[i]
			}
		}
		if install == nil {
			c.Violation(ins, P.InstrPos(call), "growth test not preceded by installing the new root", "the test would look at the tree as it was before this insert")
			continue
		}
		want := "*" + install.path + "[0]." + nodeFieldName
		_, isRoot := rootLoad(recv)
		pos := P.InstrPos(call)
		switch {
		case !reaches(install.site, rs):
			c.Violation(ins, pos, "growth test before the new root is installed", "the test would look at the tree as it was before this insert")
		case rs.symInEntry(ir.Sym(recv)) == want:
			// a node the helper was handed is the value the caller read
			lifted := recv
			for i := len(rs.chain) - 1; i >= 0; i-- {
				prm, isP := ir.ResolveCell(lifted).(*ssa.Parameter)
				if !isP || prm.Parent() != ir.Callee(rs.chain[i].Call) {
					break
				}
				lifted = rs.chain[i].Call.Args[paramIndex(prm)]
			}
			ld, isLd := lifted.(*ssa.UnOp)
			after := isLd && ((ld.Parent() == install.site.ci.Parent() && ir.InstrReaches(install.site.ci, ld)) ||
				(ld.Parent() != install.site.ci.Parent() && ld.Parent() == call.Parent() && len(rs.chain) > 0 && install.site.anchor() != rs.anchor()))
			if after {
				c.OK(pos, "growth test on the installed root", "receiver is "+pathDesc(want)+", read after the root was installed", false)
			} else {
				c.Violation(ins, pos, "growth test on a node read before the root was installed", "the path's first node is replaced by a copy when the root is installed; the earlier value does not contain the new key")
			}
		case isRoot:
			c.OK(pos, "growth test on the installed root", "receiver is a load of Mast.root", false)
		default:
			c.Violation(ins, pos, "growth test on a node that is not the new root",
				"whether the tree must grow depends on the layers of the keys now in the root, including the key just inserted; a node obtained before the insert (the old, shared root) lacks it, so the first insert after a persist or reload can leave the tree one level too low")
		}
	}
	if n == 0 {
		c.Undecided(ins, P.Pos(ins.Pos()), "no growth test found", "Insert has no looped (bool, error) test on a node")
	}
}

// powRotated recognises the bottom-tested loop go/ssa builds for `for range n` around an accumulator:
// exit = φ(1 [from the pre-test], mul [from the body]); body: a = φ(1, mul), i = φ(0, i+1); mul = a·BranchFactor;
// body ends in `i+1 < n`, the pre-test is `0 < n`, n = Root.Height.
func powRotated(exit *ssa.Phi, isRootField func(ssa.Value, string) bool) (ok bool, why string, isRot bool) {
	if len(exit.Edges) != 2 {
		return false, "", false
	}
	xb := exit.Block()
	var body, pre *ssa.BasicBlock
	var mul *ssa.BinOp
	var init ssa.Value
	for i, e := range exit.Edges {
		p := xb.Preds[i]
		if m, isM := stripConv(e).(*ssa.BinOp); isM && m.Op == token.MUL && m.Block() == p {
			// the body loops on itself
			self := false
			for _, s := range p.Succs {
				if s == p {
					self = true
				}
			}
			if self {
				body, mul = p, m
				continue
			}
		}
		pre, init = p, e
	}
	if body == nil || pre == nil || mul == nil {
		return false, "", false
	}
	isRot = true
	if k, isK := ir.ConstInt(stripConv(init)); !isK || k != 1 {
		return false, "the result for zero iterations is not 1", true
	}
	var a *ssa.Phi
	if p, isP := stripConv(mul.X).(*ssa.Phi); isP && p.Block() == body && isRootField(mul.Y, "BranchFactor") {
		a = p
	} else if p, isP := stripConv(mul.Y).(*ssa.Phi); isP && p.Block() == body && isRootField(mul.X, "BranchFactor") {
		a = p
	}
	if a == nil {
		return false, "the accumulator is not multiplied by Root.BranchFactor once per iteration", true
	}
	for i, e := range a.Edges {
		if body.Preds[i] == body {
			if stripConv(e) != ssa.Value(mul) {
				return false, "the accumulator is not carried round the loop", true
			}
		} else if k, isK := ir.ConstInt(stripConv(e)); !isK || k != 1 {
			return false, "the accumulator does not start at 1", true
		}
	}
	// trip count
	biff, _ := body.Instrs[len(body.Instrs)-1].(*ssa.If)
	piff, _ := pre.Instrs[len(pre.Instrs)-1].(*ssa.If)
	if biff == nil || piff == nil || body.Succs[0] != body || pre.Succs[0] != body {
		return false, "the loop does not have the shape of a counted range", true
	}
	bc, _ := biff.Cond.(*ssa.BinOp)
	pc, _ := piff.Cond.(*ssa.BinOp)
	if bc == nil || pc == nil || bc.Op != token.LSS || pc.Op != token.LSS || !isRootField(bc.Y, "Height") || !isRootField(pc.Y, "Height") {
		return false, "the loop is not bounded by Root.Height", true
	}
	if k, isK := ir.ConstInt(stripConv(pc.X)); !isK || k != 0 {
		return false, "the pre-test is not 0 < Root.Height", true
	}
	inc, _ := stripConv(bc.X).(*ssa.BinOp)
	if inc == nil || inc.Op != token.ADD {
		return false, "the counter is not stepped by one", true
	}
	ctr, _ := stripConv(inc.X).(*ssa.Phi)
	if k, isK := ir.ConstInt(inc.Y); ctr == nil || ctr.Block() != body || !isK || k != 1 {
		return false, "the counter is not stepped by one", true
	}
	for i, e := range ctr.Edges {
		if body.Preds[i] == body {
			if stripConv(e) != ssa.Value(inc) {
				return false, "the counter is not carried round the loop", true
			}
		} else if k, isK := ir.ConstInt(stripConv(e)); !isK || k != 0 {
			return false, "the counter does not start at 0", true
		}
	}
	return true, "", true
}

// isKeyLayerResult: v is the layer the tree's layer callback computed — result #0 of a call of the keyLayer field, or of
// a private helper (`layerOf(key)`) whose every non-error return hands back such a result.
func isKeyLayerResult(c *Ctx, v ssa.Value, d int) bool {
	if d > 2 {
		return false
	}
	ex, ok := ir.Origin(v).(*ssa.Extract)
	if !ok || ex.Index != 0 {
		return false
	}
	call, ok := ex.Tuple.(*ssa.Call)
	if !ok {
		return false
	}
	if strings.HasPrefix(c.Facts.External(call), "callback:keyLayer") {
		return true
	}
	sc := ir.Callee(call.Call)
	if sc == nil || sc.Blocks == nil || !isOwn(c.P, sc) {
		return false
	}
	ei := ir.ErrorResultIndex(sc.Signature)
	n := 0
	for _, r := range ir.Returns(sc) {
		if ei >= 0 && ei < len(r.Results) && !ir.IsNilConst(r.Results[ei]) {
			continue
		}
		if len(r.Results) == 0 || !isKeyLayerResult(c, r.Results[0], d+1) {
			return false
		}
		n++
	}
	return n > 0
}
