package rules

import (
	"strings"

	"golang.org/x/tools/go/ssa"

	"mastcheck/ir"
)

func init() {
	Register(&Rule{ID: "CLEANSKIP", Props: []string{"C13"}, Min: 3,
		Doc: "in the node store, for a clean node with a known name (¬dirty ∧ source≠nil) neither the encoder call, nor the queue send, nor the recursion into children is reachable: " +
			"persisting an unmodified tree marshals and writes nothing.",
		Run: runCLEANSKIP})
}

// persistingStoreFn returns the persisting node store (outer function of the
// Persist.Store site) and its receiver.
func persistingStoreFn(c *Ctx) (*ssa.Function, *ssa.Parameter) {
	sites := storeSites(c)
	if len(sites) == 0 {
		c.AnchorMissing("Persist.Store call site")
		return nil, nil
	}
	fn := ir.Outermost(sites[0].Parent())
	if len(fn.Params) == 0 || !isNodePtr(fn.Params[0].Type()) {
		c.AnchorMissing("node store with a *mastNode receiver")
		return nil, nil
	}
	return fn, fn.Params[0]
}

func runCLEANSKIP(c *Ctx) {
	P := c.P
	fn, recv := persistingStoreFn(c)
	if fn == nil {
		return
	}
	A := c.Facts.Own()
	n := 0
	for _, b := range fn.Blocks {
		for _, ins := range b.Instrs {
			what := ""
			switch x := ins.(type) {
			case *ssa.Send:
				what = "queue send"
			case *ssa.Call:
				ext := c.Facts.External(x)
				if strings.HasPrefix(ext, "callback:") {
					what = "encoder call (" + strings.TrimPrefix(ext, "callback:") + ")"
				}
				for _, callee := range c.Facts.Callees(x) {
					if callee == fn {
						what = "recursion into a child"
					}
				}
				if ext == "NodeCache.Contains" || ext == "Persist.NodeURLPrefix" {
					what = ext
				}
			}
			if what == "" {
				continue
			}
			n++
			if A.UnreachableUnderShared(fn, recv, b) {
				c.OK(P.InstrPos(ins), what+" in "+ir.FuncName(fn), "unreachable when the node is clean and has a source name", false)
			} else {
				c.Violation(fn, P.InstrPos(ins), what+" reachable for a clean node",
					"a node that is not dirty and already has a name is still encoded / sent / descended into: MakeRoot on an unmodified tree re-marshals and rewrites nodes (and loads nothing only by luck)")
			}
		}
	}
	if n < 3 {
		c.Undecided(fn, P.Pos(fn.Pos()), "encoder/send/recursion not found", "the node store no longer has the expected encoder call, queue send and recursion")
	}
}
