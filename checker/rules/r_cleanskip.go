package rules

import (
	"strings"

	"golang.org/x/tools/go/ssa"

	"mastcheck/ir"
)

func init() {
	Register(&Rule{ID: "CLEANSKIP", Props: []string{"C13"}, Min: 3,
		Doc: "in the node store, for a clean node with a known name (¬dirty ∧ source≠nil) neither the encoder call, nor the queue send, nor the recursion into children is reachable: " +
			"persisting an unmodified tree marshals and writes nothing. The events are looked for in the node store and in every same-package function it calls, transitively: " +
			"an event inside a callee is unreachable for the clean node iff the call site is unreachable under the valuation of the node in the caller, or the callee is handed that very node " +
			"and the event is unreachable under the valuation of the receiving parameter; a callee that is not handed the node is reachable throughout.",
		Run: runCLEANSKIP})
}

// persistingStoreFn returns the persisting node store (outer function of the
// Persist.Store site) and its receiver.
func persistingStoreFn(c *Ctx) (*ssa.Function, *ssa.Parameter) {
	sites := writerStoreSites(c)
	if len(sites) == 0 {
		c.AnchorMissing("Persist.Store call site")
		return nil, nil
	}
	fn := ir.Outermost(sites[0].Parent())
	if len(fn.Params) == 0 || !isNodePtr(fn.Params[0].Type()) {
		c.AnchorMissing("node store with a *mastNode receiver")
		return nil, nil
	}
	return fn, fn.Params[0]
}

func runCLEANSKIP(c *Ctx) {
	P := c.P
	root, recv := persistingStoreFn(c)
	if root == nil {
		return
	}
	A := c.Facts.Own()
	n := 0
	type vk struct {
		fn   *ssa.Function
		q    *ssa.Parameter
		dead bool
	}
	seen := map[vk]bool{}
	// visit examines function g on behalf of the clean node: q is the parameter of g that holds it (nil: g is not
	// handed the node, so nothing in g is known about it); skipped: g is only entered here through a call site that
	// is itself unreachable for the clean node (its events are counted, and discharged).
	var visit func(g *ssa.Function, q *ssa.Parameter, skipped bool, via string, depth int)
	visit = func(g *ssa.Function, q *ssa.Parameter, skipped bool, via string, depth int) {
		k := vk{g, q, skipped}
		if seen[k] {
			return
		}
		seen[k] = true
		for _, b := range g.Blocks {
			if ir.IsDead(b) {
				continue
			}
			unreachable := skipped || (q != nil && A.UnreachableUnderShared(g, q, b))
			for _, ins := range b.Instrs {
				what := ""
				var next []*ssa.Function
				switch x := ins.(type) {
				case *ssa.Send:
					what = "queue send"
				case ssa.CallInstruction:
					ext := c.Facts.External(x)
					if strings.HasPrefix(ext, "callback:") {
						what = "encoder call (" + strings.TrimPrefix(ext, "callback:") + ")"
					}
					if _, isCall := ins.(*ssa.Call); !isCall && what != "" {
						what = "deferred/spawned " + what
					}
					for _, callee := range c.Facts.Callees(x) {
						if callee == root {
							what = "recursion into a child"
						} else if !x.Common().IsInvoke() && ir.Callee(x.Common()) == callee {
							next = append(next, callee)
						}
					}
					if ext == "NodeCache.Contains" || ext == "Persist.NodeURLPrefix" {
						what = ext
					}
				}
				if what != "" {
					n++
					switch {
					case skipped:
						c.OK(P.InstrPos(ins), what+" in "+ir.FuncName(g), "in a helper of the node store that is entered only "+via+", which is unreachable when the node is clean and has a source name", false)
					case unreachable:
						c.OK(P.InstrPos(ins), what+" in "+ir.FuncName(g), "unreachable when the node is clean and has a source name", false)
					default:
						c.Violation(g, P.InstrPos(ins), what+" reachable for a clean node",
							"a node that is not dirty and already has a name is still encoded / sent / descended into: MakeRoot on an unmodified tree re-marshals and rewrites nodes (and loads nothing only by luck)")
					}
				}
				for _, h := range next {
					ci := ins.(ssa.CallInstruction)
					if depth >= 6 {
						c.Undecided(g, P.InstrPos(ins), "helper chain of the node store too deep", "the helpers of the node store nest deeper than the rule follows")
						continue
					}
					var hq *ssa.Parameter
					if q != nil {
						_, hq = helperParamFor(ci, q)
					}
					visit(h, hq, unreachable, "through the call at "+P.InstrPos(ins)+" in "+ir.FuncName(g), depth+1)
				}
			}
		}
	}
	visit(root, recv, false, "", 0)
	if n < 3 {
		c.Undecided(root, P.Pos(root.Pos()), "encoder/send/recursion not found", "the node store no longer has the expected encoder call, queue send and recursion")
	}
}
