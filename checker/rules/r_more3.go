package rules

import (
	"fmt"
	"go/token"
	"go/types"
	"strings"

	"golang.org/x/tools/go/ssa"

	"mastcheck/ir"
)

// Third batch of rules prompted by independently written mutants.

func init() {
	Register(&Rule{ID: "DEADLOAD", Props: []string{"C16"}, Min: 5,
		Doc: "no node is read in vain on a point operation: after a call that may load a node (in everything reachable from Get, Insert, Delete, LoadMast, Clone, Cursor), every path to a successful return uses the loaded node — " +
			"a load whose result is dropped on some successful path (a child fetched before testing whether the search is over, a sibling fetched before testing whether there is anything to merge) is a read outside the search path.",
		Run: runDEADLOAD})
	Register(&Rule{ID: "LINKNAMES", Props: []string{"C15", "C13"}, Min: 1,
		Doc: "a persisted node holds names, not pointers: in the node store the name returned for an in-memory child is written back into the node's own Link slot before the node is queued and cached " +
			"(link equality — the diff's shortcut and the clean-node skip — only works on names).",
		Run: runLINKNAMES})
}

func runDEADLOAD(c *Ctx) {
	P := c.P
	entries := c.Entries("(*Mast).Get", "(*Mast).Insert", "(*Mast).Delete", "(*Root).LoadMast", "(*Mast).Clone", "(*Mast).Cursor")
	reach := c.Facts.Reach(entries...)
	for _, fn := range P.Funcs {
		if !reach[fn] || fn.Pkg.Pkg.Path() != ir.MastPath {
			continue
		}
		ei := ir.ErrorResultIndex(fn.Signature)
		for _, ci := range CallsOf(fn) {
			call, ok := ci.(*ssa.Call)
			if !ok {
				continue
			}
			may := false
			for _, callee := range c.Facts.Callees(ci) {
				if isLoadPrimitive(c, callee, 0) {
					may = true
				}
			}
			if !may || ir.DeadByConst(call.Block()) || debugOnly(call.Block()) {
				continue
			}
			// the loaded node value
			var node ssa.Value = call
			if call.Call.Signature().Results().Len() > 1 {
				node = nil
				if call.Referrers() != nil {
					for _, r := range *call.Referrers() {
						if ex, ok := r.(*ssa.Extract); ok && ex.Index == 0 {
							node = ex
						}
					}
				}
			}
			pos := P.InstrPos(call)
			what := fmt.Sprintf("node loaded by %s in %s", callNames(c, call), ir.FuncName(fn))
			if node == nil || node.Referrers() == nil || len(*node.Referrers()) == 0 {
				c.Violation(fn, pos, "loaded node never used", "a node is read from the store and dropped")
				continue
			}
			uses := map[ssa.Instruction]bool{}
			for _, r := range *node.Referrers() {
				if _, isDbg := r.(*ssa.DebugRef); !isDbg {
					uses[r] = true
				}
			}
			// forward search from the call that stops at uses; reaching a successful return is a dead load
			var bad *ssa.Return
			seen := map[*ssa.BasicBlock]bool{}
			var walk func(b *ssa.BasicBlock, from int)
			walk = func(b *ssa.BasicBlock, from int) {
				if bad != nil || (from == 0 && seen[b]) {
					return
				}
				if from == 0 {
					seen[b] = true
				}
				for i := from; i < len(b.Instrs); i++ {
					ins := b.Instrs[i]
					if uses[ins] {
						return
					}
					switch x := ins.(type) {
					case *ssa.Return:
						if ei < 0 || ir.IsNilConst(x.Results[ei]) {
							bad = x
						}
						return
					case *ssa.Panic:
						return
					case *ssa.If:
						// the error test of this very call: only the nil edge continues the success path
						if tv, tnn, ok := ir.NilTest(x.Cond); ok {
							if ex, isEx := tv.(*ssa.Extract); isEx && ex.Tuple == ssa.Value(call) {
								if tnn {
									walk(b.Succs[1], 0)
								} else {
									walk(b.Succs[0], 0)
								}
								return
							}
						}
						// debug-only branches do not count
						if v, known := debugCond(x.Cond); known {
							if v {
								walk(b.Succs[0], 0)
							} else {
								walk(b.Succs[1], 0)
							}
							return
						}
					}
				}
				for _, s := range b.Succs {
					walk(s, 0)
				}
			}
			walk(call.Block(), ir.InstrIndex(call)+1)
			if bad == nil {
				c.OK(pos, what, "used on every path to a successful return", false)
			} else {
				c.Violation(fn, pos, "node loaded but unused on a successful path",
					fmt.Sprintf("the node read here is not looked at on the path to the successful return at %s: the operation reads a node outside the search path (one extra store read per such call)", P.InstrPos(bad)))
			}
		}
	}
}

// debugCond evaluates conditions that are loads of Mast.debug (never set
// outside tests) or boolean constants.
func debugCond(v ssa.Value) (val, known bool) {
	if b, ok := ir.ConstBool(v); ok {
		return b, true
	}
	if mastFieldLoad(v, "debug") {
		return false, true
	}
	return false, false
}

func debugOnly(b *ssa.BasicBlock) bool {
	for _, f := range ir.FactsAt(b) {
		if v, known := debugCond(f.Cond); known && v != f.Truth {
			return true
		}
	}
	return false
}

func runLINKNAMES(c *Ctx) {
	P := c.P
	fn, _ := persistingStoreFn(c)
	if fn == nil {
		return
	}
	n := 0
	for _, ci := range c.P.Callers[fn] {
		call, ok := ci.(*ssa.Call)
		if !ok {
			continue
		}
		g := ci.Parent()
		// recursion from the node store itself or from a helper working on the same kind of receiver
		if len(g.Params) == 0 || !isNodePtr(g.Params[0].Type()) {
			continue
		}
		recv := g.Params[0]
		n++
		// result #0 of the recursive call must be stored into the receiver's own Link slot
		var name ssa.Value
		if call.Referrers() != nil {
			for _, r := range *call.Referrers() {
				if ex, ok := r.(*ssa.Extract); ok && ex.Index == 0 {
					name = ex
				}
			}
		}
		stored := false
		if name != nil {
			for _, b := range g.Blocks {
				for _, ins := range b.Instrs {
					st, ok := ins.(*ssa.Store)
					if !ok || !carriesValue(st.Val, name, 0) {
						continue
					}
					if ia, ok := st.Addr.(*ssa.IndexAddr); ok {
						if base, f, ok := nodeSliceRoot(ia.X); ok && f == "Link" && ir.ResolveCell(base) == ssa.Value(recv) {
							stored = true
						}
					}
				}
			}
		}
		if stored {
			c.OK(P.InstrPos(call), "child's name written back into the node's Link slot", "store of the recursive result into receiver.Link[i]", false)
		} else {
			f := c.Violation(g, P.InstrPos(call), "child name not written back into the node",
				"the node that is queued, cached and kept in memory still points at its in-memory child instead of naming it: versions served from the cache never compare equal to the same subtree loaded from the store (the diff reads everything), and the node is not what was persisted")
			f.Props = append([]string(nil), c.Rule.Props...) // the damage shows in the diff, wherever the store sits
		}
	}
	if n == 0 {
		c.Undecided(fn, P.Pos(fn.Pos()), "no recursion into children", "the node store does not call itself on in-memory children")
	}
}

// isLoadPrimitive: the function's node result is the node it just read: the
// loader itself, or a thin wrapper each of whose node returns is a parameter, a
// fresh node, or the direct result of a load primitive (follow).
func isLoadPrimitive(c *Ctx, f *ssa.Function, depth int) bool {
	if !isNodePtrResult(f) || !c.Facts.MayLoad[f] || depth > 2 {
		return false
	}
	if l := c.P.MastFunc("(*Mast).load"); l != nil && f == l {
		return true
	}
	if l := roleFunc(c.P, "(*Mast).load"); l != nil && f == l {
		return true
	}
	direct := false
	for _, r := range ir.Returns(f) {
		v := r.Results[0]
		if ir.IsNilConst(v) {
			continue
		}
		switch x := ir.ResolveCell(v).(type) {
		case *ssa.Parameter, *ssa.Alloc:
			continue
		case *ssa.Extract:
			if call, ok := x.Tuple.(*ssa.Call); ok && x.Index == 0 {
				okCallee := false
				for _, callee := range c.Facts.Callees(call) {
					if callee != f && isLoadPrimitive(c, callee, depth+1) {
						okCallee = true
					}
				}
				if okCallee {
					direct = true
					continue
				}
				// fresh node constructors
				if sc := ir.Callee(call.Call); sc != nil && !c.Facts.MayLoad[sc] {
					continue
				}
			}
			return false
		case *ssa.Call:
			if sc := ir.Callee(x.Call); sc != nil && !c.Facts.MayLoad[sc] {
				continue
			}
			return false
		default:
			return false
		}
	}
	return direct
}

// ---- REFLECTSET -----------------------------------------------------------------------

func init() {
	Register(&Rule{ID: "REFLECTSET", Props: []string{"C01"}, Min: 0,
		Doc: "reflect.Value.Set(reflect.ValueOf(x)) panics when x is a nil interface (ValueOf(nil) is the zero Value): wherever a stored value is copied into the caller's out-parameter this way, x is known non-nil on every path (an entry whose value is nil is a valid entry — set-like trees), and the out-parameter itself was tested non-nil.",
		Run: runREFLECTSET})
}

func runREFLECTSET(c *Ctx) {
	P := c.P
	n := 0
	valueOfArg := func(v ssa.Value) (ssa.Value, *ssa.Call) {
		// through .Elem() etc. back to reflect.ValueOf(x)
		for i := 0; i < 4; i++ {
			call, ok := v.(*ssa.Call)
			if !ok {
				return nil, nil
			}
			sc := ir.Callee(call.Call)
			if sc == nil {
				return nil, nil
			}
			if sc.String() == "reflect.ValueOf" {
				return call.Call.Args[0], call
			}
			if sc.Pkg == nil || sc.Pkg.Pkg.Path() != "reflect" || len(call.Call.Args) == 0 {
				return nil, nil
			}
			v = call.Call.Args[0]
		}
		return nil, nil
	}
	for _, fn := range P.Funcs {
		if fn.Pkg.Pkg.Path() != ir.MastPath {
			continue
		}
		for _, ci := range CallsOf(fn) {
			call, ok := ci.(*ssa.Call)
			if !ok {
				continue
			}
			sc := ir.Callee(call.Call)
			if sc == nil || sc.String() != "(reflect.Value).Set" || len(call.Call.Args) != 2 {
				continue
			}
			n++
			pos := P.InstrPos(call)
			for i, role := range []string{"destination", "source"} {
				x, vo := valueOfArg(call.Call.Args[i])
				if x == nil && role == "source" {
					if zc, ok := call.Call.Args[i].(*ssa.Call); ok {
						if sc := ir.Callee(zc.Call); sc != nil && sc.String() == "reflect.Zero" {
							c.OK(pos, "source of reflect Set in "+ir.FuncName(fn)+": reflect.Zero(…)", "the zero Value of the destination's type: never the invalid Value", false)
							continue
						}
					}
				}
				if x == nil {
					// the reflect.Value was handed in by the caller (assignValue(dest reflect.Value, v)): judged at
					// every call site of this helper
					if prm, isP := call.Call.Args[i].(*ssa.Parameter); isP && prm.Parent() == fn && len(P.Callers[fn]) > 0 {
						allOK := true
						for _, cs := range P.Callers[fn] {
							idx := paramIndex(prm)
							args := cs.Common().Args
							if idx < 0 || idx >= len(args) {
								allOK = false
								continue
							}
							cx, cvo := valueOfArg(args[idx])
							if cx == nil {
								allOK = false
								continue
							}
							cx = ir.Strip(cx)
							if ok, _ := ir.GuardedNonNil(cx, cvo); !ok && !ir.FlowNonNil(cx, cvo) {
								allOK = false
							}
						}
						what := fmt.Sprintf("%s of reflect Set in %s: parameter %s", role, ir.FuncName(fn), prm.Name())
						if allOK {
							c.OK(pos, what, "a reflect.Value built by every caller from a value tested non-nil there", false)
						} else {
							c.Violation(fn, pos, role+" of reflect Set may be a nil interface",
								"reflect.ValueOf(nil) is the zero Value, and Set / Elem on it panics: a caller hands this helper a reflect.Value built from a value it has not tested non-nil")
						}
						continue
					}
					c.Undecided(fn, pos, "reflect Set "+role, "cannot trace the "+role+" of Set back to reflect.ValueOf")
					continue
				}
				x = ir.Strip(x)
				what := fmt.Sprintf("%s of reflect Set in %s: %s", role, ir.FuncName(fn), pathDesc(ir.Sym(x)))
				if ok, why := ir.GuardedNonNil(x, vo); ok {
					c.OK(pos, what, why, false)
				} else if ir.FlowNonNil(x, vo) {
					c.OK(pos, what, "tested non-nil on every path", false)
				} else if prm, isP := x.(*ssa.Parameter); isP && prm.Parent() == fn && privateHelper(c, fn) && reflectArgNonNilAtCalls(c, fn, paramIndex(prm), 0) {
					// the copy-out was extracted into a private helper (setPointee(ptr, v)): the test is the caller's
					c.OK(pos, what, "a parameter of a private helper: tested non-nil before every call of it", false)
				} else {
					c.Violation(fn, pos, role+" of reflect Set may be a nil interface",
						"reflect.ValueOf(nil) is the zero Value, and Set / Elem on it panics: a lookup of an entry whose stored value is nil (a set-like tree) with a non-nil out-parameter crashes instead of reporting the entry")
				}
			}
		}
	}
	if n == 0 {
		c.Note("no reflect.Value.Set in the tree package: nothing to check")
	}
}

// reflectArgNonNilAtCalls: every call of the private helper fn hands it, as argument idx, a value known non-nil at
// the call (or its own parameter, decided at its callers in turn).
func reflectArgNonNilAtCalls(c *Ctx, fn *ssa.Function, idx, depth int) bool {
	if idx < 0 || depth > 2 || len(c.P.Callers[fn]) == 0 {
		return false
	}
	for _, cs := range c.P.Callers[fn] {
		args := cs.Common().Args
		if _, isCall := cs.(*ssa.Call); !isCall || cs.Common().IsInvoke() || ir.Callee(cs.Common()) != fn || idx >= len(args) {
			return false
		}
		a := ir.Strip(args[idx])
		if ok, _ := ir.GuardedNonNil(a, cs); ok || ir.FlowNonNil(a, cs) {
			continue
		}
		g := cs.Parent()
		if prm, isP := a.(*ssa.Parameter); isP && prm.Parent() == g && privateHelper(c, g) && reflectArgNonNilAtCalls(c, g, paramIndex(prm), depth+1) {
			continue
		}
		return false
	}
	return true
}

// ---- COMMAOK --------------------------------------------------------------------------

func init() {
	Register(&Rule{ID: "COMMAOK", Props: []string{"C01", "C05", "C13"}, Min: 3,
		Doc: "the value half of a comma-ok result (x, ok := v.(T); x, ok := cache.Get(k)) is dereferenced, type-asserted or used as a node only where ok is known true: on the other branch it is the zero value (a nil *mastNode, a nil interface), and using it panics or answers for the wrong case (IsDirty on a persisted root; a cache miss treated as a hit).",
		Run: runCOMMAOK})
}

func runCOMMAOK(c *Ctx) {
	P := c.P
	for _, fn := range P.Funcs {
		if fn.Pkg.Pkg.Path() != ir.MastPath || c.Facts.debugOnlyFunc(fn) != "" {
			continue
		}
		for _, b := range fn.Blocks {
			for _, ins := range b.Instrs {
				var tuple ssa.Value
				what := ""
				switch x := ins.(type) {
				case *ssa.TypeAssert:
					if x.CommaOk {
						tuple, what = x, "type assertion "+pathDesc(ir.Sym(x.X))+".("+x.AssertedType.String()+")"
					}
				case *ssa.Call:
					// (value, bool) from an interface method (NodeCache.Get)
					if x.Call.IsInvoke() {
						res := x.Call.Signature().Results()
						if res.Len() == 2 {
							if bt, ok := res.At(1).Type().Underlying().(*types.Basic); ok && bt.Kind() == types.Bool {
								tuple, what = x, "result of "+x.Call.Method.Name()
							}
						}
					}
				case *ssa.Lookup:
					if x.CommaOk {
						tuple, what = x, "map lookup"
					}
				}
				if tuple == nil || tuple.Referrers() == nil {
					continue
				}
				var val, okv *ssa.Extract
				for _, r := range *tuple.Referrers() {
					if ex, isEx := r.(*ssa.Extract); isEx {
						if ex.Index == 0 {
							val = ex
						} else if ex.Index == 1 {
							okv = ex
						}
					}
				}
				if val == nil || val.Referrers() == nil {
					continue
				}
				// uses that need a real value
				seen := map[ssa.Value]bool{}
				var uses []ssa.Instruction
				var walk func(v ssa.Value)
				walk = func(v ssa.Value) {
					if seen[v] || v.Referrers() == nil {
						return
					}
					seen[v] = true
					for _, r := range *v.Referrers() {
						switch y := r.(type) {
						case *ssa.FieldAddr, *ssa.IndexAddr, *ssa.Field, *ssa.Index:
							uses = append(uses, r)
						case *ssa.UnOp:
							if y.Op == token.MUL {
								uses = append(uses, r)
							}
						case *ssa.TypeAssert:
							if !y.CommaOk {
								uses = append(uses, r)
							}
						case *ssa.Store:
							// stored into a local variable: follow its loads
							if a, isA := y.Addr.(*ssa.Alloc); isA && y.Val == v && a.Referrers() != nil {
								for _, ar := range *a.Referrers() {
									if ld, ok := ar.(*ssa.UnOp); ok && ld.Op == token.MUL {
										walk(ld)
									}
								}
							}
						case ssa.CallInstruction:
							if y.Common().IsInvoke() && y.Common().Value == v {
								uses = append(uses, r)
							} else if len(y.Common().Args) > 0 && y.Common().Args[0] == v && ir.Callee(y.Common()) != nil && ir.Callee(y.Common()).Signature.Recv() != nil {
								uses = append(uses, r) // method call on the (possibly nil) value
							}
						}
					}
				}
				walk(val)
				for _, u := range uses {
					pos := P.InstrPos(u)
					w := fmt.Sprintf("use of the value of %s in %s", what, ir.FuncName(fn))
					okKnown := false
					if okv != nil {
						for _, f := range ir.FactsAt(u.Block()) {
							if f.Cond == ssa.Value(okv) && f.Truth {
								okKnown = true
							}
						}
					}
					if okKnown {
						c.OK(pos, w, "ok is known true here", false)
					} else {
						c.Violation(fn, pos, "comma-ok value used where ok is not known true",
							"on the branch where the assertion / lookup failed the value is the zero value: dereferencing it panics, and treating it as a result answers for the wrong case ("+what+")")
					}
				}
			}
		}
	}
}

// ---- COUNTCHECK -----------------------------------------------------------------------

func init() {
	Register(&Rule{ID: "COUNTCHECK", Props: []string{"C05", "C19", "C09"}, Min: 6,
		Doc: "a node has as many values as keys and one link more: every comparison between the length of a node's (or decoded node's) Link list and an expression in the length of its Key or Value list normalises to len(Link) ≠ len(Key)+1, and every comparison between len(Key) and len(Value) to len(Key) ≠ len(Value); where such a comparison guards an error return or a panic, the failing edge is the one on which the counts differ. A decoder whose check is inverted or shifted rejects every well-formed interior node, or accepts malformed ones.",
		Run: runCOUNTCHECK})
}

// lenOfField: v = len(X.<field>) for a struct field named Key, Value or Link (node or decoded string node).
func lenOfField(v ssa.Value) (base string, field string, ok bool) {
	call, isCall := ir.ResolveCell(v).(*ssa.Call)
	if !isCall {
		return "", "", false
	}
	if b, isB := call.Call.Value.(*ssa.Builtin); !isB || b.Name() != "len" {
		return "", "", false
	}
	a := ir.ResolveCell(call.Call.Args[0])
	ld, isLd := a.(*ssa.UnOp)
	if !isLd || ld.Op != token.MUL {
		return "", "", false
	}
	fa, isFA := ld.X.(*ssa.FieldAddr)
	if !isFA {
		return "", "", false
	}
	f := ir.FieldName(fa.X.Type(), fa.Field)
	if f != "Key" && f != "Value" && f != "Link" {
		return "", "", false
	}
	return ir.Sym(ir.ResolveCell(fa.X)), f, true
}

func runCOUNTCHECK(c *Ctx) {
	P := c.P
	for _, fn := range P.Funcs {
		if fn.Pkg.Pkg.Path() != ir.MastPath || c.Facts.debugOnlyFunc(fn) != "" {
			continue
		}
		for _, b := range fn.Blocks {
			for _, ins := range b.Instrs {
				// a decoded link list copied by position into the node's links (made as len(Key)+1 slots): the index is
				// bounded by the decoded list only, so the two lengths must have been compared
				if ia, ok := ins.(*ssa.IndexAddr); ok {
					if _, f, isNode := nodeSliceRoot(ia.X); isNode && f == "Link" {
						if _, isC := ia.Index.(*ssa.Const); !isC {
							isym := ir.Sym(ia.Index)
							decodedBase := ""
							ir.FlowFact(ia, func(fc ir.Fact) bool {
								if !belowLenFact(fc, func(v ssa.Value) bool { return ir.Sym(v) == isym }) {
									return false
								}
								bin := fc.Cond.(*ssa.BinOp)
								for _, o := range []ssa.Value{bin.X, bin.Y} {
									if bb, ff, ok := lenOfField(o); ok && ff == "Link" {
										if call, ok := ir.ResolveCell(o).(*ssa.Call); ok {
											if _, _, isNodeList := nodeSliceRoot(call.Call.Args[0]); !isNodeList {
												decodedBase = bb
											}
										}
									}
								}
								return false
							}, func(ssa.Instruction) bool { return false })
							if decodedBase != "" {
								// the copy runs only where the decoded list is non-nil: a path on which it was found nil
								// cannot reach it, so the nil outcome of that test discharges the obligation as well
								linkSym := ""
								for _, f := range ir.FactsAt(ia.Block()) {
									if tv, tnn, isNil := ir.NilTest(f.Cond); isNil && f.Truth == tnn {
										if ld, ok := tv.(*ssa.UnOp); ok && ld.Op == token.MUL {
											if fa, ok := ld.X.(*ssa.FieldAddr); ok && ir.FieldName(fa.X.Type(), fa.Field) == "Link" && ir.Sym(ir.ResolveCell(fa.X)) == decodedBase {
												linkSym = ir.Sym(tv)
											}
										}
									}
								}
								// …and so does the loop's own bound: an index below len(S.Link) exists only if the list is not nil
								if linkSym == "" {
									for _, f := range ir.FactsAt(ia.Block()) {
										if !belowLenFact(f, func(v ssa.Value) bool { return ir.Sym(v) == isym }) {
											continue
										}
										bin := f.Cond.(*ssa.BinOp)
										for _, o := range []ssa.Value{bin.X, bin.Y} {
											if bb, ff, ok := lenOfField(o); ok && ff == "Link" && bb == decodedBase {
												if call, ok := ir.ResolveCell(o).(*ssa.Call); ok {
													linkSym = ir.Sym(call.Call.Args[0])
												}
											}
										}
									}
								}
								mkLinkEq := func(base, linkSym string) func(ir.Fact) bool {
									return func(fc ir.Fact) bool {
										if linkSym != "" {
											if tv, tnn, isNil := ir.NilTest(fc.Cond); isNil && fc.Truth != tnn && ir.Sym(tv) == linkSym {
												return true
											}
										}
										bin, ok := fc.Cond.(*ssa.BinOp)
										if !ok {
											return false
										}
										side := func(v ssa.Value) (string, string, int64, bool) {
											if bb, f, ok := lenOfField(v); ok {
												return bb, f, 0, true
											}
											if bo, ok := ir.ResolveCell(v).(*ssa.BinOp); ok && bo.Op == token.ADD {
												if k, isK := ir.ConstInt(bo.Y); isK {
													if bb, f, ok := lenOfField(bo.X); ok {
														return bb, f, k, true
													}
												}
											}
											return "", "", 0, false
										}
										b1, f1, k1, ok1 := side(bin.X)
										b2, f2, k2, ok2 := side(bin.Y)
										if !ok1 || !ok2 || b1 != base || b2 != base {
											return false
										}
										if f2 == "Link" {
											f1, f2, k1, k2 = f2, f1, k2, k1
										}
										if f1 != "Link" || (f2 != "Key" && f2 != "Value") || k2-k1 != 1 {
											return false
										}
										return (bin.Op == token.EQL && fc.Truth) || (bin.Op == token.NEQ && !fc.Truth)
									}
								}
								eq := ir.FlowFactGen(ia, mkLinkEq(decodedBase, linkSym),
									countHelperGen(c, decodedBase, func(hb string) func(ir.Fact) bool { return mkLinkEq(hb, "*"+hb+".Link") }),
									func(ssa.Instruction) bool { return false })
								what := fmt.Sprintf("decoded %s.Link copied by position into the node's links in %s", pathDesc(decodedBase), ir.FuncName(fn))
								if eq {
									c.OK(P.InstrPos(ia), what, "len(decoded Link) == len(decoded Key)+1 was established on every path", false)
								} else {
									c.Violation(fn, P.InstrPos(ia), "decoded links copied without comparing their number with the number of keys",
										"the node's link list is made with len(Key)+1 slots and filled by position from the decoded list: a stored node with more links panics here (index out of range) instead of being rejected, one with fewer is accepted with children missing — a root naming such a top node must fail to load")
								}
								continue
							}
						}
					}
				}
				// decoded (not yet validated) parallel lists: S.Value[i] under i < len(S.Key) needs len(S.Key) == len(S.Value)
				if ia, ok := ins.(*ssa.IndexAddr); ok {
					ld, isLd := ia.X.(*ssa.UnOp)
					if !isLd || ld.Op != token.MUL {
						continue
					}
					fa, isFA := ld.X.(*ssa.FieldAddr)
					if !isFA || isNodePtr(fa.X.Type()) || ir.IsPtrToNamed(fa.X.Type(), "Node") {
						continue
					}
					f := ir.FieldName(fa.X.Type(), fa.Field)
					if f != "Key" && f != "Value" {
						continue
					}
					if _, isC := ia.Index.(*ssa.Const); isC {
						continue
					}
					base := ir.Sym(ir.ResolveCell(fa.X))
					isym := ir.Sym(ia.Index)
					other := "Key"
					if f == "Key" {
						other = "Value"
					}
					byOwn, byOther := false, false
					for _, fld := range []string{f, other} {
						fld := fld
						ok := ir.FlowFact(ia, func(fc ir.Fact) bool {
							return belowLenFact(fc, func(v ssa.Value) bool { return ir.Sym(v) == isym }) && func() bool {
								bin := fc.Cond.(*ssa.BinOp)
								for _, o := range []ssa.Value{bin.X, bin.Y} {
									if bb, ff, ok := lenOfField(o); ok && bb == base && ff == fld {
										return true
									}
								}
								return false
							}()
						}, func(i ssa.Instruction) bool { return false })
						if fld == f {
							byOwn = ok
						} else {
							byOther = ok
						}
					}
					if byOwn || !byOther {
						continue
					}
					mkKV := func(base string) func(ir.Fact) bool {
						return func(fc ir.Fact) bool {
							bin, ok := fc.Cond.(*ssa.BinOp)
							if !ok {
								return false
							}
							b1, f1, ok1 := lenOfField(bin.X)
							b2, f2, ok2 := lenOfField(bin.Y)
							if !ok1 || !ok2 || b1 != base || b2 != base || f1 == f2 {
								return false
							}
							return (bin.Op == token.EQL && fc.Truth) || (bin.Op == token.NEQ && !fc.Truth)
						}
					}
					eq := ir.FlowFactGen(ia, mkKV(base), countHelperGen(c, base, mkKV), func(i ssa.Instruction) bool {
						st, ok := i.(*ssa.Store)
						return ok && ir.MayClobber(ir.Sym(st.Addr), []string{base})
					})
					what := fmt.Sprintf("decoded %s.%s[%s] bounded by len(%s) in %s", pathDesc(base), f, pathDesc(isym), other, ir.FuncName(fn))
					if eq {
						c.OK(P.InstrPos(ia), what, "the two decoded lists were compared and found equally long", false)
					} else {
						c.Violation(fn, P.InstrPos(ia), "decoded lists indexed in parallel without comparing their lengths",
							"the index is bounded by the length of the other decoded list; a stored node with more keys than values (or the reverse) makes the decoder panic (index out of range) instead of returning an error, so a root naming such a node crashes LoadMast instead of being rejected")
					}
					continue
				}
				bin, ok := ins.(*ssa.BinOp)
				if !ok {
					continue
				}
				switch bin.Op {
				case token.EQL, token.NEQ, token.LSS, token.LEQ, token.GTR, token.GEQ:
				default:
					continue
				}
				// one side: len(X.F1); other side: len(X.F2) [+ k]
				side := func(v ssa.Value) (string, string, int64, bool) {
					if bb, f, ok := lenOfField(v); ok {
						return bb, f, 0, true
					}
					if bo, ok := ir.ResolveCell(v).(*ssa.BinOp); ok && (bo.Op == token.ADD || bo.Op == token.SUB) {
						if k, isK := ir.ConstInt(bo.Y); isK {
							if bb, f, ok := lenOfField(bo.X); ok {
								if bo.Op == token.SUB {
									k = -k
								}
								return bb, f, k, true
							}
						}
					}
					return "", "", 0, false
				}
				b1, f1, k1, ok1 := side(bin.X)
				b2, f2, k2, ok2 := side(bin.Y)
				if !ok1 || !ok2 || f1 == f2 {
					continue
				}
				if b1 != b2 {
					continue // lengths of two different nodes (copy loops): not a shape check
				}
				// normalise: len(F1) + k1  OP  len(F2) + k2   →   len(Link) OP' len(Key|Value) + d
				op := bin.Op
				d := k2 - k1
				if f2 == "Link" {
					f1, f2 = f2, f1
					d = -d
					switch op {
					case token.LSS:
						op = token.GTR
					case token.GTR:
						op = token.LSS
					case token.LEQ:
						op = token.GEQ
					case token.GEQ:
						op = token.LEQ
					}
				}
				want := int64(0)
				if f1 == "Link" {
					want = 1
				}
				pos := P.InstrPos(bin)
				what := fmt.Sprintf("len(%s) %s len(%s)%+d in %s", f1, op, f2, d, ir.FuncName(fn))
				if (op != token.NEQ && op != token.EQL) || d != want {
					c.Violation(fn, pos, "count check does not state the node shape",
						fmt.Sprintf("a node has len(Value) = len(Key) and len(Link) = len(Key)+1; this comparison says len(%s) %s len(%s)%+d: well-formed nodes are rejected (every interior node fails to load) or malformed ones accepted", f1, op, f2, d))
					continue
				}
				// the edge on which the counts differ must be the failing one, when one of them fails
				failing := func(sb *ssa.BasicBlock) bool {
					if ir.PanicOnly(sb) {
						return true
					}
					// leads straight to an error return
					for n := 0; n < 4; n++ {
						if len(sb.Instrs) > 0 {
							if r, ok := sb.Instrs[len(sb.Instrs)-1].(*ssa.Return); ok {
								ei := ir.ErrorResultIndex(fn.Signature)
								return ei >= 0 && !ir.IsNilConst(r.Results[ei])
							}
						}
						if len(sb.Succs) != 1 {
							return false
						}
						sb = sb.Succs[0]
					}
					return false
				}
				// find the If this comparison (possibly through a short-circuit φ) feeds directly
				var iff *ssa.If
				if bin.Referrers() != nil {
					for _, r := range *bin.Referrers() {
						if i, ok := r.(*ssa.If); ok {
							iff = i
						}
					}
				}
				if iff == nil {
					c.OK(pos, what, "states the node shape", false)
					continue
				}
				tb, fb := iff.Block().Succs[0], iff.Block().Succs[1]
				diffEdge, sameEdge := tb, fb
				if op == token.EQL {
					diffEdge, sameEdge = fb, tb
				}
				switch {
				case failing(sameEdge) && !failing(diffEdge):
					c.Violation(fn, pos, "count check rejects well-formed nodes",
						"the error/panic is taken when the counts agree with the node shape and not when they differ")
				default:
					c.OK(pos, what, "states the node shape; the failing edge is the one where the counts differ", false)
				}
			}
		}
	}
}

// ---- DEADRANGE ------------------------------------------------------------------------

func init() {
	Register(&Rule{ID: "DEADRANGE", Props: []string{"C05"}, Min: 0,
		Doc: "contradiction check on the load path: a loop over (or the length of) a decoded list is never placed under a test that established the list to be nil — such a loop can never run, so what it was meant to copy (a stored node's child links) is silently dropped and the reloaded tree loses every entry below the top node.",
		Run: func(c *Ctx) {
			P := c.P
			set := loadPathFuncs(c)
			n := 0
			for _, fn := range P.Funcs {
				if !set[fn] {
					continue
				}
				for _, b := range fn.Blocks {
					for _, ins := range b.Instrs {
						call, ok := ins.(*ssa.Call)
						if !ok {
							continue
						}
						if bi, ok := call.Call.Value.(*ssa.Builtin); !ok || bi.Name() != "len" {
							continue
						}
						arg := call.Call.Args[0]
						if _, isSlice := arg.Type().Underlying().(*types.Slice); !isSlice {
							continue
						}
						as := ir.Sym(arg)
						for _, f := range ir.FactsAt(b) {
							tv, tnn, isNil := ir.NilTest(f.Cond)
							if !isNil || f.Truth == tnn || ir.Sym(tv) != as {
								continue
							}
							n++
							c.Violation(fn, P.InstrPos(call), "list measured/iterated where it is known to be nil",
								"the loop over "+pathDesc(as)+" sits on the branch where "+pathDesc(as)+" == nil was established: it never runs, and what it copies is lost")
						}
					}
				}
			}
			if n == 0 {
				c.OK("-", "no loop over a list known to be nil on the load path", "contradiction check", false)
			}
		}})
}

// ---- NILNODE --------------------------------------------------------------------------

func init() {
	Register(&Rule{ID: "NILNODE", Props: []string{"C01", "C10"}, Min: 0,
		Doc: "a *mastNode variable that can still hold its zero value nil where two branches meet (one branch assigned it, the other did not: the empty-tree branch of Insert) is not dereferenced, and no method is called on it, unless a nil test on every path says otherwise.",
		Run: func(c *Ctx) {
			P := c.P
			n := 0
			for _, fn := range P.Funcs {
				if fn.Pkg.Pkg.Path() != ir.MastPath || c.Facts.debugOnlyFunc(fn) != "" {
					continue
				}
				for _, b := range fn.Blocks {
					if ir.IsDead(b) {
						continue
					}
					for _, ins := range b.Instrs {
						phi, ok := ins.(*ssa.Phi)
						if !ok || !isNodePtr(phi.Type()) || phi.Referrers() == nil {
							continue
						}
						hasNil := false
						for i, e := range phi.Edges {
							if ir.IsNilConst(e) && !ir.IsDead(b.Preds[i]) {
								hasNil = true
							}
						}
						if !hasNil {
							continue
						}
						for _, r := range *phi.Referrers() {
							deref := false
							switch y := r.(type) {
							case *ssa.FieldAddr:
								deref = y.X == ssa.Value(phi)
							case *ssa.UnOp:
								deref = y.Op == token.MUL && y.X == ssa.Value(phi)
							case ssa.CallInstruction:
								com := y.Common()
								if sc := ir.Callee(com); sc != nil && sc.Signature.Recv() != nil && len(com.Args) > 0 && com.Args[0] == ssa.Value(phi) {
									deref = true
								}
							}
							if !deref || ir.IsDead(r.Block()) {
								continue
							}
							n++
							pos := P.InstrPos(r)
							what := fmt.Sprintf("use of %s (may be the zero value) in %s", pathDesc(ir.Sym(phi)), ir.FuncName(fn))
							if ir.FlowNonNil(phi, r) {
								c.OK(pos, what, "tested non-nil on every path", false)
							} else if okG, why := ir.GuardedNonNil(phi, r); okG {
								c.OK(pos, what, why, false)
							} else {
								c.Violation(fn, pos, "node variable used where it may still be nil",
									"one of the branches that meet before this use leaves the node variable at its zero value (nil): the dereference panics on that path (e.g. the first Insert into a tree that was emptied)")
							}
						}
					}
				}
			}
			if n == 0 {
				c.OK("-", "no *mastNode φ with a nil arm is dereferenced", "scan of all functions", false)
			}
		}})
}

// ---- TYPEGUARD ------------------------------------------------------------------------

func init() {
	Register(&Rule{ID: "TYPEGUARD", Props: []string{"C05", "C13"}, Min: 3,
		Doc: "a root is only handed out if it can be loaded again: in the function that drives the node store under MakeRoot, the node store is unreachable on every combination of the three configuration tests in which the unmarshaler does not use registered types and the key type or the value type is unknown (zeroKey == nil or zeroValue == nil) — decided by pruning the control-flow graph under each such valuation.",
		Run: runTYPEGUARD})
}

// reachUnder: can target's block be reached from fn's entry when every branch whose condition the valuation
// decides is followed only in the decided direction?
func reachUnder(fn *ssa.Function, target ssa.Instruction, val func(cond ssa.Value) (bool, bool)) bool {
	seen := map[*ssa.BasicBlock]bool{}
	var walk func(b *ssa.BasicBlock) bool
	walk = func(b *ssa.BasicBlock) bool {
		if seen[b] {
			return false
		}
		seen[b] = true
		if b == target.Block() {
			return true
		}
		if len(b.Instrs) > 0 {
			if iff, ok := b.Instrs[len(b.Instrs)-1].(*ssa.If); ok {
				cond, neg := iff.Cond, false
				for {
					u, ok := cond.(*ssa.UnOp)
					if !ok || u.Op != token.NOT {
						break
					}
					cond, neg = u.X, !neg
				}
				if v, known := val(cond); known {
					if v != neg {
						return walk(b.Succs[0])
					}
					return walk(b.Succs[1])
				}
			}
		}
		for _, s := range b.Succs {
			if walk(s) {
				return true
			}
		}
		return false
	}
	return walk(fn.Blocks[0])
}

func runTYPEGUARD(c *Ctx) {
	P := c.P
	sh := findFlush(c)
	store, _ := persistingStoreFn(c)
	if sh == nil || store == nil {
		return
	}
	var target ssa.Instruction
	for _, cs := range P.Callers[store] {
		if cs.Parent() == sh.F {
			target = cs
		}
	}
	if target == nil {
		c.AnchorMissing("call of the node store in " + ir.FuncName(sh.F))
		return
	}
	type val struct{ u, k, v bool }
	n := 0
	for _, w := range []val{{false, true, false}, {false, false, true}, {false, true, true}} {
		w := w
		n++
		reach := reachUnder(sh.F, target, func(cond ssa.Value) (bool, bool) {
			if mastFieldLoad(cond, "unmarshalerUsesRegisteredTypes") {
				return w.u, true
			}
			if tv, tnn, ok := ir.NilTest(cond); ok {
				if mastFieldLoad(tv, "zeroKey") {
					return w.k != tnn, true // cond true ⇔ (non-nil if tnn) ; key is nil iff w.k
				}
				if mastFieldLoad(tv, "zeroValue") {
					return w.v != tnn, true
				}
			}
			return false, false
		})
		what := fmt.Sprintf("registered types: %v, key type unknown: %v, value type unknown: %v", w.u, w.k, w.v)
		if reach {
			c.Violation(sh.F, P.InstrPos(target), "tree persisted although its entries cannot be decoded again ("+what+")",
				"with neither registered types nor an example key/value to learn the Go type from, the loader cannot unmarshal what is being written: MakeRoot hands out a root whose reload loses every value (or fails), instead of refusing")
		} else {
			c.OK(P.InstrPos(target), "node store unreachable when "+what, "pruned control-flow search", false)
		}
	}
}

// ---- YIELDPAIR ------------------------------------------------------------------------

func init() {
	Register(&Rule{ID: "YIELDPAIR", Props: []string{"C01", "C10", "C06"}, Min: 3,
		Doc: "an entry is always handed on as the key and the value of one position: every call of an entry callback (a function value taking two interface{} and returning error, or (bool, error)) passes X.Key[i] and X.Value[i] of the same node X and the same index expression i, or the Key and Value of one entry/yield item; and a diff cell named …Value is assigned from a Value, the key cell from a Key.",
		Run: runYIELDPAIR})
}

// kvPath: v reads a Key or Value — element of a node list, or field of an entry item: (which, owner path).
func kvPath(v ssa.Value) (which, owner string, ok bool) {
	v = ir.ResolveCell(ir.Strip(v))
	switch x := v.(type) {
	case *ssa.UnOp:
		if x.Op != token.MUL {
			return "", "", false
		}
		switch a := x.X.(type) {
		case *ssa.IndexAddr:
			if base, f, ok := nodeSliceRoot(a.X); ok && (f == "Key" || f == "Value") {
				return f, ir.Sym(ir.ResolveCell(base)) + "[" + ir.Sym(a.Index) + "]", true
			}
		case *ssa.FieldAddr:
			f := ir.FieldName(a.X.Type(), a.Field)
			if f == "Key" || f == "Value" {
				return f, ir.Sym(a.X), true
			}
		}
	case *ssa.Field:
		f := ir.FieldName(x.X.Type(), x.Field)
		if f == "Key" || f == "Value" {
			return f, ir.Sym(x.X), true
		}
	}
	return "", "", false
}

func runYIELDPAIR(c *Ctx) {
	P := c.P
	emptyIface := func(t types.Type) bool {
		i, ok := t.Underlying().(*types.Interface)
		return ok && i.NumMethods() == 0
	}
	for _, fn := range P.Funcs {
		if fn.Pkg.Pkg.Path() != ir.MastPath || c.Facts.debugOnlyFunc(fn) != "" {
			continue
		}
		for _, ci := range CallsOf(fn) {
			com := ci.Common()
			if com.IsInvoke() || ir.Callee(com) != nil {
				continue // only calls through function values
			}
			// the key callbacks (order, layer) are given keys, never values
			if ext := c.Facts.External(ci); strings.Contains(ext, "keyOrder") || strings.Contains(ext, "keyLayer") || strings.Contains(ext, "keyCompare") {
				for _, a := range com.Args {
					if w, o, ok := kvPath(a); ok {
						if w == "Key" {
							c.OK(P.InstrPos(ci), "argument of the key callback in "+ir.FuncName(fn), "a Key ("+pathDesc(o)+")", true)
						} else {
							c.Violation(fn, P.InstrPos(ci), "key callback given a value",
								"the order / layer function is applied to the Value of "+pathDesc(o)+" instead of its Key: positions and layers computed from values place or find entries at the wrong place")
						}
					}
				}
				continue
			}
			sig := com.Signature()
			if sig.Params().Len() != 2 || !emptyIface(sig.Params().At(0).Type()) || !emptyIface(sig.Params().At(1).Type()) {
				continue
			}
			rs := sig.Results()
			if rs.Len() == 0 || !ir.IsErrorType(rs.At(rs.Len()-1).Type()) {
				continue
			}
			if rs.Len() == 2 {
				if bt, ok := rs.At(0).Type().Underlying().(*types.Basic); !ok || bt.Kind() != types.Bool {
					continue // (int, error): the comparator, not an entry callback
				}
			}
			w0, o0, ok0 := kvPath(com.Args[0])
			w1, o1, ok1 := kvPath(com.Args[1])
			pos := P.InstrPos(ci)
			what := "entry callback called in " + ir.FuncName(fn)
			switch {
			case !ok0 && !ok1:
				// arguments come from elsewhere (parameters handed through, diff cells): not a read of a node
				continue
			case ok0 && ok1 && w0 == "Key" && w1 == "Value" && o0 == o1:
				c.OK(pos, what, "key and value of the same position ("+pathDesc(o0)+")", false)
			default:
				c.Violation(fn, pos, "entry callback not given the key and the value of one position",
					fmt.Sprintf("the callback receives (%s of %s, %s of %s): an iteration / seek / diff would report a key with another entry's value, or a key twice", w0, pathDesc(o0), w1, pathDesc(o1)))
			}
		}
		// diff cells
		for _, b := range fn.Blocks {
			if ir.IsDead(b) {
				continue
			}
			for _, ins := range b.Instrs {
				st, ok := ins.(*ssa.Store)
				if !ok {
					continue
				}
				fa, ok := st.Addr.(*ssa.FieldAddr)
				if !ok {
					continue
				}
				// an entry item built from a node: entry{Key: X.Key[i], Value: X.Value[i]}
				if ir.IsPtrToNamed(fa.X.Type(), "entry") {
					f := ir.FieldName(fa.X.Type(), fa.Field)
					if f != "Key" && f != "Value" {
						continue
					}
					w, o, ok := kvPath(st.Val)
					if !ok {
						continue
					}
					// the sibling store into the same item
					other := ""
					if fa.X.Referrers() != nil {
						for _, r := range *fa.X.Referrers() {
							if fa2, ok := r.(*ssa.FieldAddr); ok && fa2 != fa && fa2.Referrers() != nil {
								f2 := ir.FieldName(fa2.X.Type(), fa2.Field)
								if f2 != "Key" && f2 != "Value" {
									continue
								}
								for _, r2 := range *fa2.Referrers() {
									if st2, ok := r2.(*ssa.Store); ok && st2.Addr == ssa.Value(fa2) {
										if _, o2, ok := kvPath(st2.Val); ok {
											other = o2
										}
									}
								}
							}
						}
					}
					if w == f && (other == "" || other == o) {
						c.OK(P.InstrPos(st), fmt.Sprintf("entry item .%s built in %s", f, ir.FuncName(fn)), "from the "+w+" of "+pathDesc(o), false)
					} else {
						c.Violation(fn, P.InstrPos(st), "entry item built from mismatched key/value",
							fmt.Sprintf("the item's %s is taken from the %s of %s (its other half from %s): the diff would pair a key with another entry's value", f, w, pathDesc(o), pathDesc(other)))
					}
					continue
				}
				if !ir.IsPtrToNamed(fa.X.Type(), "diffState") {
					continue
				}
				f := ir.FieldName(fa.X.Type(), fa.Field)
				want := ""
				switch {
				case strings.HasSuffix(f, "Value"):
					want = "Value"
				case strings.HasSuffix(f, "Key"):
					want = "Key"
				default:
					continue
				}
				if _, isC := st.Val.(*ssa.Const); isC {
					continue
				}
				w, o, ok := kvPath(st.Val)
				if !ok {
					continue
				}
				if w == want {
					c.OK(P.InstrPos(st), fmt.Sprintf("diff cell %s set in %s", f, ir.FuncName(fn)), "from the "+want+" of "+pathDesc(o), false)
				} else {
					c.Violation(fn, P.InstrPos(st), "diff cell "+f+" set from a "+w,
						"the "+strings.ToLower(want)+" reported for a difference is taken from the "+w+" of "+pathDesc(o))
				}
			}
		}
	}
}

// ---- ROOTDIRTY ------------------------------------------------------------------------

func init() {
	Register(&Rule{ID: "ROOTDIRTY", Props: []string{"C13"}, Min: 3,
		Doc: "IsDirty answers from the root alone, so every root a mutator installs must make it answer 'modified': in everything reachable from Insert and Delete, each store to Mast.root stores an in-memory node that is marked dirty (the first path node after the normalising loop, or the result of the link constructor for a node DIRTYNEW checks), possibly through a nil-or-node helper; a nil root (the tree was emptied) is accepted only together with a store of the 'emptied since the last persisted version' mark that IsDirty reads; a name or a child link taken from a loaded node is never installed directly.",
		Run: runROOTDIRTY})
}

func runROOTDIRTY(c *Ctx) {
	P := c.P
	muts := c.Entries("(*Mast).Insert", "(*Mast).Delete")
	if len(muts) == 0 {
		return
	}
	A := c.Facts.Own()
	ms := c.P.MastFunc("(*Mast).store")
	// the mark IsDirty reads besides root.dirty: a bool field of Mast loaded in IsDirty
	marks := map[string]bool{}
	if isd := c.MustFunc("(*Mast).IsDirty"); isd != nil {
		for _, b := range isd.Blocks {
			for _, ins := range b.Instrs {
				if ld, ok := ins.(*ssa.UnOp); ok && ld.Op == token.MUL {
					if fa, ok := ld.X.(*ssa.FieldAddr); ok && ir.IsPtrToNamed(fa.X.Type(), "Mast") {
						if bt, ok := ld.Type().Underlying().(*types.Basic); ok && bt.Kind() == types.Bool {
							marks[ir.FieldName(fa.X.Type(), fa.Field)] = true
						}
					}
				}
			}
		}
	}
	var classify func(v ssa.Value, at ssa.Instruction, env *penv, d int) (string, bool) // ("dirty node"|"nil", ok)
	classify = func(v ssa.Value, at ssa.Instruction, env *penv, d int) (string, bool) {
		if d > 6 {
			return "too deep", false
		}
		v = ir.Strip(ir.ResolveCell(v))
		if ir.IsNilConst(v) {
			return "nil", true
		}
		switch x := v.(type) {
		case *ssa.Phi:
			kind := ""
			for _, e := range x.Edges {
				k, ok := classify(e, at, env, d+1)
				if !ok {
					return k, false
				}
				if kind == "" || k == "nil" {
					if kind != "nil" || k == "nil" {
						kind = k
					}
				}
				if k == "nil" {
					kind = "nil-or-node"
				}
			}
			return kind, true
		case *ssa.Parameter:
			if a, up, ok := env.lookup(x); ok {
				return classify(a, at, up, d+1)
			}
			return "a parameter", false
		case *ssa.UnOp:
			if x.Op == token.MUL && isNodePtr(x.Type()) {
				if why := A.normalisedAt(x, addrSym(x.X)); why != "" {
					return "dirty node", true
				}
			}
			return "a value loaded from " + pathDesc(ir.Sym(x.X)) + " (not known to be a dirty in-memory node)", false
		case *ssa.Extract:
			if call, ok := x.Tuple.(*ssa.Call); ok && x.Index == 0 {
				if ms != nil && ir.Callee(call.Call) == ms {
					return "dirty node", true // the link constructor hands back the node; DIRTYNEW checks its flag
				}
			}
		case *ssa.Call:
			if rets, ne, _ := helperReturns(x, env); rets != nil {
				kind := ""
				for _, rv := range rets {
					k, ok := classify(rv, at, ne, d+1)
					if !ok {
						return k, false
					}
					if k != "dirty node" {
						kind = "nil-or-node"
					} else if kind == "" {
						kind = k
					}
				}
				return kind, true
			}
		}
		return "a value of unrecognised origin (" + pathDesc(ir.Sym(v)) + ")", false
	}
	// who may clear the mark: only the function that makes the tree equal to a persisted version again (the driver
	// of the node store under MakeRoot, with the private helpers split out of it). Anyone else clearing it — a
	// clone "starting its own session", a cursor, a diff — makes a tree emptied since load answer 'clean'.
	if len(marks) > 0 {
		clearers := map[*ssa.Function]bool{}
		if sh := findFlush(c); sh != nil {
			for _, f := range regionOf(c, sh.F) {
				clearers[f] = true
			}
		}
		// … and it does clear it: where the persisting function reports success for a tree whose root is nil (there
		// is nothing to write), the mark has been set to false on every path — otherwise a tree that was emptied and
		// then persisted keeps answering 'modified'
		for f := range clearers {
			ei := ir.ErrorResultIndex(f.Signature)
			if ei < 0 {
				continue
			}
			for _, r := range ir.Returns(f) {
				if ei >= len(r.Results) || !ir.IsNilConst(r.Results[ei]) {
					continue
				}
				rootNil := false
				for _, ft := range ir.FactsAt(r.Block()) {
					if tv, tnn, ok := ir.NilTest(ft.Cond); ok && ft.Truth != tnn {
						if _, isRoot := rootLoad(tv); isRoot {
							rootNil = true
						}
					}
				}
				if !rootNil {
					continue
				}
				for mk := range marks {
					mk := mk
					cleared := ir.FlowHeld(r,
						func(i ssa.Instruction) bool {
							_, f2, st2, ok := mastFieldStore(i)
							if !ok || f2 != mk {
								return false
							}
							v, isC := ir.ConstBool(st2.Val)
							return isC && !v
						},
						func(i ssa.Instruction) bool {
							_, f2, st2, ok := mastFieldStore(i)
							if !ok || f2 != mk {
								return false
							}
							v, isC := ir.ConstBool(st2.Val)
							return !(isC && !v)
						})
					if cleared {
						c.OK(P.InstrPos(r), "success of "+ir.FuncName(f)+" with a nil root", "the mark "+mk+" is cleared on every path to it", false)
					} else {
						c.Violation(f, P.InstrPos(r), "nil root persisted without clearing the emptied mark",
							"the persisting function reports success for a tree whose root is nil without setting Mast."+mk+" to false on every path: a tree whose last entry was deleted keeps answering 'modified' after it has been persisted (and every later MakeRoot looks like a change)")
					}
				}
			}
		}
		for _, fn := range P.Funcs {
			if fn.Pkg == nil || fn.Pkg.Pkg.Path() != ir.MastPath {
				continue
			}
			for _, b := range fn.Blocks {
				if ir.IsDead(b) {
					continue
				}
				for _, ins := range b.Instrs {
					_, f2, st2, ok := mastFieldStore(ins)
					if !ok || !marks[f2] {
						continue
					}
					pos := P.InstrPos(st2)
					if v, isC := ir.ConstBool(st2.Val); isC && v {
						continue // setting the mark is judged with the nil root it accompanies, below
					}
					if clearers[ir.Outermost(fn)] {
						c.OK(pos, "mark "+f2+" cleared in "+ir.FuncName(fn), "by the function that persists the tree (it equals a stored version afterwards)", false)
					} else if v, isC := ir.ConstBool(st2.Val); isC && !v && clearedWithDirtyRoot(st2, func(val ssa.Value, at ssa.Instruction) bool {
						k, ok := classify(val, at, nil, 0)
						return ok && k == "dirty node"
					}) {
						// IsDirty reads the mark only where the root is nil; a dirty in-memory node installed as root in the same
						// block answers 'modified' by itself, and every later nil root sets the mark again
						c.OK(pos, "mark "+f2+" cleared in "+ir.FuncName(fn), "together with the installation of a dirty in-memory root, which answers for the tree by itself", false)
					} else {
						c.Violation(fn, pos, "emptied mark cleared outside the persisting function",
							"Mast."+f2+" is what lets IsDirty answer 'modified' for a tree whose last entry was deleted; it is cleared (or overwritten with a computed value) in a function that does not persist the tree, so that tree — or the copy made here — reports 'clean' with no entries although the version it came from has some")
					}
				}
			}
		}
	}
	reach := c.Facts.Reach(muts...)
	for _, fn := range P.Funcs {
		if !reach[fn] {
			continue
		}
		for _, b := range fn.Blocks {
			if ir.IsDead(b) {
				continue
			}
			for _, ins := range b.Instrs {
				base, f, st, ok := mastFieldStore(ins)
				if !ok || f != "root" {
					continue
				}
				if _, local := ir.ResolveCell(base).(*ssa.Alloc); local {
					continue
				}
				pos := P.InstrPos(st)
				what := "root installed by " + ir.FuncName(fn)
				kind, ok := classify(st.Val, st, nil, 0)
				if !ok {
					c.Violation(fn, pos, "mutator installs a root IsDirty cannot see as modified",
						"the new root is "+kind+": when it is a name or a node that is not marked dirty, IsDirty answers 'clean' although the contents differ from the version the tree was loaded from or last persisted as")
					continue
				}
				if kind == "dirty node" {
					c.OK(pos, what, "a dirty in-memory node", false)
					continue
				}
				// nil (or nil-or-node): the emptied mark must be set wherever the nil can be stored
				marked := false
				for _, bb := range fn.Blocks {
					for _, i2 := range bb.Instrs {
						if _, f2, st2, ok := mastFieldStore(i2); ok && marks[f2] {
							if v, isC := ir.ConstBool(st2.Val); isC && v && (ir.InstrReaches(st, st2) || ir.InstrReaches(st2, st)) {
								marked = true
							}
						}
					}
				}
				if marked {
					c.OK(pos, what, kind+", with the emptied mark IsDirty reads", false)
				} else {
					c.Violation(fn, pos, "root set to nil without a mark IsDirty can read",
						"when the last entry is deleted the root becomes nil; IsDirty finds no node to ask and answers 'clean', although the tree no longer equals the (non-empty) version it was loaded from or last persisted as")
				}
			}
		}
	}
}

// clearedWithDirtyRoot: the block that clears the mark also stores, into the root of the same tree, a value the
// classifier calls a dirty in-memory node.
func clearedWithDirtyRoot(clear *ssa.Store, dirtyNode func(ssa.Value, ssa.Instruction) bool) bool {
	cbase, _, _, ok := mastFieldStore(clear)
	if !ok {
		return false
	}
	for _, ins := range clear.Block().Instrs {
		base, f, st, ok := mastFieldStore(ins)
		if !ok || f != "root" || ir.Sym(base) != ir.Sym(cbase) {
			continue
		}
		if dirtyNode(st.Val, st) {
			return true
		}
	}
	return false
}

// ---- LOADLIMIT ------------------------------------------------------------------------

func init() {
	Register(&Rule{ID: "LOADLIMIT", Props: []string{"C01", "C05"}, Min: 0,
		Doc: "the writer puts no limit on how many entries a node holds (an over-full node is legal: keys of one layer between two higher keys all live in one node), so the load path imposes none either: no comparison of the number of keys, values or links of a loaded node with anything but another of its own list lengths (± a constant) or a constant of at most 2 guards an error return or a panic.",
		Run: func(c *Ctx) {
			P := c.P
			set := loadPathFuncs(c)
			if lm := c.MustFunc("(*Root).LoadMast"); lm != nil {
				for f := range c.Facts.Reach(lm) {
					set[f] = true
				}
			}
			n := 0
			for _, fn := range P.Funcs {
				if !set[fn] || c.Facts.debugOnlyFunc(fn) != "" {
					continue
				}
				ei := ir.ErrorResultIndex(fn.Signature)
				for _, b := range fn.Blocks {
					if ir.IsDead(b) || len(b.Instrs) == 0 {
						continue
					}
					iff, ok := b.Instrs[len(b.Instrs)-1].(*ssa.If)
					if !ok {
						continue
					}
					bin, ok := iff.Cond.(*ssa.BinOp)
					if !ok {
						continue
					}
					switch bin.Op {
					case token.LSS, token.LEQ, token.GTR, token.GEQ:
					default:
						continue
					}
					var other ssa.Value
					if _, _, ok := lenOfNodeSlice(bin.X); ok {
						other = bin.Y
					} else if _, _, ok := lenOfNodeSlice(bin.Y); ok {
						other = bin.X
					} else {
						continue
					}
					// admissible right-hand sides
					if k, isK := ir.ConstInt(other); isK && k <= 2 {
						continue
					}
					if _, _, ok := lenOfNodeSlice(other); ok {
						continue
					}
					if bo, ok := ir.ResolveCell(other).(*ssa.BinOp); ok && (bo.Op == token.ADD || bo.Op == token.SUB) {
						if _, isK := ir.ConstInt(bo.Y); isK {
							if _, _, ok := lenOfNodeSlice(bo.X); ok {
								continue
							}
						}
					}
					// an index variable compared with a length (loops, searches) is not a limit: the other side must
					// not be derived from a position
					if _, _, isLi := liPlusK(other); isLi {
						continue
					}
					if _, isPhi := ir.ResolveCell(other).(*ssa.Phi); isPhi {
						continue // loop counters
					}
					if _, isParam := ir.ResolveCell(other).(*ssa.Parameter); isParam {
						continue // an index handed in
					}
					if _, isEx := ir.ResolveCell(other).(*ssa.Extract); isEx {
						continue // a position returned by a search
					}
					// does an outcome fail?
					fails := func(sb *ssa.BasicBlock) bool {
						if ir.PanicOnly(sb) {
							return true
						}
						for k := 0; k < 4; k++ {
							if len(sb.Instrs) > 0 {
								if r, ok := sb.Instrs[len(sb.Instrs)-1].(*ssa.Return); ok {
									return ei >= 0 && !ir.IsNilConst(r.Results[ei])
								}
							}
							if len(sb.Succs) != 1 {
								return false
							}
							sb = sb.Succs[0]
						}
						return false
					}
					if !fails(b.Succs[0]) && !fails(b.Succs[1]) {
						continue
					}
					n++
					c.Violation(fn, P.InstrPos(bin), "load path limits the size of a node",
						"a loaded node's number of entries is compared with "+pathDesc(ir.Sym(other))+" and one outcome fails: nodes are not bounded by the branch factor (or anything else) when they are written, so a version that was just persisted can become unreadable")
				}
			}
			if n == 0 {
				c.OK("-", "no size limit on loaded nodes", "scan of the load path", false)
			}
		}})
}

// carriesValue: v is want (through boxing/conversion), or a φ that takes want on the paths that come from where want
// is computed (`name, err = child.store(…)` in one arm of a switch, the store after the arms have merged).
func carriesValue(v, want ssa.Value, d int) bool {
	v = ir.Strip(v)
	if v == want {
		return true
	}
	if phi, ok := v.(*ssa.Phi); ok && d < 3 {
		for _, e := range phi.Edges {
			if carriesValue(e, want, d+1) {
				return true
			}
		}
	}
	return false
}

// countHelperGen: a call that hands the decoded node `base` to a checking helper of the repository establishes a
// count fact when every nil-error return of that helper is reached only where the fact (stated over the helper's own
// parameter) has been established: `err = checkStringNodeCounts(l, &stringNode); if err != nil { return err }`.
func countHelperGen(c *Ctx, base string, mk func(base string) func(ir.Fact) bool) func(ssa.Instruction) bool {
	cache := map[*ssa.Call]bool{}
	return func(i ssa.Instruction) bool {
		call, ok := i.(*ssa.Call)
		if !ok {
			return false
		}
		if v, done := cache[call]; done {
			return v
		}
		cache[call] = false
		h := ir.Callee(call.Call)
		if h == nil || h.Blocks == nil || !isOwn(c.P, h) || len(call.Call.Args) != len(h.Params) {
			return false
		}
		ei := ir.ErrorResultIndex(h.Signature)
		if ei < 0 {
			return false
		}
		for ai, a := range call.Call.Args {
			if ir.Sym(ir.ResolveCell(a)) != base && ir.Sym(a) != base {
				continue
			}
			pred := mk(ir.Sym(h.Params[ai]))
			n, all := 0, true
			for _, r := range ir.Returns(h) {
				if ei >= len(r.Results) || !ir.IsNilConst(r.Results[ei]) {
					continue
				}
				n++
				if !ir.FlowFact(r, pred, func(ssa.Instruction) bool { return false }) {
					all = false
				}
			}
			if n > 0 && all {
				cache[call] = true
				return true
			}
		}
		return false
	}
}
