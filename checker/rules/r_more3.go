package rules

import (
	"fmt"

	"golang.org/x/tools/go/ssa"

	"mastcheck/ir"
)

// Third batch of rules prompted by independently written mutants.

func init() {
	Register(&Rule{ID: "DEADLOAD", Props: []string{"C16"}, Min: 5,
		Doc: "no node is read in vain on a point operation: after a call that may load a node (in everything reachable from Get, Insert, Delete, LoadMast, Clone, Cursor), every path to a successful return uses the loaded node — " +
			"a load whose result is dropped on some successful path (a child fetched before testing whether the search is over, a sibling fetched before testing whether there is anything to merge) is a read outside the search path.",
		Run: runDEADLOAD})
	Register(&Rule{ID: "LINKNAMES", Props: []string{"C15", "C13"}, Min: 1,
		Doc: "a persisted node holds names, not pointers: in the node store the name returned for an in-memory child is written back into the node's own Link slot before the node is queued and cached " +
			"(link equality — the diff's shortcut and the clean-node skip — only works on names).",
		Run: runLINKNAMES})
}

func runDEADLOAD(c *Ctx) {
	P := c.P
	entries := c.Entries("(*Mast).Get", "(*Mast).Insert", "(*Mast).Delete", "(*Root).LoadMast", "(*Mast).Clone", "(*Mast).Cursor")
	reach := c.Facts.Reach(entries...)
	for _, fn := range P.Funcs {
		if !reach[fn] || fn.Pkg.Pkg.Path() != ir.MastPath {
			continue
		}
		ei := ir.ErrorResultIndex(fn.Signature)
		for _, ci := range CallsOf(fn) {
			call, ok := ci.(*ssa.Call)
			if !ok {
				continue
			}
			may := false
			for _, callee := range c.Facts.Callees(ci) {
				if isLoadPrimitive(c, callee, 0) {
					may = true
				}
			}
			if !may || ir.DeadByConst(call.Block()) || debugOnly(call.Block()) {
				continue
			}
			// the loaded node value
			var node ssa.Value = call
			if call.Call.Signature().Results().Len() > 1 {
				node = nil
				if call.Referrers() != nil {
					for _, r := range *call.Referrers() {
						if ex, ok := r.(*ssa.Extract); ok && ex.Index == 0 {
							node = ex
						}
					}
				}
			}
			pos := P.InstrPos(call)
			what := fmt.Sprintf("node loaded by %s in %s", callNames(c, call), ir.FuncName(fn))
			if node == nil || node.Referrers() == nil || len(*node.Referrers()) == 0 {
				c.Violation(fn, pos, "loaded node never used", "a node is read from the store and dropped")
				continue
			}
			uses := map[ssa.Instruction]bool{}
			for _, r := range *node.Referrers() {
				if _, isDbg := r.(*ssa.DebugRef); !isDbg {
					uses[r] = true
				}
			}
			// forward search from the call that stops at uses; reaching a successful return is a dead load
			var bad *ssa.Return
			seen := map[*ssa.BasicBlock]bool{}
			var walk func(b *ssa.BasicBlock, from int)
			walk = func(b *ssa.BasicBlock, from int) {
				if bad != nil || (from == 0 && seen[b]) {
					return
				}
				if from == 0 {
					seen[b] = true
				}
				for i := from; i < len(b.Instrs); i++ {
					ins := b.Instrs[i]
					if uses[ins] {
						return
					}
					switch x := ins.(type) {
					case *ssa.Return:
						if ei < 0 || ir.IsNilConst(x.Results[ei]) {
							bad = x
						}
						return
					case *ssa.Panic:
						return
					case *ssa.If:
						// the error test of this very call: only the nil edge continues the success path
						if tv, tnn, ok := ir.NilTest(x.Cond); ok {
							if ex, isEx := tv.(*ssa.Extract); isEx && ex.Tuple == ssa.Value(call) {
								if tnn {
									walk(b.Succs[1], 0)
								} else {
									walk(b.Succs[0], 0)
								}
								return
							}
						}
						// debug-only branches do not count
						if v, known := debugCond(x.Cond); known {
							if v {
								walk(b.Succs[0], 0)
							} else {
								walk(b.Succs[1], 0)
							}
							return
						}
					}
				}
				for _, s := range b.Succs {
					walk(s, 0)
				}
			}
			walk(call.Block(), ir.InstrIndex(call)+1)
			if bad == nil {
				c.OK(pos, what, "used on every path to a successful return", false)
			} else {
				c.Violation(fn, pos, "node loaded but unused on a successful path",
					fmt.Sprintf("the node read here is not looked at on the path to the successful return at %s: the operation reads a node outside the search path (one extra store read per such call)", P.InstrPos(bad)))
			}
		}
	}
}

// debugCond evaluates conditions that are loads of Mast.debug (never set
// outside tests) or boolean constants.
func debugCond(v ssa.Value) (val, known bool) {
	if b, ok := ir.ConstBool(v); ok {
		return b, true
	}
	if mastFieldLoad(v, "debug") {
		return false, true
	}
	return false, false
}

func debugOnly(b *ssa.BasicBlock) bool {
	for _, f := range ir.FactsAt(b) {
		if v, known := debugCond(f.Cond); known && v != f.Truth {
			return true
		}
	}
	return false
}

func runLINKNAMES(c *Ctx) {
	P := c.P
	fn, _ := persistingStoreFn(c)
	if fn == nil {
		return
	}
	n := 0
	for _, ci := range c.P.Callers[fn] {
		call, ok := ci.(*ssa.Call)
		if !ok {
			continue
		}
		g := ci.Parent()
		// recursion from the node store itself or from a helper working on the same kind of receiver
		if len(g.Params) == 0 || !isNodePtr(g.Params[0].Type()) {
			continue
		}
		recv := g.Params[0]
		n++
		// result #0 of the recursive call must be stored into the receiver's own Link slot
		var name ssa.Value
		if call.Referrers() != nil {
			for _, r := range *call.Referrers() {
				if ex, ok := r.(*ssa.Extract); ok && ex.Index == 0 {
					name = ex
				}
			}
		}
		stored := false
		if name != nil {
			for _, b := range g.Blocks {
				for _, ins := range b.Instrs {
					st, ok := ins.(*ssa.Store)
					if !ok || ir.Strip(st.Val) != name {
						continue
					}
					if ia, ok := st.Addr.(*ssa.IndexAddr); ok {
						if base, f, ok := nodeSliceRoot(ia.X); ok && f == "Link" && ir.ResolveCell(base) == ssa.Value(recv) {
							stored = true
						}
					}
				}
			}
		}
		if stored {
			c.OK(P.InstrPos(call), "child's name written back into the node's Link slot", "store of the recursive result into receiver.Link[i]", false)
		} else {
			f := c.Violation(g, P.InstrPos(call), "child name not written back into the node",
				"the node that is queued, cached and kept in memory still points at its in-memory child instead of naming it: versions served from the cache never compare equal to the same subtree loaded from the store (the diff reads everything), and the node is not what was persisted")
			f.Props = append([]string(nil), c.Rule.Props...) // the damage shows in the diff, wherever the store sits
		}
	}
	if n == 0 {
		c.Undecided(fn, P.Pos(fn.Pos()), "no recursion into children", "the node store does not call itself on in-memory children")
	}
}

// isLoadPrimitive: the function's node result is the node it just read: the
// loader itself, or a thin wrapper each of whose node returns is a parameter, a
// fresh node, or the direct result of a load primitive (follow).
func isLoadPrimitive(c *Ctx, f *ssa.Function, depth int) bool {
	if !isNodePtrResult(f) || !c.Facts.MayLoad[f] || depth > 2 {
		return false
	}
	if l := c.P.MastFunc("(*Mast).load"); l != nil && f == l {
		return true
	}
	if l := roleFunc(c.P, "(*Mast).load"); l != nil && f == l {
		return true
	}
	direct := false
	for _, r := range ir.Returns(f) {
		v := r.Results[0]
		if ir.IsNilConst(v) {
			continue
		}
		switch x := ir.ResolveCell(v).(type) {
		case *ssa.Parameter, *ssa.Alloc:
			continue
		case *ssa.Extract:
			if call, ok := x.Tuple.(*ssa.Call); ok && x.Index == 0 {
				okCallee := false
				for _, callee := range c.Facts.Callees(call) {
					if callee != f && isLoadPrimitive(c, callee, depth+1) {
						okCallee = true
					}
				}
				if okCallee {
					direct = true
					continue
				}
				// fresh node constructors
				if sc := ir.Callee(call.Call); sc != nil && !c.Facts.MayLoad[sc] {
					continue
				}
			}
			return false
		case *ssa.Call:
			if sc := ir.Callee(x.Call); sc != nil && !c.Facts.MayLoad[sc] {
				continue
			}
			return false
		default:
			return false
		}
	}
	return direct
}

// ---- REFLECTSET -----------------------------------------------------------------------

func init() {
	Register(&Rule{ID: "REFLECTSET", Props: []string{"C01"}, Min: 0,
		Doc: "reflect.Value.Set(reflect.ValueOf(x)) panics when x is a nil interface (ValueOf(nil) is the zero Value): wherever a stored value is copied into the caller's out-parameter this way, x is known non-nil on every path (an entry whose value is nil is a valid entry — set-like trees), and the out-parameter itself was tested non-nil.",
		Run: runREFLECTSET})
}

func runREFLECTSET(c *Ctx) {
	P := c.P
	n := 0
	valueOfArg := func(v ssa.Value) (ssa.Value, *ssa.Call) {
		// through .Elem() etc. back to reflect.ValueOf(x)
		for i := 0; i < 4; i++ {
			call, ok := v.(*ssa.Call)
			if !ok {
				return nil, nil
			}
			sc := ir.Callee(call.Call)
			if sc == nil {
				return nil, nil
			}
			if sc.String() == "reflect.ValueOf" {
				return call.Call.Args[0], call
			}
			if sc.Pkg == nil || sc.Pkg.Pkg.Path() != "reflect" || len(call.Call.Args) == 0 {
				return nil, nil
			}
			v = call.Call.Args[0]
		}
		return nil, nil
	}
	for _, fn := range P.Funcs {
		if fn.Pkg.Pkg.Path() != ir.MastPath {
			continue
		}
		for _, ci := range CallsOf(fn) {
			call, ok := ci.(*ssa.Call)
			if !ok {
				continue
			}
			sc := ir.Callee(call.Call)
			if sc == nil || sc.String() != "(reflect.Value).Set" || len(call.Call.Args) != 2 {
				continue
			}
			n++
			pos := P.InstrPos(call)
			for i, role := range []string{"destination", "source"} {
				x, vo := valueOfArg(call.Call.Args[i])
				if x == nil {
					c.Undecided(fn, pos, "reflect Set "+role, "cannot trace the "+role+" of Set back to reflect.ValueOf")
					continue
				}
				x = ir.Strip(x)
				what := fmt.Sprintf("%s of reflect Set in %s: %s", role, ir.FuncName(fn), pathDesc(ir.Sym(x)))
				if ok, why := ir.GuardedNonNil(x, vo); ok {
					c.OK(pos, what, why, false)
				} else if ir.FlowNonNil(x, vo) {
					c.OK(pos, what, "tested non-nil on every path", false)
				} else {
					c.Violation(fn, pos, role+" of reflect Set may be a nil interface",
						"reflect.ValueOf(nil) is the zero Value, and Set / Elem on it panics: a lookup of an entry whose stored value is nil (a set-like tree) with a non-nil out-parameter crashes instead of reporting the entry")
				}
			}
		}
	}
	if n == 0 {
		c.Note("no reflect.Value.Set in the tree package: nothing to check")
	}
}
