package rules

import (
	"go/types"
	"golang.org/x/tools/go/ssa"

	"mastcheck/ir"
)

// propEntries: the API surface of a property. A finding located in function fn
// is charged to a property (among those owning the rule) only if fn is
// reachable from that property's entry points — so an odd construct added to
// the diff code cannot turn the cursor check red. Properties absent from this
// table (global invariants) are always charged.
var propEntries = map[string][]string{
	"C01": {"(*Mast).Get", "(*Mast).Insert", "(*Mast).Delete", "(*Mast).Iter", "(*Mast).Size", "(*Mast).Height",
		"(*Mast).Clone", "(*Mast).MakeRoot", "(*Root).LoadMast", "(*Mast).IsDirty", "NewInMemory", "(*Mast).BranchFactor"},
	"C06": {"(*Mast).DiffIter", "(*Mast).StartDiff", "(*DiffCursor).NextEntry"},
	"C07": {"(*Mast).DiffLinks", "(*Mast).MakeRoot"}, // node diffs are taken between published versions: what MakeRoot leaves as root is what DiffLinks announces
	"C10": {"(*Mast).Cursor", "(*Cursor).Min", "(*Cursor).Max", "(*Cursor).Get", "(*Cursor).Forward", "(*Cursor).Backward",
		"(*Cursor).Ceil", "(*Cursor).String", "(*Mast).SeekIter"},
	"C15": {"(*Mast).DiffIter", "(*Mast).DiffLinks", "(*Mast).StartDiff", "(*DiffCursor).NextEntry", "(*Mast).MakeRoot"}, // the cost bound is between persisted versions: what MakeRoot leaves as root is what the diff compares by name
	"C03": {"(*Mast).MakeRoot", "(*Mast).Clone"}, // a clone persists what it shares with its source: what Clone marks as saved is skipped by the clone's MakeRoot
	"C05": {"(*Mast).MakeRoot", "(*Root).LoadMast", "NewRoot"},
	"C19": {"(*Root).LoadMast"},
	"C12": {"(*Mast).Insert", "(*Mast).Delete", "(*Mast).Get", "(*Mast).Iter", "(*Mast).SeekIter", "(*Mast).DiffIter", "(*Mast).DiffLinks",
		"(*Mast).StartDiff", "(*DiffCursor).NextEntry", "(*Mast).Clone", "(*Mast).Cursor", "(*Cursor).Min", "(*Cursor).Max", "(*Cursor).Forward",
		"(*Cursor).Backward", "(*Cursor).Ceil", "(*Cursor).Get"},
}

func (F *Facts) reachFromProp(p string) map[*ssa.Function]bool {
	if F.propReach == nil {
		F.propReach = map[string]map[*ssa.Function]bool{}
	}
	if r, ok := F.propReach[p]; ok {
		return r
	}
	var es []*ssa.Function
	for _, n := range propEntries[p] {
		if fn := F.P.MastFunc(n); fn != nil {
			es = append(es, fn)
		}
	}
	r := F.Reach(es...)
	F.propReach[p] = r
	return r
}

// attribute narrows the properties a finding in fn is charged to.
func (c *Ctx) attribute(fn *ssa.Function, props []string) []string {
	if fn == nil || c.Facts == nil {
		return props
	}
	if fn.Pkg != nil && fn.Pkg.Pkg.Path() != ir.MastPath {
		return props // backend packages are reached through the Persist interface, not through static calls
	}
	// likewise a store or cache implemented in the root package (the in-memory store, a wrapper): its methods and
	// constructors are reached through the interface, which static reachability from the API does not follow
	if o := ir.Outermost(fn); o != nil {
		if recv := o.Signature.Recv(); recv != nil {
			t := recv.Type()
			if pt, ok := t.(*types.Pointer); ok {
				t = pt.Elem()
			}
			if named, ok := types.Unalias(t).(*types.Named); ok && implementsStorageIface(c.P, named) {
				return props
			}
		} else {
			res := o.Signature.Results()
			for i := 0; i < res.Len(); i++ {
				if n, ok := types.Unalias(res.At(i).Type()).(*types.Named); ok && (n.Obj().Name() == "Persist" || n.Obj().Name() == "NodeCache") {
					return props // a constructor of a store / cache
				}
			}
		}
	}
	var out []string
	for _, p := range props {
		if _, has := propEntries[p]; !has {
			out = append(out, p)
			continue
		}
		if c.Facts.reachFromProp(p)[fn] {
			out = append(out, p)
		}
	}
	if len(out) == 0 {
		return props
	}
	return out
}
