package rules

import (
	"strings"

	"golang.org/x/tools/go/ssa"

	"mastcheck/ir"
)

// PANICERR: a failure of the store or of a user callback (key comparison, layer, marshal, unmarshal) is the caller's
// to see as an error. Turning it into a panic crashes Insert/Delete (or whichever operation ran the code) instead.

func init() {
	Register(&Rule{ID: "PANICERR", Props: []string{"C12", "C01"}, Min: 0,
		Doc: "no function of package mast outside the diagnostic ones passes to panic a value that is (or wraps) the error result of a call that can fail for external reasons " +
			"(a user callback, Persist.Load/Store, a repository function that may return such an error).",
		Run: runPANICERR})
}

func runPANICERR(c *Ctx) {
	P := c.P
	for _, fn := range P.Funcs {
		if fn.Pkg == nil || fn.Pkg.Pkg.Path() != ir.MastPath || c.Facts.debugOnlyFunc(fn) != "" {
			continue
		}
		for _, b := range fn.Blocks {
			if ir.IsDead(b) {
				continue
			}
			for _, ins := range b.Instrs {
				pn, ok := ins.(*ssa.Panic)
				if !ok {
					continue
				}
				src := externalErrorSource(c, pn.X, map[ssa.Value]bool{}, 0)
				if src == "" {
					c.OK(P.InstrPos(pn), "panic in "+ir.FuncName(fn), "not fed by an external failure (an internal assertion)", true)
					continue
				}
				c.Violation(fn, P.InstrPos(pn), "panic with the error of "+src,
					"the failure of "+src+" is escalated with panic: the operation that runs this code (Insert, Delete, a clone …) crashes instead of returning the error and leaving the tree as it was")
			}
		}
	}
}

// externalErrorSource: v is, wraps or merges the error result of a call that may fail for external reasons.
func externalErrorSource(c *Ctx, v ssa.Value, seen map[ssa.Value]bool, d int) string {
	if v == nil || d > 8 || seen[v] {
		return ""
	}
	seen[v] = true
	switch x := v.(type) {
	case *ssa.MakeInterface:
		return externalErrorSource(c, x.X, seen, d+1)
	case *ssa.ChangeInterface:
		return externalErrorSource(c, x.X, seen, d+1)
	case *ssa.Phi:
		for _, e := range x.Edges {
			if s := externalErrorSource(c, e, seen, d+1); s != "" {
				return s
			}
		}
	case *ssa.UnOp:
		if r := ir.ResolveCell(x); r != ssa.Value(x) {
			return externalErrorSource(c, r, seen, d+1)
		}
	case *ssa.Extract:
		call, ok := x.Tuple.(*ssa.Call)
		if !ok || !ir.IsErrorType(x.Type()) {
			return ""
		}
		return failSource(c, call)
	case *ssa.Call:
		if ir.IsErrorType(x.Type()) {
			if s := failSource(c, x); s != "" {
				return s
			}
		}
		// fmt.Errorf("…%w", err) and friends: an argument carries the error
		for _, a := range x.Call.Args {
			if s := externalErrorSource(c, a, seen, d+1); s != "" {
				return s
			}
		}
	case *ssa.Slice:
		// the varargs array of a formatting call
		if al, ok := x.X.(*ssa.Alloc); ok && al.Referrers() != nil {
			for _, r := range *al.Referrers() {
				if ia, ok := r.(*ssa.IndexAddr); ok && ia.Referrers() != nil {
					for _, r2 := range *ia.Referrers() {
						if st, ok := r2.(*ssa.Store); ok {
							if s := externalErrorSource(c, st.Val, seen, d+1); s != "" {
								return s
							}
						}
					}
				}
			}
		}
	}
	return ""
}

func failSource(c *Ctx, call *ssa.Call) string {
	ext := c.Facts.External(call)
	if strings.HasPrefix(ext, "callback:") {
		return "the " + strings.TrimPrefix(ext, "callback:") + " callback"
	}
	if ext == "Persist.Load" || ext == "Persist.Store" {
		return ext
	}
	for _, f := range c.Facts.Callees(call) {
		if c.Facts.MayFail[f] && f.Pkg != nil && f.Pkg.Pkg.Path() == ir.MastPath {
			return ir.FuncName(f)
		}
	}
	return ""
}

// ---- RECOVER --------------------------------------------------------------------------

// A panic out of a user callback or a Persist implementation ends the process today: nothing in the repository
// recovers. A recover that only logs turns such a crash into a silent success — the worker that was writing a
// node ends, Wait returns, the error cell is nil and MakeRoot hands out a root whose node was never written.

func init() {
	Register(&Rule{ID: "RECOVER", Props: []string{"C03", "C12", "C18", "C09", "C01", "C05"}, Min: 2,
		Doc: "no deferred function of the repository swallows a panic: every `defer` runs code without a recover(), or the non-nil recovered value is escalated on that edge " +
			"(re-panicked, or stored as an error into a variable or field that outlives the deferred function); a recover() outside a deferred function is reported too.",
		Run: runRECOVER})
}

func isRecoverCall(ins ssa.Instruction) (*ssa.Call, bool) {
	call, ok := ins.(*ssa.Call)
	if !ok {
		return nil, false
	}
	b, ok := call.Call.Value.(*ssa.Builtin)
	return call, ok && b.Name() == "recover"
}

func runRECOVER(c *Ctx) {
	P := c.P
	own := func(f *ssa.Function) bool {
		o := ir.Outermost(f)
		return o != nil && o.Pkg != nil && strings.HasPrefix(o.Pkg.Pkg.Path(), ir.MastPath)
	}
	// every recover() of the repository, with whether it is escalated
	type rec struct {
		call *ssa.Call
		ok   bool
	}
	recovers := map[*ssa.Function][]rec{}
	for _, fn := range P.Funcs {
		if !own(fn) {
			continue
		}
		for _, b := range fn.Blocks {
			for _, ins := range b.Instrs {
				call, ok := isRecoverCall(ins)
				if !ok {
					continue
				}
				esc := false
				for _, b2 := range fn.Blocks {
					if !nilFactOn(b2, call, false) {
						continue
					}
					for _, i2 := range b2.Instrs {
						switch y := i2.(type) {
						case *ssa.Panic:
							esc = true
						case *ssa.Store:
							if !ir.IsErrorType(y.Val.Type()) || ir.IsNilConst(y.Val) {
								continue
							}
							switch ir.Origin(y.Addr).(type) {
							case *ssa.FreeVar, *ssa.FieldAddr, *ssa.Global:
								esc = true
							}
						}
					}
				}
				recovers[fn] = append(recovers[fn], rec{call, esc})
				if esc {
					c.OK(P.InstrPos(call), "recover() in "+ir.FuncName(fn), "a non-nil recovered value is re-panicked or stored as an error that outlives the function", true)
				} else {
					c.Violation(fn, P.InstrPos(call), "recovered panic swallowed",
						"a panic (of a Persist implementation, a user callback, or an internal assertion) is recovered and neither re-raised nor recorded as an error: the operation goes on as if the interrupted step had succeeded — a store worker that panicked leaves the error cell nil, so MakeRoot reports success for a node that was never written")
				}
			}
		}
	}
	// every defer of the repository: what it runs contains no recover, or only escalating ones (reported above)
	for _, fn := range P.Funcs {
		if !own(fn) {
			continue
		}
		for _, b := range fn.Blocks {
			for _, ins := range b.Instrs {
				d, ok := ins.(*ssa.Defer)
				if !ok {
					continue
				}
				what := "defer in " + ir.FuncName(fn)
				tgt := calleeOrClosure(&d.Call)
				switch {
				case tgt == nil && d.Call.IsInvoke():
					c.OK(P.InstrPos(d), what, "an interface method of another package's type (cannot recover for this frame's callers without being deferred itself)", true)
				case tgt == nil:
					c.Undecided(fn, P.InstrPos(d), "deferred function value of unknown origin", "the deferred call's target is not a function literal or a named function: whether it recovers cannot be decided")
				case !own(tgt) || tgt.Blocks == nil:
					c.OK(P.InstrPos(d), what, "runs "+tgt.String()+" (outside the repository: Unlock, Done, Close …)", false)
				case len(recovers[tgt]) == 0:
					c.OK(P.InstrPos(d), what, "the deferred function contains no recover()", false)
				default:
					c.OK(P.InstrPos(d), what, "the deferred function recovers; each recover() is judged at its own site", false)
				}
			}
		}
	}
}
