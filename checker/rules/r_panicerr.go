package rules

import (
	"strings"

	"golang.org/x/tools/go/ssa"

	"mastcheck/ir"
)

// PANICERR: a failure of the store or of a user callback (key comparison, layer, marshal, unmarshal) is the caller's
// to see as an error. Turning it into a panic crashes Insert/Delete (or whichever operation ran the code) instead.

func init() {
	Register(&Rule{ID: "PANICERR", Props: []string{"C12", "C01"}, Min: 0,
		Doc: "no function of package mast outside the diagnostic ones passes to panic a value that is (or wraps) the error result of a call that can fail for external reasons " +
			"(a user callback, Persist.Load/Store, a repository function that may return such an error).",
		Run: runPANICERR})
}

func runPANICERR(c *Ctx) {
	P := c.P
	for _, fn := range P.Funcs {
		if fn.Pkg == nil || fn.Pkg.Pkg.Path() != ir.MastPath || c.Facts.debugOnlyFunc(fn) != "" {
			continue
		}
		for _, b := range fn.Blocks {
			if ir.IsDead(b) {
				continue
			}
			for _, ins := range b.Instrs {
				pn, ok := ins.(*ssa.Panic)
				if !ok {
					continue
				}
				src := externalErrorSource(c, pn.X, map[ssa.Value]bool{}, 0)
				if src == "" {
					c.OK(P.InstrPos(pn), "panic in "+ir.FuncName(fn), "not fed by an external failure (an internal assertion)", true)
					continue
				}
				c.Violation(fn, P.InstrPos(pn), "panic with the error of "+src,
					"the failure of "+src+" is escalated with panic: the operation that runs this code (Insert, Delete, a clone …) crashes instead of returning the error and leaving the tree as it was")
			}
		}
	}
}

// externalErrorSource: v is, wraps or merges the error result of a call that may fail for external reasons.
func externalErrorSource(c *Ctx, v ssa.Value, seen map[ssa.Value]bool, d int) string {
	if v == nil || d > 8 || seen[v] {
		return ""
	}
	seen[v] = true
	switch x := v.(type) {
	case *ssa.MakeInterface:
		return externalErrorSource(c, x.X, seen, d+1)
	case *ssa.ChangeInterface:
		return externalErrorSource(c, x.X, seen, d+1)
	case *ssa.Phi:
		for _, e := range x.Edges {
			if s := externalErrorSource(c, e, seen, d+1); s != "" {
				return s
			}
		}
	case *ssa.UnOp:
		if r := ir.ResolveCell(x); r != ssa.Value(x) {
			return externalErrorSource(c, r, seen, d+1)
		}
	case *ssa.Extract:
		call, ok := x.Tuple.(*ssa.Call)
		if !ok || !ir.IsErrorType(x.Type()) {
			return ""
		}
		return failSource(c, call)
	case *ssa.Call:
		if ir.IsErrorType(x.Type()) {
			if s := failSource(c, x); s != "" {
				return s
			}
		}
		// fmt.Errorf("…%w", err) and friends: an argument carries the error
		for _, a := range x.Call.Args {
			if s := externalErrorSource(c, a, seen, d+1); s != "" {
				return s
			}
		}
	case *ssa.Slice:
		// the varargs array of a formatting call
		if al, ok := x.X.(*ssa.Alloc); ok && al.Referrers() != nil {
			for _, r := range *al.Referrers() {
				if ia, ok := r.(*ssa.IndexAddr); ok && ia.Referrers() != nil {
					for _, r2 := range *ia.Referrers() {
						if st, ok := r2.(*ssa.Store); ok {
							if s := externalErrorSource(c, st.Val, seen, d+1); s != "" {
								return s
							}
						}
					}
				}
			}
		}
	}
	return ""
}

func failSource(c *Ctx, call *ssa.Call) string {
	ext := c.Facts.External(call)
	if strings.HasPrefix(ext, "callback:") {
		return "the " + strings.TrimPrefix(ext, "callback:") + " callback"
	}
	if ext == "Persist.Load" || ext == "Persist.Store" {
		return ext
	}
	for _, f := range c.Facts.Callees(call) {
		if c.Facts.MayFail[f] && f.Pkg != nil && f.Pkg.Pkg.Path() == ir.MastPath {
			return ir.FuncName(f)
		}
	}
	return ""
}
