package rules

import (
	"fmt"
	"go/token"
	"go/types"

	"golang.org/x/tools/go/ssa"

	"mastcheck/ir"
)

// KEYINDEX: an entry is addressed as Key[i] / Value[i]. Unlike Link (which always has one slot more than there
// are keys, so the slot "after the last key" exists), Key and Value have no spare slot: every position handed
// out by a search (findNode returns len(Key) for "not in this node") or kept in a cursor must be compared with
// the length before it is used. The index is only ever compared, never computed from data, so the check is a
// one-variable bound decided by a must-dataflow of the comparisons on the path.

func init() {
	Register(&Rule{ID: "KEYINDEX", Props: []string{"C01", "C10"}, Min: 25,
		Doc: "every index into a node's Key or Value list that is not a constant is in range on every path: a comparison idx < len(…) (or idx == len(…) refuted, idx >= len(…) refuted) of the same index expression holds at the use with no store to a location it depends on in between; or the index is len(S)-k under a test len(S) ≥ k; or it is the position argument sort.Search passes to its predicate with n = len(…); an unguarded index parameter is a requirement on every caller (one level).",
		Run: runKEYINDEX})
}

// indexBounded: idx (used at use) is known to be below some length on every path.
func indexBounded(idx ssa.Value, use ssa.Instruction) (bool, string) {
	return indexBoundedD(idx, use, 0)
}

func isLenCall(v ssa.Value) bool {
	call, ok := ir.ResolveCell(v).(*ssa.Call)
	if !ok {
		return false
	}
	b, ok := call.Call.Value.(*ssa.Builtin)
	return ok && b.Name() == "len"
}

// belowLenFact: the fact says `I < len(…)` (or refutes I >= len / I == len) for a value I accepted by isIdx.
func belowLenFact(fc ir.Fact, isIdx func(ssa.Value) bool) bool {
	bin, ok := fc.Cond.(*ssa.BinOp)
	if !ok {
		return false
	}
	x, y, op := bin.X, bin.Y, bin.Op
	if isIdx(y) && !isIdx(x) {
		x, y = y, x
		switch op {
		case token.LSS:
			op = token.GTR
		case token.GTR:
			op = token.LSS
		case token.LEQ:
			op = token.GEQ
		case token.GEQ:
			op = token.LEQ
		}
	}
	if !isIdx(x) || !isLenCall(y) {
		return false
	}
	if !fc.Truth {
		switch op {
		case token.GEQ:
			op = token.LSS
		case token.EQL:
			op = token.NEQ
		default:
			return false
		}
	}
	return op == token.LSS || op == token.NEQ
}

func indexBoundedD(idx ssa.Value, use ssa.Instruction, depth int) (bool, string) {
	if depth > 3 {
		return false, ""
	}
	isym := ir.Sym(idx)
	deps := ir.LoadDeps(idx)
	kills := func(i ssa.Instruction) bool {
		st, ok := i.(*ssa.Store)
		return ok && ir.MayClobber(ir.Sym(st.Addr), deps)
	}
	if ir.FlowFact(use, func(fc ir.Fact) bool {
		if belowLenFact(fc, func(v ssa.Value) bool { return ir.Sym(v) == isym }) {
			return true
		}
		// a boolean computed by a helper that also returns the position (`node, i, ok := locate(k); if !ok {return}`):
		// the helper's own expression for that result says what the observed value means for the position it returns
		// a predicate helper applied to the position: `if !opts.reachedEntry(node, i) { return }` — what the helper's
		// result means for its parameter is read off the helper's own return expression
		if pc, ok := fc.Cond.(*ssa.Call); ok {
			h := ir.Callee(pc.Call)
			if h == nil || h.Blocks == nil || h.Pkg == nil || len(pc.Call.Args) != len(h.Params) {
				return false
			}
			n := 0
			for _, r := range ir.Returns(h) {
				if len(r.Results) != 1 {
					return false
				}
				rv := ir.ResolveCell(r.Results[0])
				if cb, isC := ir.ConstBool(rv); isC {
					if cb != fc.Truth {
						continue
					}
					return false
				}
				n++
				okRet := false
				for _, f2 := range ir.ExpandFacts([]ir.Fact{{Cond: rv, Truth: fc.Truth, From: r.Block()}}) {
					if belowLenFact(f2, func(v ssa.Value) bool {
						// the tested value, a path rooted at a parameter of the helper (the position itself, or a
						// field of a struct handed over by value), is the index in the caller's terms
						s2, rooted := symInCaller(h, pc.Call.Args, ir.Sym(v))
						return rooted && s2 == isym
					}) {
						okRet = true
					}
				}
				if !okRet {
					return false
				}
			}
			return n > 0
		}
		ex, ok := fc.Cond.(*ssa.Extract)
		if !ok {
			return false
		}
		call, _ := ex.Tuple.(*ssa.Call)
		iex, isEx := ir.ResolveCell(idx).(*ssa.Extract)
		if call == nil || !isEx || iex.Tuple != ssa.Value(call) {
			return false
		}
		callee := ir.Callee(call.Call)
		if callee == nil || callee.Blocks == nil || callee.Pkg == nil {
			return false
		}
		n := 0
		for _, r := range ir.Returns(callee) {
			if ex.Index >= len(r.Results) || iex.Index >= len(r.Results) {
				return false
			}
			rv := ir.ResolveCell(r.Results[ex.Index])
			if cb, isC := ir.ConstBool(rv); isC {
				if cb != fc.Truth {
					continue // this return never yields the observed value
				}
				return false
			}
			n++
			pos := ir.ResolveCell(r.Results[iex.Index])
			okRet := false
			for _, f2 := range ir.ExpandFacts([]ir.Fact{{Cond: rv, Truth: fc.Truth, From: r.Block()}}) {
				if belowLenFact(f2, func(v ssa.Value) bool { return ir.ResolveCell(v) == pos || ir.Sym(v) == ir.Sym(pos) }) {
					okRet = true
				}
			}
			if !okRet {
				return false
			}
		}
		return n > 0
	}, kills) {
		return true, "compared with a length on every path (idx < len, or idx == len refuted)"
	}
	if bin, ok := ir.ResolveCell(idx).(*ssa.BinOp); ok && bin.Op == token.SUB {
		k, isK := ir.ConstInt(bin.Y)
		// mirror position of a bounded index: (len(S) - n) - 1 with n < len(…)
		if isK && k == 1 {
			if inner, ok := ir.ResolveCell(bin.X).(*ssa.BinOp); ok && inner.Op == token.SUB && isLenCall(inner.X) {
				if okN, _ := indexBoundedD(inner.Y, use, depth+1); okN {
					return true, "mirror position len-1-n of an index n that is below the length"
				}
			}
		}
		// V - k under V ≥ k, where V is at most a length (a length, a length counted down, or an index below one)
		if isK && k >= 1 {
			vOK := atMostALength(bin.X, map[ssa.Value]bool{})
			if !vOK {
				vOK, _ = indexBoundedD(bin.X, use, depth+1)
			}
			if vOK {
				ls := ir.Sym(bin.X)
				if ir.FlowFact(use, func(fc ir.Fact) bool {
					b2, ok := fc.Cond.(*ssa.BinOp)
					if !ok || ir.Sym(b2.X) != ls {
						return false
					}
					c0, isC := ir.ConstInt(b2.Y)
					if !isC {
						return false
					}
					op := b2.Op
					if !fc.Truth {
						switch op {
						case token.EQL:
							op = token.NEQ
						case token.LSS:
							op = token.GEQ
						case token.LEQ:
							op = token.GTR
						default:
							return false
						}
					}
					switch op {
					case token.GTR:
						return c0 >= k-1
					case token.GEQ:
						return c0 >= k
					case token.NEQ:
						return c0 == 0 && k == 1
					}
					return false
				}, func(i ssa.Instruction) bool {
					st, ok := i.(*ssa.Store)
					return ok && ir.MayClobber(ir.Sym(st.Addr), ir.LoadDeps(bin.X))
				}) {
					return true, fmt.Sprintf("V-%d under a test V ≥ %d, V at most a length", k, k)
				}
			}
		}
	}
	return false, ""
}

func runKEYINDEX(c *Ctx) {
	P := c.P
	type preq struct {
		fn    *ssa.Function
		idx   int
		at    string
		depth int
	}
	var reqs []preq
	for _, fn := range P.Funcs {
		if fn.Pkg.Pkg.Path() != ir.MastPath || c.Facts.debugOnlyFunc(fn) != "" {
			continue
		}
		for _, b := range fn.Blocks {
			for _, ins := range b.Instrs {
				ia, ok := ins.(*ssa.IndexAddr)
				if !ok {
					continue
				}
				if isPathSlice(P, ia.X.Type()) {
					// an entry of a search path addressed by a computed index (path[i+1] for "the next deeper entry")
					if _, isC := ia.Index.(*ssa.Const); isC {
						continue
					}
					if bin, isBin := ir.ResolveCell(ia.Index).(*ssa.BinOp); isBin && bin.Op == token.SUB && isLenCall(bin.X) {
						continue // len(path)-k: CURSORGUARD's business
					}
					pos := P.InstrPos(ia)
					what := fmt.Sprintf("path[%s] in %s", pathDesc(ir.Sym(ia.Index)), ir.FuncName(fn))
					if ok, why := indexBounded(ia.Index, ia); ok {
						c.OK(pos, what, why, false)
					} else if k, ok := lenMinus(ia.Index, map[ssa.Value]bool{}); ok && k >= 1 {
						c.OK(pos, what, fmt.Sprintf("a counter that starts at a length minus a constant and only goes down: at most len-%d", k), false)
					} else {
						c.Violation(fn, pos, fmt.Sprintf("path[%s] not known to be in range", pathDesc(ir.Sym(ia.Index))),
							"an entry of the search path is addressed by an index that no test on the way compares with the path's length: at the deepest entry (or on an empty path) this panics with index out of range")
					}
					continue
				}
				_, f, ok := nodeSliceRoot(ia.X)
				if !ok || (f != "Key" && f != "Value") {
					continue
				}
				if _, isC := ia.Index.(*ssa.Const); isC {
					continue
				}
				pos := P.InstrPos(ia)
				what := fmt.Sprintf("%s[%s] in %s", f, pathDesc(ir.Sym(ia.Index)), ir.FuncName(fn))
				if ok, why := indexBounded(ia.Index, ia); ok {
					c.OK(pos, what, why, false)
					continue
				}
				// the position sort.Search hands to its predicate
				if p, isP := ir.ResolveCell(ia.Index).(*ssa.Parameter); isP && fn.Parent() != nil && len(fn.Params) == 1 {
					okSearch := false
					for _, pb := range fn.Parent().Blocks {
						for _, pi := range pb.Instrs {
							call, ok := pi.(*ssa.Call)
							if !ok {
								continue
							}
							if sc := ir.Callee(call.Call); sc == nil || sc.String() != "sort.Search" {
								continue
							}
							if mc, ok := call.Call.Args[1].(*ssa.MakeClosure); ok && mc.Fn == ssa.Value(fn) {
								if atMostALength(call.Call.Args[0], map[ssa.Value]bool{}) {
									okSearch = true
								}
							}
						}
					}
					_ = p
					if okSearch {
						c.OK(pos, what, "position argument of sort.Search's predicate, n is a length", false)
						continue
					}
				}
				if p, isP := ir.ResolveCell(ia.Index).(*ssa.Parameter); isP && p.Parent() == fn && fn.Parent() == nil {
					if bt, ok := p.Type().Underlying().(*types.Basic); ok && bt.Info()&types.IsInteger != 0 {
						c.OK(pos, what, "index parameter: requirement on callers", false)
						reqs = append(reqs, preq{fn, paramIndex(p), pos, 0})
						continue
					}
				}
				c.Violation(fn, pos, fmt.Sprintf("%s[%s] not known to be in range", f, pathDesc(ir.Sym(ia.Index))),
					"Key and Value have no slot after the last entry: a search position equal to the number of keys (key not in this node), a cursor position past the last key, or an index shifted by one panics here (index out of range) or pairs a key with its neighbour's value")
			}
		}
	}
	seen := map[string]bool{}
	for ri := 0; ri < len(reqs); ri++ {
		r := reqs[ri]
		k := fmt.Sprintf("%s#%d", ir.FuncName(r.fn), r.idx)
		if seen[k] {
			continue
		}
		seen[k] = true
		for _, cs := range P.Callers[r.fn] {
			args := cs.Common().Args
			if r.idx >= len(args) {
				continue
			}
			what := fmt.Sprintf("index argument %s of %s in %s", pathDesc(ir.Sym(args[r.idx])), r.fn.Name(), ir.FuncName(cs.Parent()))
			if _, isC := args[r.idx].(*ssa.Const); isC {
				c.Undecided(cs.Parent(), P.InstrPos(cs), "constant index argument", what)
				continue
			}
			if ok, why := indexBounded(args[r.idx], cs); ok {
				c.OK(P.InstrPos(cs), what, why, false)
			} else if p, isP := ir.ResolveCell(args[r.idx]).(*ssa.Parameter); isP && r.depth < 3 && p.Parent() == cs.Parent() &&
				privateHelper(c, cs.Parent()) && isIntegerParam(p) {
				// the caller is itself a private helper (all its callers are known) that hands its own, untested, index
				// parameter on: the requirement moves to its callers
				c.OK(P.InstrPos(cs), what, "the caller's own index parameter: requirement on its callers", false)
				reqs = append(reqs, preq{cs.Parent(), paramIndex(p), r.at, r.depth + 1})
			} else {
				c.Violation(cs.Parent(), P.InstrPos(cs), "index argument of "+r.fn.Name()+" not known to be in range",
					r.fn.Name()+" uses this argument as an index into Key/Value without testing it (at "+r.at+"); the caller must")
			}
		}
	}
}

// atMostALength: v is len(…), or such a value after decrements only (i := len(S); …; i--): v ≤ a length.
func atMostALength(v ssa.Value, seen map[ssa.Value]bool) bool {
	v = ir.ResolveCell(v)
	if seen[v] {
		return true
	}
	seen[v] = true
	switch x := v.(type) {
	case *ssa.Call:
		b, ok := x.Call.Value.(*ssa.Builtin)
		return ok && b.Name() == "len"
	case *ssa.BinOp:
		if x.Op == token.SUB {
			if k, isK := ir.ConstInt(x.Y); isK && k >= 0 {
				return atMostALength(x.X, seen)
			}
		}
	case *ssa.Phi:
		for _, e := range x.Edges {
			if !atMostALength(e, seen) {
				return false
			}
		}
		return len(x.Edges) > 0
	case *ssa.UnOp:
		// a variable cell with several stores (i declared outside a closure): every stored value
		if x.Op == token.MUL {
			// the position kept in a path entry never exceeds the number of keys of the entry's node (entry
			// invariant, established by ENTRYINV for every store to it)
			if fa, ok := x.X.(*ssa.FieldAddr); ok && ir.FieldName(fa.X.Type(), fa.Field) == posFieldName {
				return true
			}
			if a, ok := x.X.(*ssa.Alloc); ok {
				stores, escapes := ir.CellStores(a)
				if escapes || len(stores) == 0 {
					return false
				}
				for _, st := range stores {
					if !atMostALength(st.Val, seen) {
						return false
					}
				}
				return true
			}
		}
	}
	return false
}

// lenMinus: v ≤ len(S) - k for some length and the returned k (the largest that can be shown): len(S) itself (0),
// such a value plus or minus a constant, a φ of such values (a loop counter going down from len(S)-c: the back edge is
// the φ itself minus a constant and does not lower k).
func lenMinus(v ssa.Value, seen map[ssa.Value]bool) (int64, bool) {
	v = ir.ResolveCell(v)
	switch x := v.(type) {
	case *ssa.Call:
		if b, ok := x.Call.Value.(*ssa.Builtin); ok && b.Name() == "len" {
			return 0, true
		}
	case *ssa.BinOp:
		if k, isK := ir.ConstInt(x.Y); isK {
			if seen[x.X] {
				// the loop counter itself: only decrements keep the bound
				if x.Op == token.SUB && k >= 0 {
					return 1 << 40, true
				}
				return 0, false
			}
			base, ok := lenMinus(x.X, seen)
			if !ok {
				return 0, false
			}
			if x.Op == token.SUB {
				return base + k, true
			}
			if x.Op == token.ADD {
				return base - k, true
			}
		}
	case *ssa.Phi:
		if seen[v] {
			return 1 << 40, true
		}
		seen[v] = true
		best := int64(1 << 40)
		for _, e := range x.Edges {
			k, ok := lenMinus(e, seen)
			if !ok {
				return 0, false
			}
			if k < best {
				best = k
			}
		}
		return best, len(x.Edges) > 0
	}
	return 0, false
}

func isIntegerParam(p *ssa.Parameter) bool {
	bt, ok := p.Type().Underlying().(*types.Basic)
	return ok && bt.Info()&types.IsInteger != 0
}
