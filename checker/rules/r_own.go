package rules

import (
	"fmt"
	"sort"

	"golang.org/x/tools/go/ssa"

	"mastcheck/ir"
)

func init() {
	Register(&Rule{
		ID:    "OWN",
		Props: []string{"C02", "C11"},
		Min:   60,
		Doc: "copy-on-write ownership: every instruction that writes node memory (flag or slice-header store, element store, " +
			"append/copy into a node's backing array, address handed to a writer) must go through a node that is Fresh " +
			"(allocated here / returned by a function returning only fresh nodes) or Unshared (ToMut result, or flags tested); " +
			"writes through a parameter become a requirement on every caller, to a fixpoint; writes unreachable under the " +
			"shared-state valuation (shared ∧ ¬dirty ∧ source≠nil) of that parameter are discharged, and so is a requirement at a call site that is unreachable under it. " +
			"A branch on the boolean result of a same-package predicate that is handed the parameter (`_, done, _ := node.storedAs(); if done {return}`) is evaluated by evaluating the " +
			"predicate's reachable returns under the valuation of its own parameter; this stays sound because any write to the flags that is reachable under the valuation — in the caller " +
			"or in the predicate — is itself an undischarged write and is reported.",
		Run: runOWN,
	})
}

func runOWN(c *Ctx) {
	A := c.Facts.Own()
	P := c.P
	for _, w := range A.Writes {
		pos := P.InstrPos(w.Instr)
		what := fmt.Sprintf("%s of %s.%s in %s", w.Kind, ir.Sym(w.Base), w.Field, ir.FuncName(w.Fn))
		switch w.Class.Own {
		case Fresh:
			c.OK(pos, what, "fresh: "+w.Class.Why, true)
		case Unshared:
			c.OK(pos, what, "unshared: "+w.Class.Why, false)
		case ParamOwn:
			if w.Guarded {
				c.OK(pos, what, "parameter "+w.Class.Param.Name()+": unreachable under shared ∧ ¬dirty ∧ source≠nil", false)
			} else {
				c.OK(pos, what, "parameter "+w.Class.Param.Name()+": requirement on callers (checked below)", false)
			}
		default:
			c.Violation(w.Fn, pos, fmt.Sprintf("%s %s.%s", w.Kind, baseDesc(w.Base), w.Field),
				fmt.Sprintf("write to node memory through a node that may be shared (%s); a shared node is reachable from other versions, the cache or the store", w.Class.Why))
		}
	}
	// requirements
	type rk struct {
		fn  *ssa.Function
		idx int
	}
	var keys []rk
	for fn, m := range A.Reqs {
		for idx := range m {
			keys = append(keys, rk{fn, idx})
		}
	}
	sort.Slice(keys, func(i, j int) bool {
		if keys[i].fn.Pos() != keys[j].fn.Pos() {
			return ir.PosLess(keys[i].fn.Pos(), keys[j].fn.Pos())
		}
		return keys[i].idx < keys[j].idx
	})
	und := map[*Requirement][]Undischarged{}
	for _, u := range A.Undischarged {
		und[u.Req] = append(und[u.Req], u)
	}
	for _, k := range keys {
		r := A.Reqs[k.fn][k.idx]
		pname := "?"
		if k.idx < len(k.fn.Params) {
			pname = k.fn.Params[k.idx].Name()
		}
		us := und[r]
		if len(us) == 0 {
			c.OK(P.Pos(k.fn.Pos()), fmt.Sprintf("requires-unshared(%s) of %s", pname, ir.FuncName(k.fn)),
				fmt.Sprintf("all %d call sites pass a fresh/unshared node or propagate the requirement", len(A.rcallers[k.fn])), false)
			continue
		}
		// report at the root write sites: one finding per (writer, param, field)
		roots := A.RootWrites(r)
		for _, u := range us {
			wit := fmt.Sprintf("caller %s at %s passes %s (%s)", ir.FuncName(u.Call.Parent()), P.InstrPos(u.Call), ir.Sym(u.Call.Common().Args[k.idx]), u.Arg.Why)
			if len(roots) == 0 {
				c.Violation(k.fn, P.Pos(k.fn.Pos()), "param "+pname, "callee requires an unshared node; "+wit, wit)
			}
			seenKey := map[string]bool{}
			for _, w := range roots {
				key := fmt.Sprintf("%s param %s.%s", w.Kind, w.Class.Param.Name(), w.Field)
				if seenKey[ir.FuncName(w.Fn)+key] {
					continue
				}
				seenKey[ir.FuncName(w.Fn)+key] = true
				f := c.Violation(w.Fn, P.InstrPos(w.Instr), key,
					fmt.Sprintf("%s writes %s.%s of the node it is given without ToMut, and %s", ir.FuncName(w.Fn), w.Class.Param.Name(), w.Field, wit), wit)
				_ = f
			}
		}
	}
}

func baseDesc(v ssa.Value) string {
	switch x := ir.ResolveCell(v).(type) {
	case *ssa.Parameter:
		return "param " + x.Name()
	case *ssa.TypeAssert:
		return "link-slot node"
	case *ssa.Call:
		if sc := ir.Callee(x.Call); sc != nil {
			return "result of " + sc.Name()
		}
	case *ssa.Extract:
		if cl, ok := x.Tuple.(*ssa.Call); ok {
			if sc := ir.Callee(cl.Call); sc != nil {
				return "result of " + sc.Name()
			}
		}
	}
	return "loaded node"
}
