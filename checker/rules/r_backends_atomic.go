package rules

// ATOMICFILE (part of the backends rule group, see r_backends.go).

import (
	"fmt"
	"go/types"
	"sort"
	"strings"

	"golang.org/x/tools/go/ssa"

	"mastcheck/ir"
)

// afCtx evaluates the clause for one Store method. Helper functions of the
// package (static callees, methods on the receiver included) are followed to
// depth maxHelperDepth: values are resolved through parameters/arguments and
// single-return helpers (frames, see backends_util.go), and the step
// automaton is run through helper calls by inlining their feasible outcomes.
type afCtx struct {
	c         *Ctx
	root      *frame
	baseField string

	statErrs   map[ssa.Value]*frame // error results of Stat(final path) -> frame of the call
	weakProbes map[ssa.Value]string // error results of probes that cannot justify the exists-shortcut
	writeOf    map[afCall]fval      // write call -> temp file it writes the bytes to
	steps      []afCall             // registry of step calls (index = id in the automaton state)
	stepID     map[afCall]int
	relevant   map[*frame]bool // frames that contain a step or touch a temp file
	escapes    bool
	undecided  bool
	violated   bool
	memo       map[string][]afOutcome
	overflow   bool
	guard      map[afCall]*afGuard // RENAMEGUARD results per publishing call
}

type afGuard struct {
	reached    bool
	early      string // witness path reaching the rename before stage 4
	earlyStage int
	failed     map[int]string // step id -> witness path on which its error is not known nil at the rename
}

type afCall struct {
	call *ssa.Call
	fr   *frame
}

type afOutcome struct {
	aux string
	res string // per result position: '0' unknown, '1' nil/false, '2' non-nil/true
}

func (a *afCtx) isName(v ssa.Value, fr *frame) bool  { return isRootParam(v, fr, 2) }
func (a *afCtx) isBytes(v ssa.Value, fr *frame) bool { return isRootParam(v, fr, 3) }

func (a *afCtx) isBase(v ssa.Value, fr *frame) bool {
	x := expand(v, fr)
	if f, ok := rootRecvField(x.v, x.fr); ok && f == a.baseField {
		return true
	}
	if call, ok := x.v.(*ssa.Call); ok && staticID(call) == "path/filepath.Clean" {
		return a.isBase(call.Call.Args[0], x.fr)
	}
	return false
}

// isSameDir: v is provably the directory the final path lives in.
func (a *afCtx) isSameDir(v ssa.Value, fr *frame) bool {
	if a.isBase(v, fr) {
		return true
	}
	x := expand(v, fr)
	if call, ok := x.v.(*ssa.Call); ok && staticID(call) == "path/filepath.Dir" {
		return a.isFinal(call.Call.Args[0], x.fr)
	}
	return false
}

func (a *afCtx) isFinal(v ssa.Value, fr *frame) bool { return a.isFinalD(v, fr, 0) }

func (a *afCtx) isFinalD(v ssa.Value, fr *frame, d int) bool {
	if v == nil || d > 6 {
		return false
	}
	x := expand(v, fr)
	switch y := x.v.(type) {
	case *ssa.Call:
		switch staticID(y) {
		case "path/filepath.Join":
			el := variadicElems(y.Call.Args[0])
			return len(el) == 2 && a.isBase(el[0], x.fr) && a.isName(el[1], x.fr)
		case "path/filepath.Clean", "path/filepath.FromSlash":
			return a.isFinalD(y.Call.Args[0], x.fr, d+1)
		}
	case *ssa.Phi:
		for _, e := range y.Edges {
			if !a.isFinalD(e, x.fr, d+1) {
				return false
			}
		}
		return len(y.Edges) > 0
	case *ssa.BinOp:
		l := stringLeaves(y, x.fr)
		if len(l) == 3 && a.isBase(l[0].v, l[0].fr) && a.isName(l[2].v, l[2].fr) {
			if s, ok := constString(l[1].v); ok && (s == "/" || s == string(rune(0x5c))) {
				return true
			}
		}
	}
	return false
}

// tempOf: v denotes the *os.File returned by a CreateTemp call.
func (a *afCtx) tempOf(v ssa.Value, fr *frame) (fval, bool) {
	x := expand(v, fr)
	if ex, ok := x.v.(*ssa.Extract); ok && ex.Index == 0 {
		if call, ok := ex.Tuple.(*ssa.Call); ok {
			if id := staticID(call); id == "os.CreateTemp" || id == "io/ioutil.TempFile" {
				return x, true
			}
		}
	}
	return fval{}, false
}

// tempNameOf: v denotes f.Name() of a temp file f.
func (a *afCtx) tempNameOf(v ssa.Value, fr *frame) (fval, bool) {
	x := expand(v, fr)
	if call, ok := x.v.(*ssa.Call); ok && staticID(call) == "(*os.File).Name" && len(call.Call.Args) == 1 {
		return a.tempOf(call.Call.Args[0], x.fr)
	}
	return fval{}, false
}

func inNodeAlphabet(r rune) bool {
	return r >= 'A' && r <= 'Z' || r >= 'a' && r <= 'z' || r >= '0' && r <= '9' || r == '_' || r == '-'
}

// patternVerdict: "ok", "bad" (provably only alphabet characters besides the
// random part) or "unknown".
func (a *afCtx) patternVerdict(v ssa.Value, fr *frame) (string, string) {
	unknown := false
	var parts []string
	for _, l := range stringLeaves(v, fr) {
		if s, ok := constString(l.v); ok {
			parts = append(parts, fmt.Sprintf("%q", s))
			for _, r := range s {
				if r != '*' && !inNodeAlphabet(r) {
					return "ok", ""
				}
			}
			continue
		}
		if a.isName(l.v, l.fr) {
			parts = append(parts, "name")
			continue
		}
		parts = append(parts, "?")
		unknown = true
	}
	if unknown {
		return "unknown", strings.Join(parts, "+")
	}
	return "bad", strings.Join(parts, "+")
}

var afSteps = []string{"CreateTemp in the final directory", "Write of the bytes parameter to the temp file", "Sync of the temp file", "Close of the temp file", "Rename(temp, final path)"}

// createsByName: os calls that create or truncate the file named by Args[i].
var createsByName = map[string]int{
	"os.WriteFile": 0, "os.Create": 0, "os.OpenFile": 0, "os.Truncate": 0, "io/ioutil.WriteFile": 0,
	"os.Link": 1, "os.Symlink": 1, "os.Mkdir": 0, "os.MkdirAll": 0,
}

func runATOMICFILE(c *Ctx) {
	P := c.P
	for _, b := range backendImpls(c, ir.FilePath) {
		fn := b.store
		if len(fn.Params) < 4 || len(b.load.Params) < 3 {
			c.Undecided(fn, P.Pos(fn.Pos()), "signature", "unexpected Load/Store shape")
			continue
		}
		root := rootFrame(P, fn)
		if root.recv == nil || root.recv.st == nil {
			c.Undecided(fn, P.Pos(fn.Pos()), "receiver", "receiver is not a struct")
			continue
		}
		// the base-path field: the unique string field F such that Store (or a helper) forms Join(recv.F, name)
		var cands []string
		for i := 0; i < root.recv.st.NumFields(); i++ {
			f := root.recv.st.Field(i)
			if bt, ok := f.Type().Underlying().(*types.Basic); !ok || bt.Info()&types.IsString == 0 {
				continue
			}
			a := &afCtx{c: c, root: root, baseField: f.Name()}
			if a.formsFinal() {
				cands = append(cands, f.Name())
			}
		}
		if len(cands) != 1 {
			c.Undecided(fn, P.Pos(fn.Pos()), "final path", fmt.Sprintf("Store forms filepath.Join(receiver field, name) for %d receiver fields (expected exactly one): cannot identify the final path", len(cands)))
			continue
		}
		if root.recv.fieldWritten(cands[0]) {
			c.Undecided(fn, P.Pos(fn.Pos()), "base path modified", "Store assigns the receiver's base path field")
			continue
		}
		a := &afCtx{c: c, root: root, baseField: cands[0]}
		a.check()
		atomicLoad(c, b, cands[0])
	}
}

func (a *afCtx) formsFinal() bool {
	found := false
	var scan func(fr *frame)
	scan = func(fr *frame) {
		for _, b := range fr.fn.Blocks {
			for _, ins := range b.Instrs {
				if v, ok := ins.(ssa.Value); ok && !found && a.isFinal(v, fr) {
					found = true
				}
				if call, ok := ins.(*ssa.Call); ok {
					if k := fr.child(call); k != nil {
						scan(k)
					}
				}
			}
		}
	}
	scan(a.root)
	return found
}

func (a *afCtx) okOnce(seen map[string]bool, pos, what, why string, trivial bool) {
	if !seen[pos+what] {
		seen[pos+what] = true
		a.c.OK(pos, what, why, trivial)
	}
}

func (a *afCtx) markRelevant(fr *frame) {
	for f := fr; f != nil; f = f.up {
		a.relevant[f] = true
	}
}

func (a *afCtx) addStep(k afCall) {
	if _, ok := a.stepID[k]; !ok {
		a.stepID[k] = len(a.steps)
		a.steps = append(a.steps, k)
	}
	a.markRelevant(k.fr)
}

// check decides clauses (a) and (b) for the Store method and the helpers it
// calls.
func (a *afCtx) check() {
	c, P := a.c, a.c.P
	a.statErrs = map[ssa.Value]*frame{}
	a.weakProbes = map[ssa.Value]string{}
	a.writeOf = map[afCall]fval{}
	a.stepID = map[afCall]int{}
	a.relevant = map[*frame]bool{}
	a.memo = map[string][]afOutcome{}
	a.guard = map[afCall]*afGuard{}
	seenOK := map[string]bool{}
	inPlace := false

	// ---- static inventory over the frame tree -----------------------------
	frameCalls(a.root, func(call *ssa.Call, fr *frame) {
		fn := fr.fn
		fname := ir.FuncName(fn)
		id := staticID(call)
		args := call.Call.Args
		key := afCall{call, fr}
		if i, ok := createsByName[id]; ok && i < len(args) && a.isFinal(args[i], fr) {
			inPlace = true
			a.violated = true
			c.Violation(fn, P.InstrPos(call), "final path written in place",
				fmt.Sprintf("%s passes the final path filepath.Join(base, name) to %s: a crash or I/O error in the middle leaves a partial node under its final name, which Load then serves and the exists-shortcut never repairs", fname, callName(call)))
			return
		}
		// the final path may only be probed read-only and be the destination of the rename
		if fr.child(call) == nil {
			for i, arg := range args {
				if _, isStr := arg.Type().Underlying().(*types.Basic); !isStr || !a.isFinal(arg, fr) {
					continue
				}
				switch {
				case id == "os.Stat" || id == "os.Lstat" || id == "os.Open" || id == "os.Readlink" || id == "os.ReadFile":
				case id == "os.Rename" && i == 1:
				case strings.HasPrefix(id, "path/filepath.") || strings.HasPrefix(id, "path.") || strings.HasPrefix(id, "strings.") || strings.HasPrefix(id, "fmt.") || strings.HasPrefix(id, "errors."):
				case strings.HasPrefix(id, "os.") || strings.HasPrefix(id, "io/ioutil.") || strings.HasPrefix(id, "syscall."):
					a.violated = true
					c.Violation(fn, P.InstrPos(call), "final path passed to "+callName(call),
						fmt.Sprintf("%s applies %s to the final path filepath.Join(base, name): the node's name may only be probed read-only and be the destination of the rename — removing, truncating, moving or re-moding it (here even on a failure path) destroys or exposes the complete node another writer has published under that name", fname, callName(call)))
				default:
					a.undecided = true
					c.Undecided(fn, P.InstrPos(call), "final path passed to "+callName(call), "the final path is handed to a function whose effect on the file the rule does not know")
				}
			}
		}
		switch id {
		case "os.CreateTemp", "io/ioutil.TempFile":
			a.addStep(key)
			if a.isSameDir(args[0], fr) {
				a.okOnce(seenOK, P.InstrPos(call), "temp directory of "+callName(call)+" in "+fname, "the directory of the final path (same filesystem, rename is atomic)", false)
			} else if unfollowedHelper(expand(args[0], fr)) {
				a.undecided = true
				c.Undecided(fn, P.InstrPos(call), "temp directory", "the directory is computed by a helper the rule does not follow: "+descFval(expand(args[0], fr)))
			} else {
				a.violated = true
				c.Violation(fn, P.InstrPos(call), "temp file not created in the final directory",
					"the temporary file is created in "+descFval(expand(args[0], fr))+", which is not provably the directory of the final path: rename across directories/filesystems is not atomic (or fails)")
			}
			switch v, shape := a.patternVerdict(args[1], fr); v {
			case "ok":
				a.okOnce(seenOK, P.InstrPos(call), "temp pattern of "+callName(call)+" in "+fname, "contains a character outside [A-Za-z0-9_-]: a temp file can never be named like a node", false)
			case "bad":
				a.violated = true
				c.Violation(fn, P.InstrPos(call), "temp pattern inside the node-name alphabet",
					"the temp-file pattern "+shape+" consists only of characters a node name may contain: a leftover partial temp file can be loaded as a node")
			default:
				a.undecided = true
				c.Undecided(fn, P.InstrPos(call), "temp pattern", "cannot decide whether pattern "+shape+" contains a character outside the node-name alphabet")
			}
			return
		case "os.Stat", "os.Open":
			// a probe that says what Load will see: it follows symbolic links like
			// os.ReadFile/os.Open and is applied to exactly the final path
			if a.isFinal(args[0], fr) {
				if e, _ := errorValue(call); e != nil {
					a.statErrs[e] = fr
					if fr != a.root {
						a.markRelevant(fr) // an "exists" helper: inlined, its outcome carries the exists flag
					}
				}
			}
			return
		case "os.Lstat", "os.Readlink", "path/filepath.Glob", "os.ReadDir", "io/ioutil.ReadDir", "path/filepath.EvalSymlinks":
			// probes that do not say what Load will see (a dangling link or a link loop
			// "exists" for Lstat; a listing or a glob is not an open of the node)
			if e, _ := errorValue(call); e != nil {
				a.weakProbes[e] = callName(call)
			}
			return
		case "os.Rename":
			a.addStep(key)
			if unfollowedHelper(expand(args[0], fr)) || unfollowedHelper(expand(args[1], fr)) {
				a.escapes = true // a path computed by a helper the rule does not follow: undecided, not violated
			}
			return
		}
		// uses of a temp file
		var f fval
		has := false
		for _, arg := range args {
			if t, ok := a.tempOf(arg, fr); ok {
				f, has = t, true
			}
		}
		if !has {
			return
		}
		a.markRelevant(fr)
		switch id {
		case "(*os.File).Write":
			a.addStep(key)
			if a.isBytes(args[1], fr) {
				a.writeOf[key] = f
			} else {
				a.violated = true
				c.Violation(fn, P.InstrPos(call), "temp file written with something other than the bytes parameter",
					"the node file receives "+descFval(expand(args[1], fr))+" instead of exactly the bytes parameter: the renamed file is not the complete node")
			}
		case "io.Copy":
			a.addStep(key)
			src := expand(args[1], fr)
			sc, _ := src.v.(*ssa.Call)
			_, dstIsTemp := a.tempOf(args[0], fr)
			if dstIsTemp && sc != nil && (staticID(sc) == "bytes.NewReader" || staticID(sc) == "bytes.NewBuffer") && a.isBytes(sc.Call.Args[0], src.fr) {
				a.writeOf[key] = f
			} else {
				a.undecided = true
				c.Undecided(fn, P.InstrPos(call), "io.Copy involving the temp file", "source is not a reader over exactly the bytes parameter")
			}
		case "(*os.File).Sync", "(*os.File).Close":
			a.addStep(key)
		case "(*os.File).Name", "(*os.File).Chmod", "(*os.File).Stat", "(*os.File).Fd":
		default:
			if k := fr.child(call); k != nil {
				a.markRelevant(k) // followed
			} else if strings.HasPrefix(id, "(*os.File).") {
				a.undecided = true
				c.Undecided(fn, P.InstrPos(call), callName(call)+" on the temp file", "operation on the temp file that the rule does not model")
			} else {
				a.escapes = true
			}
		}
	})

	// ---- the bytes are written exactly once per temp file ------------------
	for key := range a.writeOf {
		site := ssa.Instruction(key.call)
		for f := key.fr; f != nil; f = f.up {
			if why := repeatsWithoutReset(site); why != "" {
				a.violated = true
				c.Violation(f.fn, P.InstrPos(site), "temp file written in a loop",
					fmt.Sprintf("the write of the bytes to the temp file (%s) can execute again on the same file (%s) without a fresh CreateTemp or a Truncate(0)+Seek(0) in between: a write retried after a partial write appends the whole node after the partial bytes, and that file is renamed into place", P.InstrPos(key.call), why))
				break
			}
			if f.call == nil {
				break
			}
			site = f.call
		}
	}

	// ---- (b) every success return completes the sequence ------------------
	if inPlace {
		c.Note("%s: the temp+sync+close+rename sequence is not evaluated because the final path is written in place", ir.FuncName(a.root.fn))
	} else {
		a.sequence()
	}

	// ---- each step's error reaches an error return, through the helpers ----
	type site struct {
		fn   *ssa.Function
		call ssa.CallInstruction
	}
	var sites []site
	seenSite := map[site]bool{}
	add := func(s site) {
		if !seenSite[s] {
			seenSite[s] = true
			sites = append(sites, s)
		}
	}
	for _, k := range a.steps {
		add(site{k.fr.fn, k.call})
		for f := k.fr; f.up != nil; f = f.up {
			add(site{f.up.fn, f.call})
		}
	}
	for _, s := range sites {
		call, isCall := s.call.(*ssa.Call)
		name := callName(s.call)
		fname := ir.FuncName(s.fn)
		if !isCall {
			a.undecided = true
			c.Undecided(s.fn, P.InstrPos(s.call), "deferred/spawned "+name, "a step of the atomic write runs in a deferred or spawned call: its error cannot be returned")
			continue
		}
		if _, has := errorValue(call); !has {
			if h := ir.Callee(call.Call); h != nil && isOwn(P, h) {
				a.violated = true
				c.Violation(s.fn, P.InstrPos(call), "helper "+h.Name()+" cannot report failure", "the helper performs steps of the atomic write but returns no error")
			}
			continue
		}
		if !resultHasError(s.fn.Signature) {
			a.violated = true
			c.Violation(s.fn, P.InstrPos(call), "error of "+name+" dropped", fname+" performs a step of the atomic write but has no error result")
			continue
		}
		dr := errDropCheckMode(s.fn, call, true) // the steps are writes: no classification of their error licenses success
		switch {
		case dr.overflow:
			a.undecided = true
			c.Undecided(s.fn, P.InstrPos(call), "error of "+name, "path exploration exceeded its bound")
		case !dr.reached || len(dr.bad) == 0:
			a.okOnce(seenOK, P.InstrPos(call), "error of "+name+" in "+fname, "a failure of this step always ends in a non-nil error return", false)
		case dr.memLoad:
			a.undecided = true
			c.Undecided(s.fn, P.InstrPos(call), "error of "+name, "error returned through a memory cell the rule cannot follow")
		default:
			a.violated = true
			var wit []string
			for _, r := range dr.bad {
				wit = append(wit, fmt.Sprintf("return at %s (%s)", P.InstrPos(r), dr.witness[r]))
			}
			c.Violation(s.fn, P.InstrPos(call), "error of "+name+" dropped",
				fmt.Sprintf("when %s fails, %s can still report success: a write that reported success is then not complete/durable", name, fname), wit...)
		}
	}
}

// automaton state: "<stage>|<temp file id>|<id of the last completed step>|<pending>"
// pending: comma-separated ids (into a.steps) of write/sync/close calls (or of
// helper calls standing for them) that have executed on this path and whose
// error is not yet known to be nil.
func afEnc(stage int, file string, last int, pend []int, exists bool) string {
	if stage == 0 && file == "" && last < 0 && len(pend) == 0 && !exists {
		return ""
	}
	ps := make([]string, len(pend))
	for i, p := range pend {
		ps[i] = fmt.Sprint(p)
	}
	e := ""
	if exists {
		e = "E" // a Stat of the final path returned a nil error on this path
	}
	return fmt.Sprintf("%d|%s|%d|%s|%s", stage, file, last, strings.Join(ps, ","), e)
}

func afDec(aux string) (stage int, file string, last int, pend []int, exists bool) {
	last = -1
	if aux == "" {
		return
	}
	p := strings.SplitN(aux, "|", 5)
	if len(p) == 5 {
		fmt.Sscanf(p[0], "%d", &stage)
		file = p[1]
		fmt.Sscanf(p[2], "%d", &last)
		if p[3] != "" {
			for _, x := range strings.Split(p[3], ",") {
				n := 0
				fmt.Sscanf(x, "%d", &n)
				pend = append(pend, n)
			}
		}
		exists = p[4] == "E"
	}
	return
}

func addPend(pend []int, id int) []int {
	for _, p := range pend {
		if p == id {
			return pend
		}
	}
	out := append(append([]int(nil), pend...), id)
	sort.Ints(out)
	return out
}

func fileID(f fval) string { return fmt.Sprintf("%p:%s", f.fr, f.v.Name()) }

// confirm drops from pend the steps of frame fr whose error is known nil in st.
func (a *afCtx) confirm(st *pstate, fr *frame, pend []int) []int {
	var out []int
	for _, id := range pend {
		k := a.steps[id]
		if k.fr == fr {
			if e, _ := errorValue(k.call); e != nil && nilness(st, e) == triNo {
				continue
			}
		}
		out = append(out, id)
	}
	return out
}

// publishes: call makes the current temp file visible under the final name.
func (a *afCtx) publishes(call *ssa.Call, fr *frame) bool {
	args := call.Call.Args
	switch staticID(call) {
	case "os.Rename", "os.Link", "os.Symlink":
		return len(args) == 2 && a.isFinal(args[1], fr)
	}
	return false
}

// step advances the automaton over one call executed in frame fr.
func (a *afCtx) step(st *pstate, call *ssa.Call, fr *frame) {
	key := afCall{call, fr}
	sid, isStep := a.stepID[key]
	if !isStep {
		return
	}
	stage, cur, last, pend, exf := afDec(st.aux)
	args := call.Call.Args
	// RENAMEGUARD: the rename must be unreachable unless write, sync and close have all run and succeeded
	if a.publishes(call, fr) {
		pend = a.confirm(st, fr, pend)
		g := a.guard[key]
		if g == nil {
			g = &afGuard{failed: map[int]string{}}
			a.guard[key] = g
		}
		g.reached = true
		if stage != 4 && g.early == "" {
			g.earlyStage, g.early = stage, st.pathString()
		}
		for _, id := range pend {
			if _, ok := g.failed[id]; !ok {
				g.failed[id] = st.pathString()
			}
		}
	}
	switch staticID(call) {
	case "os.CreateTemp", "io/ioutil.TempFile":
		if ex := extractOf(call, 0); ex != nil {
			st.aux = afEnc(1, fileID(fval{ex, fr}), sid, nil, exf)
		}
	case "(*os.File).Write", "io.Copy":
		if f, ok := a.writeOf[key]; ok && stage >= 1 && fileID(f) == cur {
			st.aux = afEnc(2, cur, sid, addPend(pend, sid), exf) // (a write after Sync needs a new Sync)
		}
	case "(*os.File).Sync":
		if f, ok := a.tempOf(args[0], fr); ok && stage == 2 && fileID(f) == cur {
			st.aux = afEnc(3, cur, sid, addPend(pend, sid), exf)
		}
	case "(*os.File).Close":
		if f, ok := a.tempOf(args[0], fr); ok && stage == 3 && fileID(f) == cur {
			st.aux = afEnc(4, cur, sid, addPend(pend, sid), exf)
		}
	case "os.Rename":
		if f, ok := a.tempNameOf(args[0], fr); ok && stage == 4 && fileID(f) == cur && a.isFinal(args[1], fr) {
			st.aux = afEnc(5, cur, sid, pend, exf)
		}
	}
	_ = last
}

// inline returns the feasible outcomes (automaton state, nil-ness of the
// returned error) of running helper frame k from automaton state aux.
func (a *afCtx) inline(k *frame, aux string) []afOutcome {
	mk := fmt.Sprintf("%p#%s", k, aux)
	if o, ok := a.memo[mk]; ok {
		return o
	}
	a.memo[mk] = []afOutcome{} // cut (mutual) recursion
	var outs []afOutcome
	seen := map[afOutcome]bool{}
	w := a.walker(k)
	w.initAux = aux
	w.onReturn = func(st *pstate, r *ssa.Return) {
		stage, cur, last, pend, exf := afDec(st.aux)
		for e, efr := range a.statErrs {
			if efr == k && nilness(st, e) == triNo {
				exf = true
			}
		}
		o := afOutcome{aux: afEnc(stage, cur, last, a.confirm(st, k, pend), exf)}
		res := make([]byte, len(r.Results))
		for i, v := range r.Results {
			t := triUnknown
			switch {
			case isBoolType(v.Type()):
				t = evalCond(st, v)
			case ir.IsErrorType(v.Type()):
				t = nilness(st, v)
			}
			res[i] = byte('0' + int(t))
		}
		o.res = string(res)
		if !seen[o] {
			seen[o] = true
			outs = append(outs, o)
		}
	}
	w.run()
	if w.overflow {
		a.overflow = true
	}
	a.memo[mk] = outs
	return outs
}

func (a *afCtx) walker(fr *frame) *pwalker {
	w := &pwalker{fn: fr.fn}
	w.onInstr = func(st *pstate, ins ssa.Instruction) {
		if call, ok := ins.(*ssa.Call); ok {
			a.step(st, call, fr)
		}
	}
	w.onCall = func(st *pstate, call *ssa.Call) []*pstate {
		k := fr.child(call)
		if k == nil || !a.relevant[k] {
			return nil
		}
		// what is known about the steps of this frame must be settled before
		// descending: the helper cannot see this frame's error values
		in := st.aux
		if in != "" {
			stage, cur, last, pend, exf := afDec(in)
			in = afEnc(stage, cur, last, a.confirm(st, fr, pend), exf)
		}
		// the helper call stands for the steps still pending inside it
		self := -1
		if _, has := errorValue(call); has {
			key := afCall{call, fr}
			if id, ok := a.stepID[key]; ok {
				self = id
			} else {
				self = len(a.steps)
				a.stepID[key] = self
				a.steps = append(a.steps, key)
			}
		}
		outs := []*pstate{}
		for _, o := range a.inline(k, in) {
			s := st.clone()
			s.aux = o.aux
			if o.aux != "" {
				stage, cur, last, pend, exf := afDec(o.aux)
				var np []int
				for _, id := range pend {
					inside := false
					for f := a.steps[id].fr; f != nil; f = f.up {
						if f == k {
							inside = true
						}
					}
					if inside && self >= 0 {
						np = addPend(np, self) // failure of the inner step = failure of the helper call (checked by the error-drop clause)
					} else {
						np = addPend(np, id)
					}
				}
				s.aux = afEnc(stage, cur, last, np, exf)
			}
			// what the helper returned on this outcome (nil-ness of errors, value of booleans)
			ts := make([]tri, len(o.res))
			for i := range o.res {
				ts[i] = tri(o.res[i] - '0')
			}
			if len(ts) == 1 {
				if ts[0] != triUnknown {
					s.facts[call] = ts[0]
				}
			} else if len(ts) > 1 {
				if s.tup == nil {
					s.tup = map[*ssa.Call][]tri{}
				}
				s.tup[call] = ts
			}
			outs = append(outs, s)
		}
		return outs
	}
	return w
}

func (a *afCtx) sequence() {
	c, P := a.c, a.c.P
	fn := a.root.fn
	fname := ir.FuncName(fn)
	type retRes struct {
		missing  map[int]string // stage reached -> witness path
		last     map[int]int    // stage reached -> id of the last completed step
		complete bool
		shortcut bool
		weak     string // a probe other than Stat/Open of the final path succeeded on a path returning success
	}
	per := map[*ssa.Return]*retRes{}
	var order []*ssa.Return
	ei := ir.ErrorResultIndex(fn.Signature)
	w := a.walker(a.root)
	w.onReturn = func(st *pstate, r *ssa.Return) {
		if ei < 0 || ei >= len(r.Results) || nilness(st, r.Results[ei]) == triYes {
			return
		}
		rr := per[r]
		if rr == nil {
			rr = &retRes{missing: map[int]string{}, last: map[int]int{}}
			per[r] = rr
			order = append(order, r)
		}
		// a success return is a return whose error IS nil: when the returned
		// value's nil-ness is open on this path, evaluate the case "it is nil"
		// (so `if !os.IsNotExist(err) { return err }` with err the Stat error is
		// the already-exists shortcut exactly when it reports success)
		if rv := st.deref(r.Results[ei]); !ir.IsNilConst(rv) && nilness(st, rv) == triUnknown {
			st.facts[rv] = triNo // st is not used after a return
		}
		stage, _, last, _, exf := afDec(st.aux)
		for e, efr := range a.statErrs {
			if efr == a.root && nilness(st, e) == triNo {
				exf = true
			}
		}
		if exf {
			rr.shortcut = true
			return
		}
		if stage == 0 {
			for e, what := range a.weakProbes {
				if nilness(st, e) == triNo {
					rr.weak = what
				}
			}
		}
		if stage == 5 {
			rr.complete = true
			return
		}
		if _, ok := rr.missing[stage]; !ok {
			rr.missing[stage] = st.pathString()
			rr.last[stage] = last
		}
	}
	w.run()
	if w.overflow || a.overflow {
		a.undecided = true
		c.Undecided(fn, P.Pos(fn.Pos()), "paths", "path exploration exceeded its bound")
	}
	// RENAMEGUARD
	var gkeys []afCall
	for k := range a.guard {
		gkeys = append(gkeys, k)
	}
	sort.Slice(gkeys, func(i, j int) bool { return ir.PosLess(gkeys[i].call.Pos(), gkeys[j].call.Pos()) })
	for _, k := range gkeys {
		g := a.guard[k]
		at, pos := k.fr.fn, P.InstrPos(k.call)
		report := func(construct, msg, path string) {
			if a.escapes {
				a.undecided = true
				c.Undecided(at, pos, construct, msg+" — but the temp file is handed to code the rule does not model", path)
			} else {
				a.violated = true
				c.Violation(at, pos, construct, msg, path)
			}
		}
		bad := false
		if g.early != "" {
			bad = true
			report("rename reachable without "+afSteps[g.earlyStage],
				fmt.Sprintf("the temp file can be renamed onto the final path on a path (%s) on which only %d of the steps create, write, sync, close have been performed (next missing: %s): an incomplete file becomes visible under the node's name", g.early, g.earlyStage, afSteps[g.earlyStage]), g.early)
		}
		var ids []int
		for id := range g.failed {
			ids = append(ids, id)
		}
		sort.Ints(ids)
		for _, id := range ids {
			bad = true
			sc := a.steps[id]
			report("rename not guarded by success of "+callName(sc.call),
				fmt.Sprintf("the rename onto the final path is reachable on a path (%s) on which the error of %s (%s) is not known to be nil: after a failed or short write/sync/close a truncated file lands under the node's name and the exists-shortcut never repairs it", g.failed[id], callName(sc.call), P.InstrPos(sc.call)), g.failed[id])
		}
		if !bad {
			c.OK(pos, "rename guard in "+ir.FuncName(at), "every feasible path to the rename has a nil error from write, sync and close", false)
		}
	}
	successes := 0
	for _, r := range order {
		rr := per[r]
		if len(rr.missing) == 0 {
			if rr.complete {
				successes++
				c.OK(P.InstrPos(r), "success return of "+fname, "every feasible path to it passes CreateTemp, Write(bytes), Sync, Close, Rename(temp, final) in this order (helpers inlined)", false)
			}
			if rr.shortcut {
				c.OK(P.InstrPos(r), "success return of "+fname+" (already exists)", "reached only with a nil error from Stat of the final path; sound because node files appear only by rename", true)
			}
			continue
		}
		if rr.weak != "" {
			a.violated = true
			c.Violation(fn, P.InstrPos(r), "already-stored shortcut relies on "+rr.weak,
				fmt.Sprintf("%s skips the write and reports success because %s succeeded: that does not say what Load will see — only os.Stat (or os.Open) of exactly the final path follows symbolic links as os.ReadFile does; with a dangling link or a link loop under the node's name the node is reported stored and the next Load fails", fname, rr.weak), rr.missing[0])
			delete(rr.missing, 0)
		}
		for stage := 0; stage < 5; stage++ {
			path, ok := rr.missing[stage]
			if !ok {
				continue
			}
			// report where the sequence stops: the function holding the last completed step
			at, pos := fn, P.InstrPos(r)
			if id := rr.last[stage]; id >= 0 && id < len(a.steps) {
				at, pos = a.steps[id].fr.fn, P.InstrPos(a.steps[id].call)
			}
			construct := "success return without " + afSteps[stage]
			msg := fmt.Sprintf("%s can report success (return at %s, %s) having performed only %d of the 5 steps temp-create, write, sync, close, rename in order; missing next: %s", fname, P.InstrPos(r), path, stage, afSteps[stage])
			if a.escapes {
				a.undecided = true
				c.Undecided(at, pos, construct, msg+" — but the temp file is handed to code the rule does not model", path)
			} else {
				a.violated = true
				c.Violation(at, pos, construct, msg, path)
			}
		}
	}
	if successes == 0 && !a.violated && !a.undecided {
		a.undecided = true
		c.Undecided(fn, P.Pos(fn.Pos()), "no writing success path", fname+" has no success return that completes the temp+rename sequence")
	}
}

// atomicLoad: clause (c) — Load reads exactly filepath.Join(same field, name).
func atomicLoad(c *Ctx, b backendImpl, baseField string) {
	P := c.P
	fn := b.load
	root := rootFrame(P, fn)
	if root.recv == nil {
		c.Undecided(fn, P.Pos(fn.Pos()), "receiver", "Load has no receiver")
		return
	}
	if root.recv.fieldWritten(baseField) {
		c.Undecided(fn, P.Pos(fn.Pos()), "base path modified", "Load assigns the receiver's base path field")
		return
	}
	a := &afCtx{c: c, root: root, baseField: baseField}
	n := 0
	frameCalls(root, func(call *ssa.Call, fr *frame) {
		id := staticID(call)
		switch id {
		case "os.ReadFile", "io/ioutil.ReadFile", "os.Open", "os.OpenFile":
			n++
			if a.isFinal(call.Call.Args[0], fr) {
				c.OK(P.InstrPos(call), "path read by "+ir.FuncName(fn), "filepath.Join(receiver."+baseField+", name): the same join Store renames into", false)
			} else {
				c.Violation(fr.fn, P.InstrPos(call), "Load reads a path other than Join(base, name)",
					fmt.Sprintf("Load reads %s, not filepath.Join(receiver.%s, name) — the path Store writes", descFval(expand(call.Call.Args[0], fr)), baseField))
			}
		default:
			if strings.HasPrefix(id, "os.") && !strings.HasPrefix(id, "os.Is") {
				n++
				c.Undecided(fr.fn, P.InstrPos(call), callName(call)+" in Load", "unexpected file-system call in Load")
			}
		}
	})
	if n == 0 {
		c.Undecided(fn, P.Pos(fn.Pos()), "Load reads no file", "Load (and its helpers to depth 2) contains no os.ReadFile/os.Open call")
	}
}

// repeatsWithoutReset: instruction ins lies on a cycle of its function's CFG
// that passes no block which starts over on a new or emptied file (a
// CreateTemp, or Truncate together with Seek on an *os.File).
func repeatsWithoutReset(ins ssa.Instruction) string {
	b0 := ins.Block()
	if b0 == nil {
		return ""
	}
	resets := func(b *ssa.BasicBlock) bool {
		trunc, seek := false, false
		for _, x := range b.Instrs {
			ci, ok := x.(ssa.CallInstruction)
			if !ok {
				continue
			}
			switch staticID(ci) {
			case "os.CreateTemp", "io/ioutil.TempFile":
				return true
			case "(*os.File).Truncate":
				trunc = true
			case "(*os.File).Seek":
				seek = true
			}
		}
		return trunc && seek
	}
	if resets(b0) {
		return ""
	}
	seen := map[*ssa.BasicBlock]bool{}
	work := append([]*ssa.BasicBlock(nil), b0.Succs...)
	for len(work) > 0 {
		b := work[len(work)-1]
		work = work[:len(work)-1]
		if b == b0 {
			return fmt.Sprintf("block %d is on a loop", b0.Index)
		}
		if seen[b] || resets(b) {
			continue
		}
		seen[b] = true
		work = append(work, b.Succs...)
	}
	return ""
}
