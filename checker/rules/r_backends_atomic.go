package rules

// ATOMICFILE (part of the backends rule group, see r_backends.go).

import (
	"fmt"
	"go/types"
	"strings"

	"golang.org/x/tools/go/ssa"

	"mastcheck/ir"
)

// afRoles binds the roles the clause talks about to SSA values of one
// function: the Store method itself, or a helper it hands the work to.
type afRoles struct {
	c         *Ctx
	fn        *ssa.Function
	recv      *recvInfo
	baseField string    // receiver field holding the directory
	name      ssa.Value // node name
	bytes     ssa.Value // node contents
	finalP    ssa.Value // helper: parameter carrying the final path
	dirP      ssa.Value // helper: parameter carrying the directory
}

func (a *afRoles) ownFunc(fn *ssa.Function) bool {
	return fn != nil && fn.Blocks != nil && isOwn(a.c.P, fn)
}

func (a *afRoles) isName(v ssa.Value) bool {
	return a.name != nil && ir.Strip(ir.ResolveCell(v)) == a.name
}

func (a *afRoles) isBytes(v ssa.Value) bool {
	return a.bytes != nil && ir.Strip(ir.ResolveCell(v)) == a.bytes
}

func (a *afRoles) isBase(v ssa.Value) bool {
	v = ir.Strip(ir.ResolveCell(v))
	if a.dirP != nil && v == a.dirP {
		return true
	}
	if a.recv != nil && a.baseField != "" {
		if f, ok := a.recv.fieldOf(v); ok && f == a.baseField {
			return true
		}
	}
	if call, ok := v.(*ssa.Call); ok && staticID(call) == "path/filepath.Clean" {
		return a.isBase(call.Call.Args[0])
	}
	return false
}

// isSameDir: v is provably the directory the final path lives in.
func (a *afRoles) isSameDir(v ssa.Value) bool {
	if a.isBase(v) {
		return true
	}
	v = ir.Strip(ir.ResolveCell(v))
	if call, ok := v.(*ssa.Call); ok && staticID(call) == "path/filepath.Dir" {
		return a.isFinal(call.Call.Args[0])
	}
	return false
}

func (a *afRoles) isFinal(v ssa.Value) bool { return a.isFinalD(v, 0) }

func (a *afRoles) isFinalD(v ssa.Value, d int) bool {
	if v == nil || d > 5 {
		return false
	}
	v = ir.Strip(ir.ResolveCell(v))
	if a.finalP != nil && v == a.finalP {
		return true
	}
	switch x := v.(type) {
	case *ssa.Call:
		switch staticID(x) {
		case "path/filepath.Join":
			el := variadicElems(x.Call.Args[0])
			return len(el) == 2 && a.isBase(el[0]) && a.isName(el[1])
		case "path/filepath.Clean", "path/filepath.FromSlash":
			return a.isFinalD(x.Call.Args[0], d+1)
		}
		// a path helper of the repository: every return is the final path under the mapped roles
		if h := x.Call.StaticCallee(); a.ownFunc(h) && h != a.fn {
			sub := a.mapRolesD(x, h, d+1)
			rets := ir.Returns(h)
			if len(rets) == 0 {
				return false
			}
			for _, r := range rets {
				if len(r.Results) != 1 || !sub.isFinalD(r.Results[0], d+1) {
					return false
				}
			}
			return true
		}
	case *ssa.Phi:
		for _, e := range x.Edges {
			if !a.isFinalD(e, d+1) {
				return false
			}
		}
		return len(x.Edges) > 0
	case *ssa.BinOp:
		l := concatLeaves(x)
		if len(l) == 3 && a.isBase(l[0]) && a.isName(l[2]) {
			if s, ok := constString(l[1]); ok && (s == "/" || s == string(rune(0x5c))) {
				return true
			}
		}
	}
	return false
}

// mapRoles transfers the roles to callee h along the arguments of call.
func (a *afRoles) mapRoles(call ssa.CallInstruction, h *ssa.Function) *afRoles {
	return a.mapRolesD(call, h, 0)
}

func (a *afRoles) mapRolesD(call ssa.CallInstruction, h *ssa.Function, d int) *afRoles {
	sub := &afRoles{c: a.c, fn: h}
	args := call.Common().Args
	for i, arg := range args {
		if i >= len(h.Params) {
			break
		}
		p := h.Params[i]
		switch {
		case i == 0 && h.Signature.Recv() != nil && a.recv != nil && (a.recv.isRecvValue(arg) || a.recv.isBase(arg)):
			sub.recv = newRecvInfo(h)
			sub.baseField = a.baseField
			if sub.recv != nil && sub.recv.fieldWritten(a.baseField) {
				sub.recv = nil
			}
		case a.isName(arg):
			sub.name = p
		case a.isBytes(arg):
			sub.bytes = p
		case a.isFinalD(arg, d+1):
			sub.finalP = p
		case a.isBase(arg):
			sub.dirP = p
		}
	}
	return sub
}

func inNodeAlphabet(r rune) bool {
	return r >= 'A' && r <= 'Z' || r >= 'a' && r <= 'z' || r >= '0' && r <= '9' || r == '_' || r == '-'
}

// patternVerdict: "ok", "bad" (provably only alphabet characters besides the
// random part) or "unknown".
func (a *afRoles) patternVerdict(v ssa.Value) (string, string) {
	unknown := false
	var parts []string
	for _, l := range concatLeaves(v) {
		if s, ok := constString(l); ok {
			parts = append(parts, fmt.Sprintf("%q", s))
			for _, r := range s {
				if r != '*' && !inNodeAlphabet(r) {
					return "ok", ""
				}
			}
			continue
		}
		if a.isName(l) {
			parts = append(parts, "name")
			continue
		}
		parts = append(parts, "?")
		unknown = true
	}
	if unknown {
		return "unknown", strings.Join(parts, "+")
	}
	return "bad", strings.Join(parts, "+")
}

var afSteps = []string{"CreateTemp in the final directory", "Write of the bytes parameter to the temp file", "Sync of the temp file", "Close of the temp file", "Rename(temp, final path)"}

type afResult struct {
	violated  bool
	undecided bool
	successes int // success returns that complete the sequence
}

func runATOMICFILE(c *Ctx) {
	P := c.P
	for _, b := range backendImpls(c, ir.FilePath) {
		fn := b.store
		if len(fn.Params) < 4 || len(b.load.Params) < 3 {
			c.Undecided(fn, P.Pos(fn.Pos()), "signature", "unexpected Load/Store shape")
			continue
		}
		recv := newRecvInfo(fn)
		if recv == nil || recv.st == nil {
			c.Undecided(fn, P.Pos(fn.Pos()), "receiver", "receiver is not a struct")
			continue
		}
		// the base-path field: the unique string field F such that Store forms Join(recv.F, name)
		var cands []string
		for i := 0; i < recv.st.NumFields(); i++ {
			f := recv.st.Field(i)
			if bt, ok := f.Type().Underlying().(*types.Basic); !ok || bt.Info()&types.IsString == 0 {
				continue
			}
			a := &afRoles{c: c, fn: fn, recv: recv, baseField: f.Name(), name: fn.Params[2], bytes: fn.Params[3]}
			if len(a.finalValues()) > 0 {
				cands = append(cands, f.Name())
			}
		}
		if len(cands) != 1 {
			c.Undecided(fn, P.Pos(fn.Pos()), "final path", fmt.Sprintf("Store forms filepath.Join(receiver field, name) for %d receiver fields (expected exactly one): cannot identify the final path", len(cands)))
			continue
		}
		if recv.fieldWritten(cands[0]) {
			c.Undecided(fn, P.Pos(fn.Pos()), "base path modified", "Store assigns the receiver's base path field")
			continue
		}
		a := &afRoles{c: c, fn: fn, recv: recv, baseField: cands[0], name: fn.Params[2], bytes: fn.Params[3]}
		a.check(map[*ssa.Function]bool{})
		atomicLoad(c, b, cands[0])
	}
}

func (a *afRoles) finalValues() []ssa.Value {
	var out []ssa.Value
	for _, b := range a.fn.Blocks {
		for _, ins := range b.Instrs {
			if v, ok := ins.(ssa.Value); ok && a.isFinal(v) {
				out = append(out, v)
			}
		}
	}
	return out
}

// createsByName: os calls that create or truncate the file named by Args[i].
var createsByName = map[string]int{
	"os.WriteFile": 0, "os.Create": 0, "os.OpenFile": 0, "os.Truncate": 0, "io/ioutil.WriteFile": 0,
	"os.Link": 1, "os.Symlink": 1, "os.Mkdir": 0, "os.MkdirAll": 0,
}

// check decides clauses (a) and (b) for a.fn and reports; it returns a
// summary used when a.fn is a helper of Store.
func (a *afRoles) check(active map[*ssa.Function]bool) afResult {
	c, P, fn := a.c, a.c.P, a.fn
	var res afResult
	if active[fn] {
		c.Undecided(fn, P.Pos(fn.Pos()), "recursion", "recursive helper")
		res.undecided = true
		return res
	}
	active[fn] = true
	defer delete(active, fn)
	fname := ir.FuncName(fn)

	// ---- static inventory -------------------------------------------------
	temps := map[ssa.Value]*ssa.Call{}     // file value -> CreateTemp call
	tempNames := map[ssa.Value]ssa.Value{} // f.Name() result -> file value
	helperOK := map[*ssa.Call]bool{}       // calls of helpers that perform the whole sequence
	stepCalls := []*ssa.Call{}             // calls whose error must not be dropped
	statErrs := map[ssa.Value]bool{}       // error results of Stat(final)
	escapes := false                       // temp file handed to code the rule does not model
	inPlace := false
	var calls []*ssa.Call
	for _, b := range fn.Blocks {
		for _, ins := range b.Instrs {
			if call, ok := ins.(*ssa.Call); ok {
				calls = append(calls, call)
			}
		}
	}
	for _, call := range calls {
		id := staticID(call)
		args := call.Call.Args
		if i, ok := createsByName[id]; ok && i < len(args) && a.isFinal(args[i]) {
			inPlace = true
			res.violated = true
			c.Violation(fn, P.InstrPos(call), "final path written in place",
				fmt.Sprintf("%s passes the final path filepath.Join(base, name) to %s: a crash or I/O error in the middle leaves a partial node under its final name, which Load then serves and the exists-shortcut never repairs", fname, callName(call)))
			continue
		}
		switch id {
		case "os.CreateTemp", "io/ioutil.TempFile":
			if f := extractOf(call, 0); f != nil {
				temps[f] = call
			}
			stepCalls = append(stepCalls, call)
			if a.isSameDir(args[0]) {
				c.OK(P.InstrPos(call), "temp directory of "+callName(call)+" in "+fname, "the directory of the final path (same filesystem, rename is atomic)", false)
			} else {
				res.violated = true
				c.Violation(fn, P.InstrPos(call), "temp file not created in the final directory",
					"the temporary file is created in "+descValue(args[0])+", which is not provably the directory of the final path: rename across directories/filesystems is not atomic (or fails)")
			}
			switch v, shape := a.patternVerdict(args[1]); v {
			case "ok":
				c.OK(P.InstrPos(call), "temp pattern of "+callName(call)+" in "+fname, "contains a character outside [A-Za-z0-9_-]: a temp file can never be named like a node", false)
			case "bad":
				res.violated = true
				c.Violation(fn, P.InstrPos(call), "temp pattern inside the node-name alphabet",
					"the temp-file pattern "+shape+" consists only of characters a node name may contain: a leftover partial temp file can be loaded as a node")
			default:
				res.undecided = true
				c.Undecided(fn, P.InstrPos(call), "temp pattern", "cannot decide whether pattern "+shape+" contains a character outside the node-name alphabet")
			}
		case "os.Stat", "os.Lstat":
			if a.isFinal(args[0]) {
				if e, _ := errorValue(call); e != nil {
					statErrs[e] = true
				}
			}
		}
	}
	isTemp := func(v ssa.Value) ssa.Value {
		v = ir.Strip(ir.ResolveCell(v))
		if _, ok := temps[v]; ok {
			return v
		}
		return nil
	}
	for _, call := range calls {
		id := staticID(call)
		args := call.Call.Args
		if id == "(*os.File).Name" && len(args) == 1 && isTemp(args[0]) != nil {
			tempNames[call] = isTemp(args[0])
		}
	}
	isTempName := func(v ssa.Value) ssa.Value {
		v = ir.Strip(ir.ResolveCell(v))
		return tempNames[v]
	}
	// classify every use of a temp file
	writeOf := map[*ssa.Call]ssa.Value{} // call -> temp file it writes the bytes to
	for _, call := range calls {
		id := staticID(call)
		args := call.Call.Args
		var f ssa.Value
		for _, arg := range args {
			if t := isTemp(arg); t != nil {
				f = t
			}
		}
		if f == nil {
			continue
		}
		switch id {
		case "(*os.File).Write":
			stepCalls = append(stepCalls, call)
			if a.isBytes(args[1]) {
				writeOf[call] = f
			} else {
				res.violated = true
				c.Violation(fn, P.InstrPos(call), "temp file written with something other than the bytes parameter",
					"the node file receives "+ir.Sym(args[1])+" instead of exactly the bytes parameter: the renamed file is not the complete node")
			}
		case "io.Copy":
			stepCalls = append(stepCalls, call)
			src, _ := ir.Strip(args[1]).(*ssa.Call)
			if isTemp(args[0]) != nil && src != nil && (staticID(src) == "bytes.NewReader" || staticID(src) == "bytes.NewBuffer") && a.isBytes(src.Call.Args[0]) {
				writeOf[call] = f
			} else {
				res.undecided = true
				c.Undecided(fn, P.InstrPos(call), "io.Copy involving the temp file", "source is not a reader over exactly the bytes parameter")
			}
		case "(*os.File).Sync", "(*os.File).Close":
			stepCalls = append(stepCalls, call)
		case "(*os.File).Name", "(*os.File).Chmod", "(*os.File).Stat", "(*os.File).Fd":
		default:
			if h := call.Call.StaticCallee(); a.ownFunc(h) || id == "" {
				escapes = true
			} else if strings.HasPrefix(id, "(*os.File).") {
				res.undecided = true
				c.Undecided(fn, P.InstrPos(call), callName(call)+" on the temp file", "operation on the temp file that the rule does not model")
			} else {
				escapes = true
			}
		}
	}
	for _, call := range calls {
		if staticID(call) == "os.Rename" {
			stepCalls = append(stepCalls, call)
		}
	}
	// helpers that are handed the final path and the bytes
	for _, call := range calls {
		h := call.Call.StaticCallee()
		if !a.ownFunc(h) || h == fn {
			continue
		}
		sub := a.mapRoles(call, h)
		if sub.bytes == nil || (sub.finalP == nil && (sub.name == nil || (sub.dirP == nil && sub.recv == nil))) {
			continue
		}
		hr := sub.check(active)
		if hr.violated {
			res.violated = true
		}
		if hr.undecided {
			res.undecided = true
		}
		if hr.violated || hr.undecided || hr.successes > 0 {
			// findings about the helper are reported at the helper; the call stands for the whole sequence
			helperOK[call] = true
			if _, has := errorValue(call); has {
				stepCalls = append(stepCalls, call)
			} else {
				res.violated = true
				c.Violation(fn, P.InstrPos(call), "helper "+h.Name()+" cannot report failure", "the helper that writes the node returns no error")
			}
		}
	}

	// ---- (b) every success return completes the sequence ------------------
	if inPlace {
		c.Note("%s: the temp+sync+close+rename sequence is not evaluated because the final path is written in place", fname)
	} else {
		type retRes struct {
			missing  map[int]string // stage reached -> witness path
			complete bool
			shortcut bool
		}
		per := map[*ssa.Return]*retRes{}
		var order []*ssa.Return
		ei := ir.ErrorResultIndex(fn.Signature)
		enc := func(stage int, f ssa.Value) string {
			if f == nil {
				return fmt.Sprintf("%d:", stage)
			}
			return fmt.Sprintf("%d:%s", stage, f.Name())
		}
		w := &pwalker{fn: fn}
		w.onInstr = func(st *pstate, ins ssa.Instruction) {
			call, ok := ins.(*ssa.Call)
			if !ok {
				return
			}
			stage := 0
			fileName := ""
			if st.aux != "" {
				fmt.Sscanf(st.aux, "%d:%s", &stage, &fileName)
			}
			var cur ssa.Value
			for f := range temps {
				if f.Name() == fileName {
					cur = f
				}
			}
			if helperOK[call] {
				st.aux = enc(5, nil)
				return
			}
			id := staticID(call)
			args := call.Call.Args
			switch id {
			case "os.CreateTemp", "io/ioutil.TempFile":
				if f := extractOf(call, 0); f != nil {
					st.aux = enc(1, f)
				}
			case "(*os.File).Write", "io.Copy":
				if f, ok := writeOf[call]; ok && cur != nil && f == cur && stage >= 1 {
					st.aux = enc(2, cur) // (a write after Sync needs a new Sync)
				}
			case "(*os.File).Sync":
				if cur != nil && isTemp(args[0]) == cur && stage == 2 {
					st.aux = enc(3, cur)
				}
			case "(*os.File).Close":
				if cur != nil && isTemp(args[0]) == cur && stage == 3 {
					st.aux = enc(4, cur)
				}
			case "os.Rename":
				if cur != nil && stage == 4 && isTempName(args[0]) == cur && a.isFinal(args[1]) {
					st.aux = enc(5, cur)
				}
			}
		}
		w.onReturn = func(st *pstate, r *ssa.Return) {
			if ei < 0 || ei >= len(r.Results) || nilness(st, r.Results[ei]) == triYes {
				return
			}
			rr := per[r]
			if rr == nil {
				rr = &retRes{missing: map[int]string{}}
				per[r] = rr
				order = append(order, r)
			}
			for e := range statErrs {
				if st.facts[e] == triNo {
					rr.shortcut = true
					return
				}
			}
			stage := 0
			if st.aux != "" {
				fmt.Sscanf(st.aux, "%d:", &stage)
			}
			if stage == 5 {
				rr.complete = true
				return
			}
			if _, ok := rr.missing[stage]; !ok {
				rr.missing[stage] = st.pathString()
			}
		}
		w.run()
		if w.overflow {
			res.undecided = true
			c.Undecided(fn, P.Pos(fn.Pos()), "paths", "path exploration exceeded its bound")
		}
		for _, r := range order {
			rr := per[r]
			if len(rr.missing) == 0 {
				if rr.complete {
					res.successes++
					c.OK(P.InstrPos(r), "success return of "+fname, "every feasible path to it passes CreateTemp, Write(bytes), Sync, Close, Rename(temp, final) in this order", false)
				}
				if rr.shortcut {
					c.OK(P.InstrPos(r), "success return of "+fname+" (already exists)", "reached only with a nil error from Stat of the final path; sound because node files appear only by rename", true)
				}
				continue
			}
			for stage := 0; stage < 5; stage++ {
				path, ok := rr.missing[stage]
				if !ok {
					continue
				}
				construct := "success return without " + afSteps[stage]
				msg := fmt.Sprintf("%s can report success on a path (%s) that has performed only %d of the 5 steps temp-create, write, sync, close, rename in order; missing next: %s", fname, path, stage, afSteps[stage])
				if escapes {
					res.undecided = true
					c.Undecided(fn, P.InstrPos(r), construct, msg+" — but the temp file is handed to code the rule does not model", path)
				} else {
					res.violated = true
					c.Violation(fn, P.InstrPos(r), construct, msg, path)
				}
			}
		}
		if res.successes == 0 && !res.violated && !res.undecided {
			res.undecided = true
			c.Undecided(fn, P.Pos(fn.Pos()), "no writing success path", fname+" has no success return that completes the temp+rename sequence")
		}
	}

	// ---- each step's error reaches an error return -------------------------
	seen := map[*ssa.Call]bool{}
	for _, call := range stepCalls {
		if seen[call] {
			continue
		}
		seen[call] = true
		if _, has := errorValue(call); !has {
			continue
		}
		dr := errDropCheck(fn, call)
		name := callName(call)
		switch {
		case dr.overflow:
			res.undecided = true
			c.Undecided(fn, P.InstrPos(call), "error of "+name, "path exploration exceeded its bound")
		case !dr.reached || len(dr.bad) == 0:
			c.OK(P.InstrPos(call), "error of "+name+" in "+fname, "a failure of this step always ends in a non-nil error return", false)
		case dr.memLoad:
			res.undecided = true
			c.Undecided(fn, P.InstrPos(call), "error of "+name, "error returned through a memory cell the rule cannot follow")
		default:
			res.violated = true
			var wit []string
			for _, r := range dr.bad {
				wit = append(wit, fmt.Sprintf("return at %s (%s)", P.InstrPos(r), dr.witness[r]))
			}
			c.Violation(fn, P.InstrPos(call), "error of "+name+" dropped",
				fmt.Sprintf("when %s fails, %s can still report success: a write that reported success is then not complete/durable", name, fname), wit...)
		}
	}
	return res
}

// atomicLoad: clause (c) — Load reads exactly filepath.Join(same field, name).
func atomicLoad(c *Ctx, b backendImpl, baseField string) {
	P := c.P
	fn := b.load
	recv := newRecvInfo(fn)
	if recv == nil {
		c.Undecided(fn, P.Pos(fn.Pos()), "receiver", "Load has no receiver")
		return
	}
	if recv.fieldWritten(baseField) {
		c.Undecided(fn, P.Pos(fn.Pos()), "base path modified", "Load assigns the receiver's base path field")
		return
	}
	a := &afRoles{c: c, fn: fn, recv: recv, baseField: baseField, name: fn.Params[2]}
	n := 0
	reach := c.Facts.Reach(fn)
	for _, g := range P.Funcs {
		if !reach[g] || g == fn {
			continue
		}
		for _, ci := range CallsOf(g) {
			if strings.HasPrefix(staticID(ci), "os.") {
				c.Undecided(fn, P.InstrPos(ci), "file access in helper "+g.Name(), "Load opens files in a helper; the rule checks the direct forms only")
				n++
			}
		}
	}
	for _, ci := range CallsOf(fn) {
		call, ok := ci.(*ssa.Call)
		if !ok {
			continue
		}
		id := staticID(call)
		switch id {
		case "os.ReadFile", "io/ioutil.ReadFile", "os.Open", "os.OpenFile":
			n++
			if a.isFinal(call.Call.Args[0]) {
				c.OK(P.InstrPos(call), "path read by "+ir.FuncName(fn), "filepath.Join(receiver."+baseField+", name): the same join Store renames into", false)
			} else {
				c.Violation(fn, P.InstrPos(call), "Load reads a path other than Join(base, name)",
					fmt.Sprintf("Load reads %s, not filepath.Join(receiver.%s, name) — the path Store writes", descValue(call.Call.Args[0]), baseField))
			}
		default:
			if strings.HasPrefix(id, "os.") && !strings.HasPrefix(id, "os.Is") {
				n++
				c.Undecided(fn, P.InstrPos(call), callName(call)+" in Load", "unexpected file-system call in Load")
			}
		}
	}
	if n == 0 {
		c.Undecided(fn, P.Pos(fn.Pos()), "Load reads no file", "Load contains no os.ReadFile/os.Open call")
	}
}
