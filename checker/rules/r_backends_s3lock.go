package rules

// S3KEY and LOCK (part of the backends rule group, see r_backends.go).

import (
	"fmt"
	"go/token"
	"go/types"
	"sort"
	"strings"

	"golang.org/x/tools/go/ssa"

	"mastcheck/ir"
)

// ===========================================================================
// S3KEY

const (
	awsS3Pkg = "github.com/aws/aws-sdk-go/service/s3"
	awsPkg   = "github.com/aws/aws-sdk-go/aws"
)

func namedFrom(t types.Type, pkg, name string) bool {
	if p, ok := t.Underlying().(*types.Pointer); ok {
		t = p.Elem()
	}
	n, ok := types.Unalias(t).(*types.Named)
	return ok && n.Obj().Name() == name && n.Obj().Pkg() != nil && n.Obj().Pkg().Path() == pkg
}

// structStores collects, for a struct held in alloc a, the value stored in
// each field before `before`; a whole-struct copy `*a = *b` from another
// local (the composite-literal temporary) is followed.
func structStores(a *ssa.Alloc, before ssa.Instruction, d int) (map[string][]*ssa.Store, []string) {
	out := map[string][]*ssa.Store{}
	var und []string
	if a.Referrers() == nil || d > 3 {
		return out, und
	}
	for _, r := range *a.Referrers() {
		switch x := r.(type) {
		case *ssa.FieldAddr:
			fname := ir.FieldName(a.Type(), x.Field)
			if x.Referrers() == nil {
				continue
			}
			for _, q := range *x.Referrers() {
				switch s := q.(type) {
				case *ssa.Store:
					if s.Addr == x {
						if before != nil && !ir.Before(s, before) {
							und = append(und, "field "+fname+" is stored on a path that does not precede the request")
						}
						out[fname] = append(out[fname], s)
					}
				case *ssa.UnOp, *ssa.DebugRef:
				default:
					und = append(und, fmt.Sprintf("address of field %s escapes (%T)", fname, q))
				}
			}
		case *ssa.Store:
			if x.Addr != a {
				und = append(und, "the input's address is stored")
				continue
			}
			ld, ok := x.Val.(*ssa.UnOp)
			if !ok || ld.Op != token.MUL {
				und = append(und, "input struct assigned from a non-literal value")
				continue
			}
			src, ok := ld.X.(*ssa.Alloc)
			if !ok {
				und = append(und, "input struct copied from non-local memory")
				continue
			}
			sub, u2 := structStores(src, x, d+1)
			und = append(und, u2...)
			for k, v := range sub {
				out[k] = append(out[k], v...)
			}
		}
	}
	return out, und
}

type s3Req struct {
	kind   string // "GetObjectInput" / "PutObjectInput"
	call   *ssa.Call
	fr     *frame // frame in which the request is issued
	alloc  *ssa.Alloc
	afr    *frame // frame in which the input struct is built
	fields map[string][]*ssa.Store
	und    []string
}

// s3Requests finds the requests issued by the method of root frame fr and by
// the helpers it calls (depth-bounded): calls that leave the repository (or
// are dynamic) and take a *s3.GetObjectInput / *s3.PutObjectInput.
func s3Requests(root *frame) []s3Req {
	var out []s3Req
	frameCalls(root, func(call *ssa.Call, fr *frame) {
		if fr.child(call) != nil {
			return // a helper that is handed the input: followed, not a request
		}
		for _, a := range call.Call.Args {
			for _, kind := range []string{"GetObjectInput", "PutObjectInput"} {
				if !namedFrom(a.Type(), awsS3Pkg, kind) || !isPointer(a.Type()) {
					continue
				}
				rq := s3Req{kind: kind, call: call, fr: fr}
				x := expand(a, fr)
				if al, ok := x.v.(*ssa.Alloc); ok {
					rq.alloc, rq.afr = al, x.fr
					var before ssa.Instruction
					if x.fr == fr {
						before = call
					}
					rq.fields, rq.und = structStores(al, before, 0)
				} else {
					rq.und = append(rq.und, "the request input is not a local struct built in this method or its helpers ("+descFval(x)+")")
				}
				out = append(out, rq)
			}
		}
	})
	return out
}

// s3MutatingRequest classifies the request input types of the AWS SDK whose
// request changes what a bucket holds. Read requests (Get*, Head*, List*,
// Select*) cannot take away or replace what an earlier Store wrote.
func s3MutatingRequest(inputType string) bool {
	for _, p := range []string{"Delete", "Put", "Copy", "Create", "Upload", "Complete", "Abort", "Restore", "Write"} {
		if strings.HasPrefix(inputType, p) {
			return true
		}
	}
	return false
}

// s3OtherRequests: every call anywhere in the S3 backend package that hands
// a request input of the SDK to a callee outside the repository. The only
// request that may change the bucket is the PutObject of Store (whose key and
// body the clauses below pin): a DeleteObject "cleaning up" after a failed
// put removes the node an earlier successful write of the same name left
// there (content-addressed names are re-written all the time).
func s3OtherRequests(c *Ctx, storeFns map[*ssa.Function]bool) {
	P := c.P
	for _, fn := range P.Funcs {
		if fn.Pkg == nil || fn.Pkg.Pkg.Path() != ir.S3Path {
			continue
		}
		for _, b := range fn.Blocks {
			for _, ins := range b.Instrs {
				ci, ok := ins.(ssa.CallInstruction)
				if !ok {
					continue
				}
				com := ci.Common()
				if callee := ir.Callee(com); callee != nil && callee.Pkg != nil && callee.Pkg.Pkg.Path() == ir.S3Path {
					continue // a helper of the package: its own calls are visited
				}
				for _, a := range com.Args {
					pt, isPtr := a.Type().Underlying().(*types.Pointer)
					if !isPtr {
						continue
					}
					n, isNamed := types.Unalias(pt.Elem()).(*types.Named)
					if !isNamed || n.Obj().Pkg() == nil || n.Obj().Pkg().Path() != awsS3Pkg || !strings.HasSuffix(n.Obj().Name(), "Input") {
						continue
					}
					name := n.Obj().Name()
					root := fn
					for root.Parent() != nil {
						root = root.Parent()
					}
					switch {
					case name == "PutObjectInput" && (storeFns[root] || onlyCalledFrom(P, root, storeFns, 0)):
						// the write itself (pinned below)
					case name == "PutObjectInput":
						c.Violation(fn, P.InstrPos(ins), "PutObject request outside Store",
							"a function other than Store writes an object: only Store(name, bytes) may change what the bucket holds under prefix+name")
					case s3MutatingRequest(name):
						c.Violation(fn, P.InstrPos(ins), strings.TrimSuffix(name, "Input")+" request issued by the S3 backend",
							"the backend issues a "+strings.TrimSuffix(name, "Input")+" request: besides the PutObject of Store nothing may change the bucket — a delete/copy/overwrite (also as error-path clean-up) can remove or replace the node an earlier successful Store of the same name left there")
					default:
						c.OK(P.InstrPos(ins), strings.TrimSuffix(name, "Input")+" request in "+ir.FuncName(fn), "a read request: cannot change what is stored", false)
					}
				}
			}
		}
	}
}

// onlyCalledFrom: fn has callers, and every one of them (transitively, within
// the repository) is one of the given functions.
func onlyCalledFrom(P *ir.Program, fn *ssa.Function, roots map[*ssa.Function]bool, d int) bool {
	cs := P.Callers[fn]
	if len(cs) == 0 || d > 4 {
		return false
	}
	for _, ci := range cs {
		caller := ci.Parent()
		for caller.Parent() != nil {
			caller = caller.Parent()
		}
		if !roots[caller] && !onlyCalledFrom(P, caller, roots, d+1) {
			return false
		}
	}
	return true
}

func runS3KEY(c *Ctx) {
	P := c.P
	impls := backendImpls(c, ir.S3Path)
	storeFns := map[*ssa.Function]bool{}
	for _, b := range impls {
		storeFns[b.store] = true
	}
	s3OtherRequests(c, storeFns)
	for _, b := range impls {
		st, _ := b.named.Underlying().(*types.Struct)
		have := map[string]bool{}
		if st != nil {
			for i := 0; i < st.NumFields(); i++ {
				have[st.Field(i).Name()] = true
			}
		}
		if !have["Prefix"] || !have["BucketName"] {
			c.AnchorMissing("fields Prefix and BucketName of " + b.String())
			continue
		}
		shapes := map[string]string{}
		for _, m := range []struct {
			fn   *ssa.Function
			kind string
			what string
		}{{b.load, "GetObjectInput", "Load"}, {b.store, "PutObjectInput", "Store"}} {
			fn := m.fn
			root := rootFrame(P, fn)
			minParams := 3
			if m.what == "Store" {
				minParams = 4
			}
			if root.recv == nil || len(fn.Params) < minParams {
				c.Undecided(fn, P.Pos(fn.Pos()), "signature", "unexpected method shape")
				continue
			}
			for _, f := range []string{"Prefix", "BucketName"} {
				if root.recv.fieldWritten(f) {
					c.Undecided(fn, P.Pos(fn.Pos()), "receiver field "+f+" modified", "the method assigns receiver field "+f+" before using it")
				}
			}
			var reqs []s3Req
			for _, r := range s3Requests(root) {
				if r.kind == m.kind {
					reqs = append(reqs, r)
				} else {
					c.Undecided(fn, P.InstrPos(r.call), "unexpected "+r.kind, m.what+" issues a request with a "+r.kind)
				}
			}
			if len(reqs) != 1 {
				c.Undecided(fn, P.Pos(fn.Pos()), m.kind+" request", fmt.Sprintf("%s issues %d requests taking a *s3.%s (expected exactly one)", m.what, len(reqs), m.kind))
				continue
			}
			rq := reqs[0]
			pos := P.InstrPos(rq.call)
			if len(rq.und) > 0 {
				c.Undecided(fn, pos, m.kind+" construction", strings.Join(uniq(rq.und), "; "))
				continue
			}
			// request goes to the client held in a receiver field, no request options
			if !rq.call.Call.IsInvoke() {
				c.Undecided(fn, pos, m.kind+" request target", "the request is not an interface call on the S3 client")
			} else if _, ok := rootRecvField(rq.call.Call.Value, rq.fr); !ok {
				c.Undecided(fn, pos, m.kind+" request target", "the S3 client is not read from a receiver field")
			} else if want := map[string]string{"GetObjectInput": "GetObject", "PutObjectInput": "PutObject"}[m.kind]; !strings.HasPrefix(rq.call.Call.Method.Name(), want) {
				c.Violation(fn, pos, m.kind+" passed to "+rq.call.Call.Method.Name(), m.what+" does not perform a "+want+" request")
			}
			for i, a := range rq.call.Call.Args {
				if i >= 2 && !ir.IsNilConst(expand(a, rq.fr).v) {
					c.Undecided(fn, pos, "request options", "request options are passed; they can alter the object addressed")
				}
			}
			single := func(f string) (ssa.Value, bool) {
				ss := rq.fields[f]
				if len(ss) == 0 {
					c.Violation(fn, pos, f+" of "+m.kind+" not set", m.what+" leaves "+f+" of its request empty")
					return nil, false
				}
				if len(ss) > 1 {
					c.Undecided(fn, pos, f+" of "+m.kind, "field assigned more than once")
					return nil, false
				}
				return ss[0].Val, true
			}
			// Key
			if v, ok := single("Key"); ok {
				shape, good := "", false
				x := expand(v, rq.afr)
				if call, isCall := x.v.(*ssa.Call); isCall && staticID(call) == awsPkg+".String" {
					var parts []string
					for _, l := range stringLeaves(call.Call.Args[0], x.fr) {
						if f, ok := rootRecvField(l.v, l.fr); ok {
							parts = append(parts, "recv."+f)
						} else if isRootParam(l.v, l.fr, 2) {
							parts = append(parts, "name")
						} else if s, ok := constString(l.v); ok {
							if s != "" {
								parts = append(parts, fmt.Sprintf("%q", s))
							}
						} else {
							parts = append(parts, "?")
						}
					}
					shape = strings.Join(parts, "+")
					good = shape == "recv.Prefix+name"
				} else {
					shape = "not aws.String(…): " + descFval(x)
				}
				shapes[m.what+".Key"] = shape
				keyUnd := unfollowedHelper(x)
				if call, isCall := x.v.(*ssa.Call); isCall && staticID(call) == awsPkg+".String" {
					for _, l := range stringLeaves(call.Call.Args[0], x.fr) {
						if unfollowedHelper(l) {
							keyUnd = true
						}
					}
				}
				if keyUnd {
					delete(shapes, m.what+".Key")
					c.Undecided(fn, P.InstrPos(rq.fields["Key"][0]), "Key of "+m.kind, "the key is computed by a helper the rule does not follow (nesting deeper than 2, or several returns): "+shape)
				} else if good {
					c.OK(P.InstrPos(rq.fields["Key"][0]), "Key of "+m.kind+" in "+ir.FuncName(fn), "aws.String(receiver.Prefix + name parameter)", false)
				} else {
					c.Violation(fn, P.InstrPos(rq.fields["Key"][0]), "Key of "+m.kind+" is not Prefix+name",
						fmt.Sprintf("%s addresses object key %s instead of receiver.Prefix + name: it reads or writes a different object than its counterpart", m.what, shape))
				}
			}
			// Bucket
			if v, ok := single("Bucket"); ok {
				shape := "?"
				x := expand(v, rq.afr)
				if f, ok := rootRecvFieldAddr(x.v, x.fr); ok {
					shape = "&recv." + f
				} else if call, isCall := x.v.(*ssa.Call); isCall && staticID(call) == awsPkg+".String" {
					if f, ok := rootRecvField(call.Call.Args[0], x.fr); ok {
						shape = "&recv." + f // aws.String(recv.f) is an equivalent pointer to a copy
					}
				}
				if shape == "?" {
					shape = descFval(x)
				}
				shapes[m.what+".Bucket"] = shape
				if unfollowedHelper(x) {
					delete(shapes, m.what+".Key")
					c.Undecided(fn, P.InstrPos(rq.fields["Bucket"][0]), "Bucket of "+m.kind, "the bucket is computed by a helper the rule does not follow (nesting deeper than 2, or several returns): "+shape)
				} else if shape == "&recv.BucketName" {
					c.OK(P.InstrPos(rq.fields["Bucket"][0]), "Bucket of "+m.kind+" in "+ir.FuncName(fn), "pointer to receiver.BucketName", false)
				} else {
					c.Violation(fn, P.InstrPos(rq.fields["Bucket"][0]), "Bucket of "+m.kind+" is not BucketName",
						fmt.Sprintf("%s uses bucket %s instead of the configured receiver.BucketName", m.what, shape))
				}
			}
			// other fields
			allowed := map[string]bool{"Key": true, "Bucket": true}
			if m.kind == "PutObjectInput" {
				for _, f := range []string{"Body", "ACL", "ContentType", "StorageClass", "ServerSideEncryption", "SSEKMSKeyId", "Metadata", "Tagging", "CacheControl"} {
					allowed[f] = true
				}
			}
			var extra []string
			for f := range rq.fields {
				if !allowed[f] {
					extra = append(extra, f)
				}
			}
			sort.Strings(extra)
			for _, f := range extra {
				c.Undecided(fn, pos, "field "+f+" of "+m.kind, "the request sets "+f+", whose effect on which bytes are read or written the rule does not model")
			}
			if m.kind == "PutObjectInput" {
				if v, ok := single("Body"); ok {
					x := expand(v, rq.afr)
					if call, isCall := x.v.(*ssa.Call); isCall && staticID(call) == awsPkg+".ReadSeekCloser" {
						x = expand(call.Call.Args[0], x.fr)
					}
					call, isCall := x.v.(*ssa.Call)
					if unfollowedHelper(x) {
						c.Undecided(fn, P.InstrPos(rq.fields["Body"][0]), "Body of PutObjectInput", "the body is computed by a helper the rule does not follow: "+descFval(x))
					} else if isCall && (staticID(call) == "bytes.NewReader" || staticID(call) == "bytes.NewBuffer") && isRootParam(call.Call.Args[0], x.fr, 3) {
						c.OK(P.InstrPos(rq.fields["Body"][0]), "Body of PutObjectInput in "+ir.FuncName(fn), "reader over exactly the bytes parameter", false)
					} else {
						c.Violation(fn, P.InstrPos(rq.fields["Body"][0]), "Body of PutObjectInput is not the bytes parameter",
							"Store uploads something other than a reader over exactly its bytes parameter ("+descFval(x)+")")
					}
				}
			} else {
				s3LoadBody(c, fn, rq)
			}
		}
		if shapes["Load.Key"] != "" && shapes["Store.Key"] != "" {
			if shapes["Load.Key"] == shapes["Store.Key"] && shapes["Load.Bucket"] == shapes["Store.Bucket"] {
				c.OK(P.Pos(b.load.Pos()), "Load and Store of "+b.String()+" address the same object", "Key "+shapes["Load.Key"]+", Bucket "+shapes["Load.Bucket"]+" in both", false)
			} else {
				c.Violation(b.load, P.Pos(b.load.Pos()), "Load and Store address different objects",
					fmt.Sprintf("Load uses key %s in %s, Store uses key %s in %s", shapes["Load.Key"], shapes["Load.Bucket"], shapes["Store.Key"], shapes["Store.Bucket"]))
			}
		}
	}
}

// successReturns lists, for every return of fn that can carry a nil error on
// some feasible path, the returned values (cells resolved) on such a path.
type succRet struct {
	r    *ssa.Return
	vals []ssa.Value
}

func successReturns(fn *ssa.Function) (out []succRet, overflow bool) {
	ei := ir.ErrorResultIndex(fn.Signature)
	w := &pwalker{fn: fn}
	seen := map[string]bool{}
	w.onReturn = func(st *pstate, r *ssa.Return) {
		if ei >= 0 && ei < len(r.Results) && nilness(st, r.Results[ei]) == triYes {
			return
		}
		sr := succRet{r: r}
		k := fmt.Sprintf("%p", r)
		for _, v := range r.Results {
			d := ir.ResolveCell(st.deref(v))
			sr.vals = append(sr.vals, d)
			k += "|" + d.Name()
		}
		if !seen[k] {
			seen[k] = true
			out = append(out, sr)
		}
	}
	w.run()
	return out, w.overflow
}

// s3LoadBody: every return of Load that may carry a nil error returns the
// result of io.ReadAll over the Body of this request's output; the request
// and the read may sit in helpers.
func s3LoadBody(c *Ctx, fn *ssa.Function, rq s3Req) {
	P := c.P
	var isOutput func(v ssa.Value, fr *frame, d int) bool
	isOutput = func(v ssa.Value, fr *frame, d int) bool {
		v = ir.Strip(ir.ResolveCell(v))
		ex, ok := v.(*ssa.Extract)
		if !ok || ex.Index != 0 || d > 4 {
			if p, isP := v.(*ssa.Parameter); isP && fr.up != nil {
				x := expand(p, fr)
				if x.fr != fr {
					return isOutput(x.v, x.fr, d+1)
				}
			}
			return false
		}
		call, ok := ex.Tuple.(*ssa.Call)
		if !ok {
			return false
		}
		if call == rq.call && fr == rq.fr {
			return true
		}
		if k := fr.child(call); k != nil {
			srs, ov := successReturns(k.fn)
			if ov || len(srs) == 0 {
				return false
			}
			for _, sr := range srs {
				if len(sr.vals) == 0 || !isOutput(sr.vals[0], k, d+1) {
					return false
				}
			}
			return true
		}
		return false
	}
	var bodyBytes func(v ssa.Value, fr *frame, d int) (bool, string)
	bodyBytes = func(v ssa.Value, fr *frame, d int) (bool, string) {
		v = ir.Strip(ir.ResolveCell(v))
		ex, ok := v.(*ssa.Extract)
		if !ok || ex.Index != 0 || d > 4 {
			return false, descValue(v)
		}
		call, ok := ex.Tuple.(*ssa.Call)
		if !ok {
			return false, descValue(v)
		}
		if id := staticID(call); id == "io.ReadAll" || id == "io/ioutil.ReadAll" {
			src := expand(call.Call.Args[0], fr)
			if ld, isLd := src.v.(*ssa.UnOp); isLd && ld.Op == token.MUL {
				if fa, isFA := ld.X.(*ssa.FieldAddr); isFA && ir.FieldName(fa.X.Type(), fa.Field) == "Body" && isOutput(fa.X, src.fr, d+1) {
					return true, ""
				}
			}
			return false, "io.ReadAll(" + descFval(src) + ")"
		}
		if k := fr.child(call); k != nil {
			srs, ov := successReturns(k.fn)
			if ov || len(srs) == 0 {
				return false, "result of " + k.fn.Name()
			}
			for _, sr := range srs {
				if len(sr.vals) == 0 {
					return false, "result of " + k.fn.Name()
				}
				if ok, why := bodyBytes(sr.vals[0], k, d+1); !ok {
					return false, why + " (returned by " + k.fn.Name() + ")"
				}
			}
			return true, ""
		}
		return false, descValue(v)
	}
	srs, ov := successReturns(fn)
	if ov {
		c.Undecided(fn, P.Pos(fn.Pos()), "paths", "path exploration exceeded its bound")
		return
	}
	root := rq.fr.root()
	done := map[*ssa.Return]bool{}
	bad := map[*ssa.Return]string{}
	var order []*ssa.Return
	for _, sr := range srs {
		if len(sr.vals) != 2 {
			continue
		}
		if !done[sr.r] {
			done[sr.r] = true
			order = append(order, sr.r)
		}
		if ok, why := bodyBytes(sr.vals[0], root, 0); !ok {
			bad[sr.r] = why
		}
	}
	for _, r := range order {
		if why, isBad := bad[r]; isBad {
			c.Violation(fn, P.InstrPos(r), "Load does not return the object body", "Load can return "+why+" with a nil error rather than everything read from the Body of its GetObject output")
		} else {
			c.OK(P.InstrPos(r), "data returned by "+ir.FuncName(fn), "io.ReadAll of the GetObject output's Body", false)
		}
	}
	if len(order) == 0 {
		c.Undecided(fn, P.Pos(fn.Pos()), "Load data return", "no return of Load can carry a nil error")
	}
}

// ===========================================================================
// LOCK

func mutexKind(t types.Type) string {
	if p, ok := t.Underlying().(*types.Pointer); ok {
		t = p.Elem()
	}
	n, ok := types.Unalias(t).(*types.Named)
	if !ok || n.Obj().Pkg() == nil || n.Obj().Pkg().Path() != "sync" {
		return ""
	}
	switch n.Obj().Name() {
	case "Mutex", "RWMutex":
		return n.Obj().Name()
	}
	return ""
}

type lockedType struct {
	pkg    string
	named  *types.Named
	st     *types.Struct
	mfield string
	mkind  string
}

func runLOCK(c *Ctx) {
	P := c.P
	var lts []lockedType
	for _, pp := range backendPkgs {
		p := P.Pkgs[pp]
		if p == nil {
			c.AnchorMissing("package " + pp)
			continue
		}
		names := p.Types.Scope().Names()
		sort.Strings(names)
		for _, nm := range names {
			tn, ok := p.Types.Scope().Lookup(nm).(*types.TypeName)
			if !ok {
				continue
			}
			named, ok := tn.Type().(*types.Named)
			if !ok {
				continue
			}
			st, ok := named.Underlying().(*types.Struct)
			if !ok {
				continue
			}
			var mf []int
			for i := 0; i < st.NumFields(); i++ {
				if mutexKind(st.Field(i).Type()) != "" {
					mf = append(mf, i)
				}
			}
			if len(mf) == 0 {
				continue
			}
			if pp == ir.MastPath && !implementsStorageIface(P, named) {
				// the tree package's own concurrency helpers (flush's worker machinery) follow the
				// WaitGroup protocol BARRIER checks, not the guarded-fields discipline of a store
				c.Note("type %s has a mutex but implements neither Persist nor NodeCache: not a shared store, LOCK does not apply", nm)
				continue
			}
			if len(mf) > 1 {
				c.Undecided(nil, P.Pos(tn.Pos()), "type "+nm+": several mutexes", "the rule cannot tell which mutex guards which field")
				continue
			}
			lts = append(lts, lockedType{pp, named, st, st.Field(mf[0]).Name(), mutexKind(st.Field(mf[0]).Type())})
		}
	}
	if len(lts) == 0 {
		c.AnchorMissing("a struct type with a sync.Mutex field (inMemoryStore)")
		return
	}
	for _, lt := range lts {
		lockType(c, lt)
	}
}

func (lt lockedType) isPtrTo(t types.Type) bool {
	p, ok := t.Underlying().(*types.Pointer)
	return ok && types.Identical(p.Elem(), lt.named)
}

func lockType(c *Ctx, lt lockedType) {
	P := c.P
	tname := lt.named.Obj().Name()
	isMethodOfT := func(fn *ssa.Function) bool {
		return fn != nil && fn.Parent() == nil && fn.Signature.Recv() != nil && (lt.isPtrTo(fn.Signature.Recv().Type()) || types.Identical(fn.Signature.Recv().Type(), lt.named))
	}
	// helper methods: unexported, and called only by methods of T on their own receiver;
	// they are analysed with the lock state their callers establish
	isHelper := func(fn *ssa.Function) bool {
		if fn.Object() == nil || fn.Object().Exported() || len(P.Callers[fn]) == 0 || c.Facts.addrTaken[fn] {
			return false
		}
		for _, ci := range P.Callers[fn] {
			caller := ci.Parent()
			call, isCall := ci.(*ssa.Call)
			if !isCall || !isMethodOfT(caller) || !lt.isPtrTo(caller.Signature.Recv().Type()) || len(call.Call.Args) == 0 || call.Call.Args[0] != ssa.Value(caller.Params[0]) {
				return false
			}
		}
		return true
	}
	calls := map[*ssa.Function]map[string]bool{}
	done := map[*ssa.Function]bool{}
	var helpers []*ssa.Function
	for _, fn := range P.Funcs {
		if fn.Pkg.Pkg.Path() != lt.pkg {
			continue
		}
		if isMethodOfT(fn) {
			if !lt.isPtrTo(fn.Signature.Recv().Type()) {
				c.Undecided(fn, P.Pos(fn.Pos()), "value receiver on "+tname, "a method with a value receiver copies the mutex and the guarded fields")
				continue
			}
			if isHelper(fn) {
				helpers = append(helpers, fn)
				continue
			}
			lockMethod(c, lt, fn, "", calls)
			done[fn] = true
			continue
		}
		// other functions: field accesses to a T only on fresh allocations
		for _, b := range fn.Blocks {
			for _, ins := range b.Instrs {
				switch x := ins.(type) {
				case *ssa.FieldAddr:
					if !lt.isPtrTo(x.X.Type()) {
						continue
					}
					fname := ir.FieldName(x.X.Type(), x.Field)
					if _, fresh := x.X.(*ssa.Alloc); fresh {
						c.OK(P.InstrPos(x), "field "+fname+" of a fresh "+tname+" in "+ir.FuncName(fn), "object not yet shared (allocated in this function)", true)
					} else {
						c.Undecided(fn, P.InstrPos(x), "access to "+tname+"."+fname+" outside a method", "field of a mutex-guarded struct accessed outside its methods")
					}
				case *ssa.Field:
					if types.Identical(x.X.Type(), lt.named) {
						c.Undecided(fn, P.InstrPos(x), "copy of "+tname, "field read from a copy of a mutex-guarded struct")
					}
				}
			}
		}
	}
	for round := 0; round < 4 && len(helpers) > 0; round++ {
		var rest []*ssa.Function
		for _, h := range helpers {
			ready := true
			for _, ci := range P.Callers[h] {
				if !done[ci.Parent()] {
					ready = false
				}
			}
			if !ready && round < 3 {
				rest = append(rest, h)
				continue
			}
			entry := ""
			if st := calls[h]; len(st) == 1 && ready {
				for k := range st {
					entry = k
				}
			}
			lockMethod(c, lt, h, entry, calls)
			done[h] = true
		}
		helpers = rest
	}
}

// lockRefResults: result positions of method fn (of the guarded type) that
// can carry a reference (map, slice, pointer, chan) to guarded state: a load
// of a guarded receiver field, or a value the method also stores into one.
func lockRefResults(lt lockedType, fn *ssa.Function) map[int]string {
	out := map[int]string{}
	if fn == nil || len(fn.Params) == 0 {
		return out
	}
	recv := fn.Params[0]
	fieldOfAddr := func(v ssa.Value) string {
		if fa, ok := v.(*ssa.FieldAddr); ok && fa.X == ssa.Value(recv) {
			if f := ir.FieldName(fa.X.Type(), fa.Field); f != lt.mfield {
				return f
			}
		}
		return ""
	}
	stored := map[ssa.Value]string{}
	for _, b := range fn.Blocks {
		for _, ins := range b.Instrs {
			if s, ok := ins.(*ssa.Store); ok {
				if f := fieldOfAddr(s.Addr); f != "" {
					stored[s.Val] = f
				}
			}
		}
	}
	var classify func(v ssa.Value, d int) string
	classify = func(v ssa.Value, d int) string {
		if v == nil || d > 6 {
			return ""
		}
		v = ir.ResolveCell(v)
		if f, ok := stored[v]; ok {
			return f
		}
		switch x := v.(type) {
		case *ssa.UnOp:
			if x.Op == token.MUL {
				if f := fieldOfAddr(x.X); f != "" {
					return f
				}
				// result cell of a function with defer: any value stored into it
				if a, ok := x.X.(*ssa.Alloc); ok {
					sts, _ := ir.CellStores(a)
					for _, s := range sts {
						if f := classify(s.Val, d+1); f != "" {
							return f
						}
					}
				}
			}
		case *ssa.Phi:
			for _, e := range x.Edges {
				if f := classify(e, d+1); f != "" {
					return f
				}
			}
		case *ssa.Slice:
			return classify(x.X, d+1)
		case *ssa.ChangeType:
			return classify(x.X, d+1)
		}
		return ""
	}
	for _, r := range ir.Returns(fn) {
		for i, v := range r.Results {
			switch v.Type().Underlying().(type) {
			case *types.Map, *types.Slice, *types.Pointer, *types.Chan:
				if f := classify(v, 0); f != "" {
					out[i] = f
				}
			}
		}
	}
	return out
}

// lockMethod analyses one method. entry is the lock state on entry ("" for
// API methods; "L"/"R" for helper methods all of whose callers hold the lock);
// calls collects the lock state at every call of another method of T on the
// same receiver.
func lockMethod(c *Ctx, lt lockedType, fn *ssa.Function, entry string, calls map[*ssa.Function]map[string]bool) {
	P := c.P
	recv := fn.Params[0]
	tname := lt.named.Obj().Name()
	// A0: addresses of guarded fields; A1: reference values loaded from them
	guardedAddr := map[ssa.Value]string{}
	guardedRef := map[ssa.Value]string{}
	roAddr := map[ssa.Value]string{}
	isMutexAddr := func(v ssa.Value) bool {
		if fa, ok := v.(*ssa.FieldAddr); ok && fa.X == ssa.Value(recv) && ir.FieldName(fa.X.Type(), fa.Field) == lt.mfield {
			return true
		}
		if u, ok := v.(*ssa.UnOp); ok && u.Op == token.MUL { // pointer-typed mutex field
			if fa, ok := u.X.(*ssa.FieldAddr); ok && fa.X == ssa.Value(recv) && ir.FieldName(fa.X.Type(), fa.Field) == lt.mfield {
				return true
			}
		}
		return false
	}
	for _, b := range fn.Blocks {
		for _, ins := range b.Instrs {
			if fa, ok := ins.(*ssa.FieldAddr); ok && fa.X == ssa.Value(recv) {
				if f := ir.FieldName(fa.X.Type(), fa.Field); f != lt.mfield {
					if lockReadOnlyField(c, lt, f) {
						roAddr[fa] = f // set by constructors only: immutable once the value is shared, needs no lock
					} else {
						guardedAddr[fa] = f
					}
				}
			}
		}
	}
	// addresses inside a guarded field (cp.stats.Loads, &arr[i]) are guarded too
	for changed := true; changed; {
		changed = false
		for _, b := range fn.Blocks {
			for _, ins := range b.Instrs {
				var base ssa.Value
				switch x := ins.(type) {
				case *ssa.FieldAddr:
					base = x.X
				case *ssa.IndexAddr:
					base = x.X
				}
				if base == nil {
					continue
				}
				v := ins.(ssa.Value)
				if f, ok := guardedAddr[base]; ok && guardedAddr[v] == "" {
					guardedAddr[v] = f
					changed = true
				}
			}
		}
	}
	for _, b := range fn.Blocks {
		for _, ins := range b.Instrs {
			if u, ok := ins.(*ssa.UnOp); ok && u.Op == token.MUL {
				if f, ok := guardedAddr[u.X]; ok {
					switch u.Type().Underlying().(type) {
					case *types.Map, *types.Slice, *types.Pointer, *types.Chan:
						guardedRef[u] = f
					}
				}
			}
		}
	}
	// results of helper methods that hand out a reference to guarded state are guarded too
	for _, b := range fn.Blocks {
		for _, ins := range b.Instrs {
			call, ok := ins.(*ssa.Call)
			if !ok {
				continue
			}
			h := ir.Callee(call.Call)
			if h == nil || h == fn || h.Blocks == nil || h.Signature.Recv() == nil || !lt.isPtrTo(h.Signature.Recv().Type()) || len(call.Call.Args) == 0 || call.Call.Args[0] != ssa.Value(recv) {
				continue
			}
			for i, f := range lockRefResults(lt, h) {
				if h.Signature.Results().Len() == 1 {
					guardedRef[call] = f
				} else if ex := extractOf(call, i); ex != nil {
					guardedRef[ex] = f
				}
			}
		}
	}
	for _, a := range fn.AnonFuncs {
		for _, fv := range a.FreeVars {
			if lt.isPtrTo(fv.Type()) {
				c.Undecided(fn, P.Pos(a.Pos()), "closure captures the receiver", "accesses to guarded fields inside a closure are not ordered with respect to Lock/Unlock by this rule")
			}
		}
	}
	// aux: "" unlocked, "L" write-locked, "R" read-locked; suffix "d": an unlock is deferred
	type accRes struct {
		ins   ssa.Instruction
		field string
		write bool
		bad   string
		path  string
	}
	accs := map[ssa.Instruction]*accRes{}
	var accOrder []ssa.Instruction
	type misuse struct{ construct, msg, pos, path string }
	var misuses []misuse
	retBad := map[*ssa.Return]string{}
	retSeen := map[*ssa.Return]bool{}
	var retOrder []*ssa.Return
	usesLock := entry != ""
	w := &pwalker{fn: fn, initAux: entry}
	w.onInstr = func(st *pstate, ins ssa.Instruction) {
		held := strings.TrimSuffix(st.aux, "d")
		deferred := strings.HasSuffix(st.aux, "d")
		if call, ok := ins.(*ssa.Call); ok {
			if h := ir.Callee(call.Call); h != nil && h != fn && h.Signature.Recv() != nil && lt.isPtrTo(h.Signature.Recv().Type()) && len(call.Call.Args) > 0 && call.Call.Args[0] == ssa.Value(recv) {
				if calls[h] == nil {
					calls[h] = map[string]bool{}
				}
				calls[h][held] = true
			}
		}
		setHeld := func(h string) {
			if deferred {
				st.aux = h + "d"
			} else {
				st.aux = h
			}
		}
		if ci, ok := ins.(ssa.CallInstruction); ok {
			id := staticID(ci)
			if strings.HasPrefix(id, "(*sync.Mutex).") || strings.HasPrefix(id, "(*sync.RWMutex).") {
				args := ci.Common().Args
				if len(args) > 0 && isMutexAddr(args[0]) {
					usesLock = true
					op := id[strings.LastIndex(id, ".")+1:]
					_, isDefer := ins.(*ssa.Defer)
					if _, isGo := ins.(*ssa.Go); isGo {
						misuses = append(misuses, misuse{"go " + op, "mutex operation in a new goroutine", P.InstrPos(ins), st.pathString()})
						return
					}
					switch op {
					case "Lock", "RLock":
						if isDefer {
							misuses = append(misuses, misuse{"defer " + op, "deferred " + op + " is not understood", P.InstrPos(ins), st.pathString()})
							return
						}
						if held != "" {
							misuses = append(misuses, misuse{op + " of " + lt.mfield + " while held", tname + "." + lt.mfield + " is acquired while already held on this path (self-deadlock)", P.InstrPos(ins), st.pathString()})
						}
						if op == "Lock" {
							setHeld("L")
						} else {
							setHeld("R")
						}
					case "Unlock", "RUnlock":
						if isDefer {
							st.aux = held + "d"
							return
						}
						want := map[string]string{"Unlock": "L", "RUnlock": "R"}[op]
						if held != want {
							misuses = append(misuses, misuse{op + " of " + lt.mfield + " while not held", tname + "." + lt.mfield + " is released on a path on which it is not held in that mode", P.InstrPos(ins), st.pathString()})
						}
						setHeld("")
					default:
						misuses = append(misuses, misuse{"?" + op, "mutex operation " + op + " is not modelled", P.InstrPos(ins), st.pathString()})
					}
					return
				}
			}
		}
		// a call delegated to another store/cache held in a read-only interface field must not
		// run with the mutex held: it serialises all traffic through the wrapper and deadlocks
		// when the inner store calls back
		if ci, ok := ins.(ssa.CallInstruction); ok && ci.Common().IsInvoke() && held != "" {
			if ld, isLd := ci.Common().Value.(*ssa.UnOp); isLd && ld.Op == token.MUL {
				if f, isRO := roAddr[ld.X]; isRO {
					misuses = append(misuses, misuse{lt.mfield + " held across " + f + "." + ci.Common().Method.Name(),
						tname + "." + lt.mfield + " is held while the call is delegated to the wrapped " + f + ": independent trees using the wrapper are serialised (and a store that calls back into the wrapper deadlocks)", P.InstrPos(ins), st.pathString()})
				}
			}
		}
		if _, isFA := ins.(*ssa.FieldAddr); isFA {
			return
		}
		if ia, isIA := ins.(*ssa.IndexAddr); isIA && guardedAddr[ia] != "" && guardedAddr[ia.X] != "" {
			return // address computation inside a guarded array field; the access is the load/store through it
		}
		if _, isDbg := ins.(*ssa.DebugRef); isDbg {
			return
		}
		field, write, touched := "", false, false
		for _, op := range ins.Operands(nil) {
			if op == nil || *op == nil {
				continue
			}
			if f, ok := guardedAddr[*op]; ok {
				field, touched = f, true
				if s, isStore := ins.(*ssa.Store); isStore && s.Addr == *op {
					write = true
				}
			}
			if f, ok := guardedRef[*op]; ok {
				field, touched = f, true
				switch y := ins.(type) {
				case *ssa.MapUpdate:
					write = y.Map == *op
				case *ssa.Call:
					if bi, ok := y.Call.Value.(*ssa.Builtin); ok && (bi.Name() == "delete" || bi.Name() == "clear" || bi.Name() == "copy" || bi.Name() == "append") {
						write = true
					}
				}
			}
		}
		if !touched {
			return
		}
		a := accs[ins]
		if a == nil {
			a = &accRes{ins: ins, field: field, write: write}
			accs[ins] = a
			accOrder = append(accOrder, ins)
		}
		if held == "" {
			a.bad = "without holding " + lt.mfield
			a.path = st.pathString()
		} else if write && held == "R" && a.bad == "" {
			a.bad = "under the read lock only"
			a.path = st.pathString()
		}
	}
	w.onReturn = func(st *pstate, r *ssa.Return) {
		if !retSeen[r] {
			retSeen[r] = true
			retOrder = append(retOrder, r)
		}
		held := strings.TrimSuffix(st.aux, "d")
		deferred := strings.HasSuffix(st.aux, "d")
		if entry != "" {
			if held != entry || deferred {
				retBad[r] = "is entered with " + lt.mfield + " held by its callers but returns in a different lock state (" + st.pathString() + ")"
			}
		} else if held != "" && !deferred {
			retBad[r] = "returns with " + tname + "." + lt.mfield + " held (" + st.pathString() + ")"
		} else if held == "" && deferred {
			retBad[r] = "a deferred unlock runs on a path on which " + lt.mfield + " is not held (" + st.pathString() + ")"
		}
	}
	// a reference to guarded state may be returned only by a helper whose callers
	// all hold the lock at the call; the callers then treat the result as guarded
	if entry == "" {
		refRes := lockRefResults(lt, fn)
		var idxs []int
		for i := range refRes {
			idxs = append(idxs, i)
		}
		sort.Ints(idxs)
		for _, i := range idxs {
			misuses = append(misuses, misuse{"?guarded " + refRes[i] + " returned", "the " + refRes[i] + " reference itself leaves a method that is not a lock-holding helper; later uses are outside the lock", P.Pos(fn.Pos()), ""})
		}
	}
	w.run()
	if w.overflow {
		c.Undecided(fn, P.Pos(fn.Pos()), "paths", "path exploration exceeded its bound")
		return
	}
	for _, ins := range accOrder {
		a := accs[ins]
		kind := "read"
		if a.write {
			kind = "write"
		}
		// escapes of the guarded reference
		switch ins.(type) {
		case *ssa.Phi, *ssa.MakeClosure:
			c.Undecided(fn, P.InstrPos(ins), "guarded "+a.field+" escapes", "reference to guarded state flows into a φ or closure")
			continue
		case *ssa.Store:
			if s := ins.(*ssa.Store); guardedRef[s.Val] != "" {
				c.Undecided(fn, P.InstrPos(ins), "guarded "+a.field+" escapes", "reference to guarded state is stored elsewhere")
				continue
			}
		}
		what := fmt.Sprintf("%s of %s.%s in %s", kind, tname, a.field, ir.FuncName(fn))
		if a.bad != "" {
			construct := "unlocked " + kind + " of " + a.field
			if strings.HasPrefix(a.bad, "under the read lock") {
				construct = kind + " of " + a.field + " under the read lock"
			}
			c.Violation(fn, P.InstrPos(ins), construct,
				fmt.Sprintf("%s accesses %s.%s %s on some path: concurrent Load/Store race on the map", ir.FuncName(fn), tname, a.field, a.bad), a.path)
		} else {
			why := lt.mfield + " held on every path"
			if entry != "" {
				why += " (helper: every caller holds it at the call)"
			}
			c.OK(P.InstrPos(ins), what, why, false)
		}
	}
	for _, r := range retOrder {
		if msg, bad := retBad[r]; bad {
			c.Violation(fn, P.InstrPos(r), "return with "+lt.mfield+" unbalanced", ir.FuncName(fn)+" "+msg+": the next Load or Store blocks forever")
		} else {
			c.OK(P.InstrPos(r), "return of "+ir.FuncName(fn), "mutex released (or never taken) on every path to it", !usesLock)
		}
	}
	for _, m := range misuses {
		if strings.HasPrefix(m.construct, "?") || strings.HasPrefix(m.construct, "defer ") || strings.HasPrefix(m.construct, "go ") {
			c.Undecided(fn, m.pos, m.construct, m.msg, m.path)
		} else {
			c.Violation(fn, m.pos, m.construct, m.msg, m.path)
		}
	}
}

// implementsStorageIface: T or *T implements mast.Persist or mast.NodeCache.
func implementsStorageIface(P *ir.Program, named *types.Named) bool {
	for _, in := range []string{"Persist", "NodeCache"} {
		n := P.Named(ir.MastPath, in)
		if n == nil {
			continue
		}
		iface, ok := n.Underlying().(*types.Interface)
		if !ok {
			continue
		}
		if types.Implements(named, iface) || types.Implements(types.NewPointer(named), iface) {
			return true
		}
	}
	return false
}

// lockReadOnlyField: field f of the guarded type is assigned only while the
// value is being constructed (stores into a freshly allocated value outside
// the type's methods) and its type carries no mutable state of its own that
// the methods could change through it (interface, string, number, bool,
// func): such a field is immutable once the value is shared, so reading it
// needs no lock.
func lockReadOnlyField(c *Ctx, lt lockedType, f string) bool {
	var ft types.Type
	for i := 0; i < lt.st.NumFields(); i++ {
		if lt.st.Field(i).Name() == f {
			ft = lt.st.Field(i).Type()
		}
	}
	if ft == nil {
		return false
	}
	switch ft.Underlying().(type) {
	case *types.Interface, *types.Basic, *types.Signature:
	default:
		return false
	}
	for _, fn := range c.P.Funcs {
		if fn.Pkg.Pkg.Path() != lt.pkg {
			continue
		}
		for _, b := range fn.Blocks {
			for _, ins := range b.Instrs {
				switch x := ins.(type) {
				case *ssa.Store:
					// whole-value store into a shared T
					if pt, ok := x.Addr.Type().Underlying().(*types.Pointer); ok && types.Identical(pt.Elem(), lt.named) {
						if _, fresh := x.Addr.(*ssa.Alloc); !fresh {
							return false
						}
					}
					fa, ok := x.Addr.(*ssa.FieldAddr)
					if !ok || !lt.isPtrTo(fa.X.Type()) || ir.FieldName(fa.X.Type(), fa.Field) != f {
						continue
					}
					if _, fresh := fa.X.(*ssa.Alloc); !fresh || fn.Signature.Recv() != nil {
						return false
					}
				case *ssa.FieldAddr:
					// the field's address must not escape (only loads and constructor stores)
					if !lt.isPtrTo(x.X.Type()) || ir.FieldName(x.X.Type(), x.Field) != f || x.Referrers() == nil {
						continue
					}
					for _, r := range *x.Referrers() {
						switch y := r.(type) {
						case *ssa.UnOp, *ssa.DebugRef:
						case *ssa.Store:
							if y.Addr != ssa.Value(x) {
								return false
							}
						default:
							return false
						}
					}
				}
			}
		}
	}
	return true
}
