package rules

import (
	"fmt"
	"go/constant"
	"go/token"
	"go/types"
	"strings"

	"golang.org/x/tools/go/ssa"

	"mastcheck/ir"
)

// Rules about MakeRoot/flush: the completion barrier, error surfacing, the
// root swap, clean-marking, publication to other goroutines, cache keys.

func init() {
	Register(&Rule{ID: "BARRIER", Props: []string{"C03"}, Min: 8,
		Doc: "WaitGroup barrier protocol of flush, for every completion order of the concurrent writers: (1) each go is preceded by its own " +
			"wg.Add in the spawning goroutine; (2) each spawned body calls wg.Done on every exit; (3) every nil-error return after the first go " +
			"is dominated by wg.Wait; (4) close(queue) follows the last enqueue and precedes Wait; (5) after Wait the error cell is read and its " +
			"non-nil edge returns an error, dominating success; (6) the worker records a non-nil result of the queued closure in the cell; " +
			"(7) the cell is accessed only under the mutex or after Wait; (8) every semaphore acquire is released on every worker exit.",
		Run: runBARRIER})
	Register(&Rule{ID: "ERRPROP", Props: []string{"C03"}, Min: 1,
		Doc: "the closure queued for the writers returns a non-nil error whenever Persist.Store does, and flush returns the error of the recursive node store: " +
			"no nil-error return is reachable on the non-nil edge of those results.",
		Run: runERRPROPFlush})
	Register(&Rule{ID: "ROOTSWAP", Props: []string{"C03", "C13"}, Min: 1,
		Doc: "flush replaces Mast.root by the returned name only after wg.Wait and on the success edge of both error tests; the stored value is the name returned.",
		Run: runROOTSWAP})
	Register(&Rule{ID: "FLUSHNAME", Props: []string{"C03", "C05"}, Min: 2,
		Doc: "the name flush reports with success is the one the node store returned for the root; the empty name (MakeRoot then records 'no root node') is reported only where the tree is known to be empty: under root == nil or under isEmpty(root node). " +
			"A success with the empty name anywhere else (no store configured, an early exit) makes MakeRoot hand out a Root that claims the tree's size but names no node.",
		Run: runFLUSHNAME})
	Register(&Rule{ID: "CLEANMARK", Props: []string{"C03"}, Min: 1,
		Doc: "the stores that mark a node as persisted (dirty=false, source=&name, shared=true, child pointer → name) must execute only after Persist.Store of that node returned nil " +
			"(control-dependent on its nil result, or after the barrier on the success edge).",
		Run: runCLEANMARK})
	Register(&Rule{ID: "PUB", Props: []string{"C11"}, Min: 0,
		Doc: "after a node pointer has been captured by a closure that is sent on a channel or started with go, the sender performs no further store to that node " +
			"(a happens-before edge exists only for writes that precede the hand-off).",
		Run: runPUB})
	Register(&Rule{ID: "CACHEAFTER", Props: []string{"C03", "C13", "C05"}, Min: 2,
		Doc: "a node enters the NodeCache only after the store is known to hold it: every NodeCache.Add is dominated by the nil-error edge of a Persist.Store or Persist.Load call of the same function " +
			"(the cache doubles as the 'already persisted' oracle that lets a later flush skip the write).",
		Run: runCACHEAFTER})
	Register(&Rule{ID: "CACHEKEY", Props: []string{"C03", "C02", "C01", "C19"}, Min: 4,
		Doc: "every NodeCache call builds its key as Sprintf(\"%s/%s\", P.NodeURLPrefix(), name) from the same Persist value P that the function uses for Load/Store and the same name it loads/stores, " +
			"so a cache shared between stores with different prefixes never short-circuits a write or serves a foreign node.",
		Run: runCACHEKEY})
}

// ---- helpers -----------------------------------------------------------------

// syncCall: is ci a call/defer of method `name` of sync type `typ` (e.g.
// WaitGroup.Add)? Returns the receiver operand.
func syncCall(ci ssa.CallInstruction, typ, name string) (ssa.Value, bool) {
	com := ci.Common()
	sc := ir.Callee(com)
	if sc == nil || sc.Name() != name || sc.Signature.Recv() == nil || len(com.Args) == 0 {
		return nil, false
	}
	rt := sc.Signature.Recv().Type()
	if p, ok := rt.(*types.Pointer); ok {
		rt = p.Elem()
	}
	n, ok := rt.(*types.Named)
	if !ok || n.Obj().Pkg() == nil || n.Obj().Pkg().Path() != "sync" || n.Obj().Name() != typ {
		return nil, false
	}
	return com.Args[0], true
}

func builtinCall(ins ssa.Instruction, name string) (*ssa.CallCommon, bool) {
	ci, ok := ins.(ssa.CallInstruction)
	if !ok {
		return nil, false
	}
	b, ok := ci.Common().Value.(*ssa.Builtin)
	if !ok || b.Name() != name {
		return nil, false
	}
	return ci.Common(), true
}

// sameValue: v is r, or a load that the last store in the same block set to r.
func sameValue(v, r ssa.Value) bool {
	if v == r {
		return true
	}
	if ld, ok := v.(*ssa.UnOp); ok && ld.Op == token.MUL {
		if st := lastStoreTo(ld, ir.Sym(ld.X)); st != nil && st.Val == r {
			return true
		}
	}
	return false
}

// nilFactOn: does block b lie under a dominating fact "r == nil" (wantNil) or
// "r != nil"?
func nilFactOn(b *ssa.BasicBlock, r ssa.Value, wantNil bool) bool {
	for _, f := range ir.FactsAt(b) {
		tv, tnn, ok := ir.NilTest(f.Cond)
		if !ok || !sameValue(tv, r) {
			continue
		}
		isNonNil := f.Truth == tnn
		if isNonNil != wantNil {
			return true
		}
	}
	return false
}

// ---- ERRPROP (flush part) -------------------------------------------------------

// overwrittenAt is set by errorPropagated when the pending error is lost because control loops back to the call that
// produced it (the returned *ssa.Return is then only a placeholder for the position).
var overwrittenAt ssa.Instruction

// errorPropagated checks that no nil-error return of fn is reachable from the
// call `after` without taking the nil edge of a test of its error result r:
// a search from the call that does not cross `r == nil` edges (those paths
// are the success continuation) must reach only returns that carry r or a
// non-nil error.
func errorPropagated(fn *ssa.Function, after ssa.Instruction, r ssa.Value) (bool, *ssa.Return) {
	overwrittenAt = nil
	ei := ir.ErrorResultIndex(fn.Signature)
	if ei < 0 {
		return false, nil
	}
	// values that are r or a phi merging r
	carries := map[ssa.Value]bool{r: true}
	for changed := true; changed; {
		changed = false
		for _, b := range fn.Blocks {
			for _, ins := range b.Instrs {
				if phi, ok := ins.(*ssa.Phi); ok && !carries[phi] {
					for _, e := range phi.Edges {
						if carries[e] {
							carries[phi] = true
							changed = true
						}
					}
				}
			}
		}
	}
	// r kept in a variable cell (a captured or address-taken `err`): later loads of the cell are r,
	// as long as they are dominated by the store of r and no other store to the cell can come between
	cellOfR := map[*ssa.Alloc]*ssa.Store{}
	for _, b := range fn.Blocks {
		for _, ins := range b.Instrs {
			if st, ok := ins.(*ssa.Store); ok && carries[st.Val] {
				if cell := ir.CellOf(st.Addr); cell != nil {
					cellOfR[cell] = st
				}
			}
		}
	}
	isR := func(v ssa.Value) bool {
		if carries[v] {
			return true
		}
		for c := range carries {
			if sameValue(v, c) {
				return true
			}
		}
		if ld, ok := v.(*ssa.UnOp); ok && ld.Op == token.MUL {
			if cell := ir.CellOf(ld); cell != nil {
				if st := cellOfR[cell]; st != nil && st.Parent() == ld.Parent() && (ir.Before(st, ld) || ir.InstrReaches(st, ld)) {
					clean := true
					for _, b := range fn.Blocks {
						for _, ins := range b.Instrs {
							if o, ok := ins.(*ssa.Store); ok && o != st && ir.CellOf(o.Addr) == cell && ir.InstrReaches(st, o) && ir.InstrReaches(o, ld) {
								clean = false
							}
						}
					}
					return clean
				}
			}
		}
		return false
	}
	start := after.Block()
	seen := map[*ssa.BasicBlock]bool{}
	var bad *ssa.Return
	var visit func(b *ssa.BasicBlock, from int)
	visit = func(b *ssa.BasicBlock, from int) {
		if bad != nil {
			return
		}
		if from == 0 {
			if seen[b] {
				return
			}
			seen[b] = true
		}
		for i := from; i < len(b.Instrs); i++ {
			if b.Instrs[i] == after && from == 0 {
				// back at the call itself with its previous error still pending (a loop that goes round without
				// returning it): the next result overwrites it
				overwrittenAt = after
				if rets := ir.Returns(fn); len(rets) > 0 {
					bad = rets[len(rets)-1]
				}
				return
			}
			switch x := b.Instrs[i].(type) {
			case *ssa.Return:
				op := x.Results[ei]
				if isR(op) || ir.Origin(op) == ir.Origin(r) {
					return
				}
				op = ir.ForwardLoad(op) // named results kept in cells: `*err = v; t = *err; return t`
				if isR(op) || ir.Origin(op) == ir.Origin(r) {
					return
				}
				switch y := op.(type) {
				case *ssa.MakeInterface:
					return // constructed (non-nil) error
				case *ssa.Call:
					// a constructor of errors yields a non-nil one; any other call (ctx.Err(), a helper that may
					// answer nil) does not: returning its result where r is non-nil can report success
					if sc := ir.Callee(y.Call); sc != nil && (sc.String() == "fmt.Errorf" || sc.String() == "errors.New") {
						return
					}
					if sc := ir.Callee(y.Call); sc != nil && sc.Blocks != nil {
						nonNil := true
						hei := ir.ErrorResultIndex(sc.Signature)
						for _, hr := range ir.Returns(sc) {
							if hei < 0 || hei >= len(hr.Results) {
								nonNil = false
								continue
							}
							switch z := hr.Results[hei].(type) {
							case *ssa.MakeInterface:
							case *ssa.Call:
								if zc := ir.Callee(z.Call); zc == nil || (zc.String() != "fmt.Errorf" && zc.String() != "errors.New") {
									nonNil = false
								}
							default:
								nonNil = false
							}
						}
						if nonNil && sc.Signature.Results().Len() == 1 {
							return // a wrapping helper of the repository that always builds an error
						}
						// a helper that is handed r and passes it on, answering nil only for the stop sentinel
						// (endOfIter(err): ErrIterDone asks to stop and is not a failure)
						for ai, a := range y.Call.Args {
							if !(isR(a) || ir.Origin(a) == ir.Origin(r)) || ai >= len(sc.Params) || hei < 0 {
								continue
							}
							prm := sc.Params[ai]
							passes := true
							for _, hr := range ir.Returns(sc) {
								if hei >= len(hr.Results) {
									passes = false
									continue
								}
								rv := ir.ResolveCell(hr.Results[hei])
								if rv == ssa.Value(prm) {
									continue
								}
								if mi, ok := rv.(*ssa.MakeInterface); ok && mi != nil {
									continue
								}
								if zc, ok := rv.(*ssa.Call); ok {
									if zf := ir.Callee(zc.Call); zf != nil && (zf.String() == "fmt.Errorf" || zf.String() == "errors.New") {
										continue
									}
								}
								okNil := false
								if ir.IsNilConst(rv) {
									okNil = ir.FlowFact(hr, func(f ir.Fact) bool {
										bin, isBin := f.Cond.(*ssa.BinOp)
										if !isBin || !((bin.Op == token.EQL && f.Truth) || (bin.Op == token.NEQ && !f.Truth)) {
											return false
										}
										var other ssa.Value
										if ir.ResolveCell(bin.X) == ssa.Value(prm) {
											other = bin.Y
										} else if ir.ResolveCell(bin.Y) == ssa.Value(prm) {
											other = bin.X
										}
										return other != nil && (isSentinel(other) && sentinelMayStopHere(fn, other) || ir.IsNilConst(other))
									}, func(ssa.Instruction) bool { return false })
								}
								if !okNil {
									passes = false
								}
							}
							if passes {
								return
							}
						}
					}
				}
				if isSentinel(op) {
					return // a package-level error value
				}
				if ir.IsNilConst(op) {
					bad = x
					return
				}
				// another error value (a different call's result, a loaded cell): it is
				// returned on its own non-nil edge; not a dropped r unless it may be nil here
				if nilFactOn(b, op, false) {
					return
				}
				bad = x
				return
			case *ssa.If:
				// comparison with a sentinel (ErrIterDone, ErrNoMoreDiffs): the equal
				// edge is the documented stop protocol, not a dropped error
				if bin, isBin := x.Cond.(*ssa.BinOp); isBin && (bin.Op == token.EQL || bin.Op == token.NEQ) {
					var other ssa.Value
					if isR(bin.X) {
						other = bin.Y
					} else if isR(bin.Y) {
						other = bin.X
					}
					if other != nil && isSentinel(other) && sentinelMayStopHere(fn, other) {
						if bin.Op == token.EQL {
							visit(b.Succs[1], 0)
						} else {
							visit(b.Succs[0], 0)
						}
						return
					}
				}
				if call, isCall := x.Cond.(*ssa.Call); isCall {
					if sc := ir.Callee(call.Call); sc != nil && sc.String() == "errors.Is" && len(call.Call.Args) == 2 &&
						isR(ir.Strip(call.Call.Args[0])) && isSentinel(ir.Strip(call.Call.Args[1])) && sentinelMayStopHere(fn, ir.Strip(call.Call.Args[1])) {
						visit(b.Succs[1], 0) // not the sentinel: keep looking; the sentinel edge is the stop protocol
						return
					}
				}
				// a branch on another result of the same call which the callee ties to its error (`stop, err := notify(..)`
				// where every failing return of notify answers stop==true): the other edge is a nil-error edge
				if succ, tiedTo := errTiedResultEdge(after, r, x.Cond); tiedTo {
					visit(b.Succs[succ], 0)
					return
				}
				tv, tnn, ok := ir.NilTest(x.Cond)
				if ok && isR(tv) {
					// follow only the non-nil edge
					if tnn {
						visit(b.Succs[0], 0)
					} else {
						visit(b.Succs[1], 0)
					}
					return
				}
			case *ssa.Panic:
				return
			}
		}
		for _, s := range b.Succs {
			visit(s, 0)
		}
	}
	visit(start, ir.InstrIndex(after)+1)
	return bad == nil, bad
}

// errTiedResultEdge: cond branches on a boolean result of the call `after` (possibly negated) other than its error
// result r, and the callee — a function or a closure called in place, whose body is known — returns one and the same
// boolean constant in that position on every return whose error is not the nil constant. Then the error can be
// non-nil only on the edge where the result has that constant: succ is the index of that successor.
func errTiedResultEdge(after ssa.Instruction, r ssa.Value, cond ssa.Value) (succ int, ok bool) {
	call, isCall := after.(*ssa.Call)
	rex, isEx := r.(*ssa.Extract)
	if !isCall || !isEx || rex.Tuple != ssa.Value(call) {
		return 0, false
	}
	neg := false
	for {
		u, isU := cond.(*ssa.UnOp)
		if !isU || u.Op != token.NOT {
			break
		}
		cond, neg = u.X, !neg
	}
	ex, isEx := cond.(*ssa.Extract)
	if !isEx || ex.Tuple != ssa.Value(call) || ex.Index == rex.Index {
		return 0, false
	}
	callee := calleeOrClosure(&call.Call)
	if callee == nil || callee.Blocks == nil {
		return 0, false
	}
	for _, b := range callee.Blocks {
		for _, ins := range b.Instrs {
			switch ins.(type) {
			case *ssa.Defer, *ssa.RunDefers:
				return 0, false // a deferred function may change the results after the return statement
			}
		}
	}
	rets := ir.Returns(callee)
	n, val := 0, false
	for _, hr := range rets {
		if ex.Index >= len(hr.Results) || rex.Index >= len(hr.Results) {
			return 0, false
		}
		if ir.IsNilConst(ir.ForwardLoad(hr.Results[rex.Index])) {
			continue
		}
		k, isK := ir.ConstBool(ir.ForwardLoad(hr.Results[ex.Index]))
		if !isK || (n > 0 && k != val) {
			return 0, false
		}
		n, val = n+1, k
	}
	if n == 0 {
		return 0, false
	}
	// error non-nil => result == val => cond == (val != neg)
	if val != neg {
		return 0, true
	}
	return 1, true
}

// storeSites: the places of package mast that hand a name and bytes to Persist.Store. A pure pass-through wrapper
// (a delegating Persist in the root package) is not one: its callers are (own_util.go).
func storeSites(c *Ctx) []ssa.CallInstruction { return writerStoreSites(c) }

func runERRPROPFlush(c *Ctx) {
	P := c.P
	for _, ci := range storeSites(c) {
		fn := ci.Parent()
		call, ok := ci.(*ssa.Call)
		if !ok {
			c.Violation(fn, P.InstrPos(ci), "Persist.Store result discarded", "Persist.Store is started with go/defer: its error cannot be returned")
			continue
		}
		if call.Referrers() == nil || len(*call.Referrers()) == 0 {
			c.Violation(fn, P.InstrPos(ci), "Persist.Store error dropped", "the error returned by Persist.Store is not used: a failed write is reported as success")
			continue
		}
		if ok, ret := errorPropagated(fn, call, call); ok {
			c.OK(P.InstrPos(ci), "error of Persist.Store in "+ir.FuncName(fn), "every return reachable on its non-nil edge carries a non-nil error", false)
		} else {
			c.Violation(fn, P.InstrPos(ret), "Persist.Store error dropped", "a nil-error return is reachable when Persist.Store failed: MakeRoot reports success although a node was not written")
		}
		// … and the closure reports success only for a write it has made: every return of a nil error in the function
		// that holds the store site is reached through the Persist.Store call (adv16-D-a2: "another flush of this
		// process is uploading this node right now: return nil" — the other upload may still fail, or not be done when
		// this MakeRoot returns)
		if ei := ir.ErrorResultIndex(fn.Signature); ei >= 0 {
			for _, r := range ir.Returns(fn) {
				if ei >= len(r.Results) || !ir.IsNilConst(r.Results[ei]) {
					continue
				}
				through := ir.FlowHeld(r, func(i ssa.Instruction) bool { return i == ssa.Instruction(call) }, func(ssa.Instruction) bool { return false })
				if through {
					c.OK(P.InstrPos(r), "success return of "+ir.FuncName(fn), "reached only through the Persist.Store call", false)
				} else {
					c.Violation(fn, P.InstrPos(r), "write closure reports success without having written",
						"a return of a nil error in "+ir.FuncName(fn)+" is reachable on a path that does not pass the Persist.Store call: the writer reports this node as written on the strength of something else (a memo of uploads in flight, a flag), so MakeRoot can succeed while the node is not — or not yet — in the store")
				}
			}
		}
	}
	// flush returns the error of the recursive node store
	sh := findFlush(c)
	if sh == nil {
		return
	}
	for _, ci := range CallsOf(sh.F) {
		for _, callee := range c.Facts.Callees(ci) {
			if callee != flushNodeStore(c) && (!c.Facts.MayStore[callee] || callee.Parent() != nil) {
				continue
			}
			ei := ir.ErrorResultIndex(callee.Signature)
			call, isCall := ci.(*ssa.Call)
			if ei < 0 || !isCall {
				continue
			}
			var errV ssa.Value
			if call.Referrers() != nil {
				for _, r := range *call.Referrers() {
					if ex, ok := r.(*ssa.Extract); ok && ex.Index == ei {
						errV = ex
					}
				}
			}
			if errV == nil {
				c.Violation(sh.F, P.InstrPos(ci), "error of "+callee.Name()+" dropped", "the error of the recursive node store is ignored by flush")
				continue
			}
			if ok, ret := errorPropagated(sh.F, call, errV); ok {
				c.OK(P.InstrPos(ci), "error of "+ir.FuncName(callee)+" in "+ir.FuncName(sh.F), "propagated", false)
			} else {
				c.Violation(sh.F, P.InstrPos(ret), "error of "+callee.Name()+" dropped", "flush can return success although encoding/queuing a node failed")
			}
		}
	}
}

// ---- ROOTSWAP ----------------------------------------------------------------------

func runROOTSWAP(c *Ctx) {
	P := c.P
	sh := findFlush(c)
	if sh == nil || sh.wait == nil {
		return
	}
	F := sh.F
	n := 0
	for _, b := range F.Blocks {
		for _, ins := range b.Instrs {
			st, ok := ins.(*ssa.Store)
			if !ok {
				continue
			}
			fa, ok := st.Addr.(*ssa.FieldAddr)
			if !ok || !ir.IsPtrToNamed(fa.X.Type(), "Mast") || ir.FieldName(fa.X.Type(), fa.Field) != "root" {
				continue
			}
			n++
			pos := P.InstrPos(st)
			if !ir.Before(sh.wait, st) {
				c.Violation(F, pos, "root swapped before wg.Wait", "the tree's root is replaced by the new name before the writes are known to have completed: on a failed store the tree points at nodes that were never written")
				continue
			}
			// dominated by nil facts on every error in scope: the may-store call's error and the cell
			bad := ""
			for _, ci := range CallsOf(F) {
				call, isCall := ci.(*ssa.Call)
				if !isCall {
					continue
				}
				for _, callee := range c.Facts.Callees(ci) {
					if callee != flushNodeStore(c) && (!c.Facts.MayStore[callee] || callee.Parent() != nil) {
						continue
					}
					ei := ir.ErrorResultIndex(callee.Signature)
					if call.Referrers() == nil || ei < 0 {
						continue
					}
					for _, r := range *call.Referrers() {
						if ex, ok := r.(*ssa.Extract); ok && ex.Index == ei && !nilFactOn(st.Block(), ex, true) {
							bad = "the error of " + callee.Name()
						}
						// the stored value must be the name returned by that call
						if ex, ok := r.(*ssa.Extract); ok && ex.Index == 0 {
							if ir.Origin(st.Val) != ssa.Value(ex) {
								bad = "the stored value is not the name returned by " + callee.Name()
							}
						}
					}
				}
			}
			cellOK := false
			for _, f := range ir.FactsAt(st.Block()) {
				tv, tnn, isNil := ir.NilTest(f.Cond)
				if isNil && f.Truth != tnn {
					if ek := sh.errKey(); ek != "" && sh.cellAfterWait(tv, func(a ssa.Value) bool { return objKey(a) == ek }) {
						cellOK = true
					}
				}
			}
			if !cellOK && bad == "" {
				bad = "the writers' error cell"
			}
			if bad != "" {
				c.Violation(F, pos, "root swapped without success test", "Mast.root is replaced although "+bad+" has not been tested nil on this path")
			} else {
				c.OK(pos, "m.root = name in "+ir.FuncName(F), "after Wait, on the success edge of both error tests, value is the returned name", false)
			}
		}
	}
	if n == 0 {
		c.Violation(F, P.Pos(F.Pos()), "root not swapped", "flush no longer replaces the root by its name: every later MakeRoot re-walks (and IsDirty/clean-skip lose their anchor)")
	}
	// the swap has to happen in the tree MakeRoot was called on: the persisting function runs on MakeRoot's own
	// receiver, not on a copy or a clone of it (whose root is swapped and then thrown away, so the tree itself stays
	// dirty and every later MakeRoot writes everything again)
	if mk := c.MustFunc("(*Mast).MakeRoot"); mk != nil {
		reach := c.Facts.Reach(mk)
		for _, cs := range c.P.Callers[F] {
			caller := cs.Parent()
			if !reach[ir.Outermost(caller)] && ir.Outermost(caller) != mk {
				continue
			}
			args := cs.Common().Args
			if len(args) == 0 || len(caller.Params) == 0 {
				continue
			}
			recv := ir.ResolveCell(args[0])
			if p, ok := recv.(*ssa.Parameter); ok && p == caller.Params[0] && ir.IsPtrToNamed(p.Type(), "Mast") {
				c.OK(P.InstrPos(cs), ir.FuncName(caller)+" persists its own receiver", "the persisting function is called on the parameter the tree came in as", false)
			} else {
				c.Violation(caller, P.InstrPos(cs), "a copy of the tree is persisted instead of the tree",
					"the function that writes the nodes and swaps the root runs on "+pathDesc(ir.Sym(args[0]))+", not on the tree MakeRoot was called on: the copy becomes clean and is dropped, the tree itself keeps its unsaved nodes, IsDirty stays true and every later MakeRoot rewrites everything modified since the tree was loaded")
			}
		}
	}
}

// ---- CLEANMARK ------------------------------------------------------------------------

func runCLEANMARK(c *Ctx) {
	P := c.P
	sites := storeSites(c)
	if len(sites) == 0 {
		c.AnchorMissing("Persist.Store call site")
		return
	}
	A := c.Facts.Own()
	for _, site := range sites {
		outer := ir.Outermost(site.Parent())
		// marking writes in the outer function (the node store) and its closures
		var early []string
		var firstPos string
		fns := []*ssa.Function{outer}
		fns = append(fns, allAnon(outer)...)
		for _, w := range A.Writes {
			in := false
			for _, f := range fns {
				if w.Fn == f {
					in = true
				}
			}
			if !in || w.Class.Own == Fresh || ir.DeadByConst(w.Instr.Block()) {
				continue
			}
			mark := ""
			if st, ok := w.Instr.(*ssa.Store); ok {
				switch w.Field {
				case "dirty":
					if v, isC := ir.ConstBool(st.Val); isC && !v {
						mark = "dirty=false"
					}
				case "shared":
					if v, isC := ir.ConstBool(st.Val); isC && v {
						mark = "shared=true"
					}
				case "source":
					if !ir.IsNilConst(st.Val) {
						mark = "source=&name"
					}
				case "Link":
					if w.Kind == "elem" {
						mark = "child pointer → name"
					}
				}
			}
			if mark == "" {
				continue
			}
			// fine only if control-dependent on the nil result of the Store call
			okAfter := false
			if call, isCall := site.(*ssa.Call); isCall && w.Fn == site.Parent() && nilFactOn(w.Instr.Block(), call, true) {
				okAfter = true
			}
			if okAfter {
				c.OK(P.InstrPos(w.Instr), "marking "+mark+" in "+ir.FuncName(w.Fn), "on the nil edge of Persist.Store", false)
				continue
			}
			if firstPos == "" {
				firstPos = P.InstrPos(w.Instr)
			}
			early = append(early, mark)
		}
		if len(early) > 0 {
			c.Violation(outer, firstPos, "marks node persisted before Persist.Store succeeded",
				"the node is marked clean/persisted ("+strings.Join(dedup(early), ", ")+") when its write is queued, not when it has succeeded: after a failed Store the tree keeps names of nodes that were never written, "+
					"cannot be iterated, and a retry of MakeRoot skips them and returns a root that is not in the store")
		} else {
			c.OK(P.InstrPos(site), "clean-marking relative to Persist.Store in "+ir.FuncName(outer), "no marking store precedes success", false)
		}
	}
}

func allAnon(fn *ssa.Function) []*ssa.Function {
	var out []*ssa.Function
	for _, a := range fn.AnonFuncs {
		out = append(out, a)
		out = append(out, allAnon(a)...)
	}
	return out
}

func dedup(xs []string) []string {
	seen := map[string]bool{}
	var out []string
	for _, x := range xs {
		if !seen[x] {
			seen[x] = true
			out = append(out, x)
		}
	}
	return out
}

// ---- PUB ------------------------------------------------------------------------------------

func runPUB(c *Ctx) {
	P := c.P
	A := c.Facts.Own()
	n := 0
	for _, fn := range P.Funcs {
		if fn.Pkg.Pkg.Path() != ir.MastPath {
			continue
		}
		for _, b := range fn.Blocks {
			for _, ins := range b.Instrs {
				var clos *ssa.MakeClosure
				switch x := ins.(type) {
				case *ssa.Send:
					clos, _ = x.X.(*ssa.MakeClosure)
				case *ssa.Go:
					clos, _ = x.Call.Value.(*ssa.MakeClosure)
				}
				if clos == nil {
					continue
				}
				// node values captured
				for _, bind := range clos.Bindings {
					var node ssa.Value
					if isNodePtr(bind.Type()) {
						node = bind
					} else if a, ok := bind.(*ssa.Alloc); ok {
						if pt, ok := a.Type().Underlying().(*types.Pointer); ok && isNodePtr(pt.Elem()) {
							if st := ir.SingleStore(a); st != nil {
								node = st.Val
							} else {
								node = a
							}
						}
					}
					if node == nil {
						continue
					}
					n++
					var late []string
					var firstPos string
					for _, w := range A.Writes {
						if w.Fn != fn || ir.DeadByConst(w.Instr.Block()) {
							continue
						}
						if ir.Sym(ir.ResolveCell(w.Base)) != ir.Sym(ir.ResolveCell(node)) && ir.Origin(w.Base) != ir.Origin(node) {
							continue
						}
						if ir.InstrReaches(ins, w.Instr) && w.Instr != ins {
							late = append(late, "."+w.Field)
							if firstPos == "" {
								firstPos = P.InstrPos(w.Instr)
							}
						}
					}
					if len(late) > 0 {
						c.Violation(fn, firstPos, "node written after hand-off to another goroutine",
							fmt.Sprintf("after the closure holding %s was handed to another goroutine (%s), %s still writes %s of that node; the receiving goroutine publishes the node through NodeCache.Add, so readers in other goroutines race with these writes",
								ir.Sym(node), P.InstrPos(ins), ir.FuncName(fn), strings.Join(dedup(late), ", ")))
					} else {
						c.OK(P.InstrPos(ins), "hand-off of "+ir.Sym(node)+" in "+ir.FuncName(fn), "no write to the node is reachable after the hand-off", false)
					}
				}
			}
		}
	}
	if n == 0 {
		c.Note("no closure capturing a node is sent or started")
	}
}

// ---- CACHEKEY ----------------------------------------------------------------------------------

func runCACHEKEY(c *Ctx) {
	P := c.P
	var checkKey func(fn *ssa.Function, at ssa.Instruction, keyV ssa.Value, ext string, depth int)
	checkKey = func(fn *ssa.Function, at ssa.Instruction, keyV ssa.Value, ext string, depth int) {
		pos := P.InstrPos(at)
		what := ext + " in " + ir.FuncName(fn)
		// the key handed in by the caller of a small cache helper (cachedNode(cacheKey)): decided at its call sites
		if p, isP := ir.Strip(ir.ResolveCell(ir.Origin(keyV))).(*ssa.Parameter); isP && p.Parent() == fn && depth < 2 &&
			fn.Parent() == nil && fn.Object() != nil && !fn.Object().Exported() && !c.Facts.addrTaken[fn] && len(P.Callers[fn]) > 0 {
			for _, cs := range P.Callers[fn] {
				args := cs.Common().Args
				if paramIndex(p) < len(args) {
					checkKey(cs.Parent(), cs, args[paramIndex(p)], ext+" (through "+fn.Name()+")", depth+1)
				}
			}
			return
		}
		parts, fs, env := keyParts(ir.Origin(keyV))
		if parts == nil {
			c.Violation(fn, pos, ext+" key not built from (prefix, name)", "the cache key is not the store prefix joined with the node name (Sprintf or concatenation): a cache shared between stores can short-circuit a write or serve a node of another store")
			return
		}
		// map values of a key-building helper back to the arguments it was called with
		back := func(v ssa.Value) ssa.Value {
			for i := 0; i < 4; i++ {
				p, isP := ir.Strip(ir.ResolveCell(v)).(*ssa.Parameter)
				if !isP || env[p] == nil {
					break
				}
				v = env[p]
			}
			return v
		}
		// part 0: P.NodeURLPrefix() ; part 1: the name
		pfx, _ := ir.Origin(back(parts[0])).(*ssa.Call)
		if pfx == nil || !pfx.Call.IsInvoke() || pfx.Call.Method.Name() != "NodeURLPrefix" {
			c.Violation(fn, pos, ext+" key without store prefix", "the first component of the cache key is not Persist.NodeURLPrefix(): nodes of different stores collide in a shared cache")
			return
		}
		// the Persist value and name used for Load/Store in the same outer function
		outer := ir.Outermost(fn)
		matched, other := false, ""
		for _, g := range append([]*ssa.Function{outer}, allAnon(outer)...) {
			for _, cj := range CallsOf(g) {
				e := c.Facts.External(cj)
				if e != "Persist.Load" && e != "Persist.Store" {
					continue
				}
				samePersist := ir.SameOrigin(cj.Common().Value, back(pfx.Call.Value))
				sameName := ir.SameOrigin(cj.Common().Args[1], back(parts[1]))
				if samePersist && sameName {
					matched = true
				} else if !samePersist {
					other = "the prefix comes from a different Persist value than the one used for " + e
				} else {
					other = "the name in the key is not the name passed to " + e
				}
			}
		}
		// the store access extracted into a private helper (`m.fetchNode(ctx, l)` around persist.Load): its Persist
		// value and name, written as access paths over the helper's parameters, are rewritten into the terms of the call
		if !matched && pfx.Parent() == outer {
			wantP, wantN := ir.Sym(back(pfx.Call.Value)), ir.Sym(back(parts[1]))
			if !strings.Contains(wantP, "@") && !strings.Contains(wantN, "@") {
				for _, hc := range CallsOf(outer) {
					h := privateHelperOf(c, hc)
					if h == nil {
						continue
					}
					for _, cj := range CallsOf(h) {
						e := c.Facts.External(cj)
						if e != "Persist.Load" && e != "Persist.Store" {
							continue
						}
						ps, ok1 := symInCaller(h, hc.Common().Args, ir.Sym(cj.Common().Value))
						ns, ok2 := symInCaller(h, hc.Common().Args, ir.Sym(cj.Common().Args[1]))
						samePersist := ok1 && ps == wantP
						sameName := ok2 && ns == wantN
						if samePersist && sameName {
							matched = true
						} else if !samePersist {
							other = "the prefix comes from a different Persist value than the one used for " + e + " (in " + h.Name() + ")"
						} else {
							other = "the name in the key is not the name passed to " + e + " (in " + h.Name() + ")"
						}
					}
				}
			}
		}
		if matched {
			c.OK(pos, what, "key = Sprintf("+fs+", P.NodeURLPrefix(), name) with the same P and name as the Load/Store of "+ir.FuncName(outer), false)
		} else {
			if other == "" {
				other = "no Persist.Load/Store in " + ir.FuncName(outer) + " to compare with"
			}
			c.Violation(fn, pos, ext+" key does not match the store access", other)
		}
	}
	for _, fn := range P.Funcs {
		if fn.Pkg.Pkg.Path() != ir.MastPath {
			continue
		}
		for _, ci := range CallsOf(fn) {
			ext := c.Facts.External(ci)
			if !strings.HasPrefix(ext, "NodeCache.") {
				continue
			}
			checkKey(fn, ci, ci.Common().Args[0], ext, 0)
		}
	}
}

// varargValues returns the values stored into a varargs slice `[]any{a, b}`.
func varargValues(v ssa.Value) []ssa.Value {
	sl, ok := v.(*ssa.Slice)
	if !ok {
		return nil
	}
	al, ok := sl.X.(*ssa.Alloc)
	if !ok || al.Referrers() == nil {
		return nil
	}
	vals := map[int64]ssa.Value{}
	for _, r := range *al.Referrers() {
		ia, ok := r.(*ssa.IndexAddr)
		if !ok || ia.Referrers() == nil {
			continue
		}
		k, isK := ir.ConstInt(ia.Index)
		if !isK {
			return nil
		}
		for _, rr := range *ia.Referrers() {
			if st, ok := rr.(*ssa.Store); ok {
				vals[k] = st.Val
			}
		}
	}
	var out []ssa.Value
	for i := int64(0); i < int64(len(vals)); i++ {
		if vals[i] == nil {
			return nil
		}
		out = append(out, vals[i])
	}
	return out
}

// isSentinel: v is the value of a package-level error variable.
func isSentinel(v ssa.Value) bool {
	ld, ok := v.(*ssa.UnOp)
	if !ok || ld.Op != token.MUL {
		return false
	}
	g, ok := ld.X.(*ssa.Global)
	return ok && ir.IsErrorType(g.Type().Underlying().(*types.Pointer).Elem())
}

// cacheAfterHolds: instruction `at` of fn (a NodeCache.Add, or the call of a helper that makes one) lies on the
// nil-error edge of a Persist.Load / Persist.Store call of fn. An Add in a private helper that is only ever called
// (`m.cacheNode(key, node)`) is judged at each of the helper's call sites instead (depth ≤ 2).
func cacheAfterHolds(c *Ctx, fn *ssa.Function, at ssa.Instruction, depth int) (bool, string) {
	ok := false
	via := ""
	for _, cj := range CallsOf(fn) {
		e := c.Facts.External(cj)
		if e != "Persist.Load" && e != "Persist.Store" {
			continue
		}
		call, isCall := cj.(*ssa.Call)
		if !isCall {
			continue
		}
		var errV ssa.Value = call
		if call.Call.Signature().Results().Len() > 1 && call.Referrers() != nil {
			errV = nil
			for _, r := range *call.Referrers() {
				if ex, isEx := r.(*ssa.Extract); isEx && ex.Index == ir.ErrorResultIndex(call.Call.Signature()) {
					errV = ex
				}
			}
		}
		if errV == nil {
			continue
		}
		if (at.Block() == cj.Block() || cj.Block().Dominates(at.Block())) && nilFactOn(at.Block(), errV, true) {
			ok, via = true, e
		}
	}
	// the store access extracted into a private helper (`nodeBytes, err := m.fetchNode(ctx, l)`): a nil error of the
	// helper means the Load/Store inside it returned a nil error
	for _, cj := range CallsOf(fn) {
		h := privateHelperOf(c, cj)
		if h == nil || ok {
			continue
		}
		e := storeAccessWrapper(c, h)
		if e == "" {
			continue
		}
		errV, _ := lpErrorValue(cj)
		if errV == nil {
			continue
		}
		if (at.Block() == cj.Block() || cj.Block().Dominates(at.Block())) && nilFactOn(at.Block(), errV, true) {
			ok, via = true, e+" (in "+h.Name()+")"
		}
	}
	if ok || depth >= 2 {
		return ok, via
	}
	sites := ""
	held, _ := viaCallers(c, fn, at, nil, func(_ func(string) string, site ssa.Instruction) bool {
		k, v := cacheAfterHolds(c, site.Parent(), site, depth+1)
		if k {
			sites = v + " at every call of " + fn.Name()
		}
		return k
	})
	return held, sites
}

// privateHelperOf: the callee of ci when it is a private helper of the repository (static call of an unexported,
// named function with a body that is never used as a value).
func privateHelperOf(c *Ctx, ci ssa.CallInstruction) *ssa.Function {
	if _, isCall := ci.(*ssa.Call); !isCall {
		return nil
	}
	h := ir.Callee(*ci.Common())
	if h == nil || h.Blocks == nil || h.Parent() != nil || h.Object() == nil || h.Object().Exported() || c.Facts.addrTaken[h] ||
		h.Pkg == nil || h.Pkg.Pkg.Path() != ir.MastPath || len(h.Params) != len(ci.Common().Args) {
		return nil
	}
	return h
}

// storeAccessWrapper: h returns a nil error only after a Persist.Load / Persist.Store call of its own returned a nil
// error — every return of h either lies on the nil-error edge of that call or carries a certainly non-nil error.
// Returns the name of the access ("" if h is no such wrapper).
func storeAccessWrapper(c *Ctx, h *ssa.Function) string {
	ei := ir.ErrorResultIndex(h.Signature)
	if ei < 0 {
		return ""
	}
	for _, cj := range CallsOf(h) {
		e := c.Facts.External(cj)
		if e != "Persist.Load" && e != "Persist.Store" {
			continue
		}
		errV, _ := lpErrorValue(cj)
		if errV == nil {
			continue
		}
		rets := ir.Returns(h)
		all := len(rets) > 0
		for _, r := range rets {
			if ei >= len(r.Results) {
				all = false
				break
			}
			onNil := (r.Block() == cj.Block() || cj.Block().Dominates(r.Block())) && nilFactOn(r.Block(), errV, true)
			if !onNil && lpErrClass(r.Results[ei], r.Block(), 0) != lpErrNonNil {
				all = false
			}
		}
		if all {
			return e
		}
	}
	return ""
}

func runCACHEAFTER(c *Ctx) {
	P := c.P
	for _, fn := range P.Funcs {
		if fn.Pkg.Pkg.Path() != ir.MastPath {
			continue
		}
		for _, ci := range CallsOf(fn) {
			if c.Facts.External(ci) != "NodeCache.Add" {
				continue
			}
			pos := P.InstrPos(ci)
			ok, via := cacheAfterHolds(c, fn, ci, 0)
			if ok {
				c.OK(pos, "NodeCache.Add in "+ir.FuncName(fn), "on the nil-error edge of "+via, false)
			} else {
				c.Violation(fn, pos, "NodeCache.Add not conditioned on store success",
					"a node is put into the cache although the store is not known to hold it: the cache's Contains short-circuits later writes of that name, so a MakeRoot can succeed with nodes missing from the store")
			}
		}
	}
}

// goBody resolves the function a go statement starts: a static callee, or a
// closure held in a local variable (possibly captured by the spawning closure).
func goBody(g *ssa.Go) *ssa.Function {
	if f := ir.Callee(g.Call); f != nil {
		return f
	}
	switch x := ir.Origin(g.Call.Value).(type) {
	case *ssa.MakeClosure:
		f, _ := x.Fn.(*ssa.Function)
		return f
	case *ssa.Function:
		return x
	}
	return nil
}

// sprintfThroughHelpers finds the fmt.Sprintf call that produces v, looking
// through static in-repo helper functions with a single return (depth ≤ 2);
// env maps each helper parameter to the argument it was called with.
func sprintfThroughHelpers(v ssa.Value, depth int) (*ssa.Call, map[*ssa.Parameter]ssa.Value) {
	env := map[*ssa.Parameter]ssa.Value{}
	for d := depth; d < 3; d++ {
		call, ok := v.(*ssa.Call)
		if !ok {
			return nil, nil
		}
		sc := ir.Callee(call.Call)
		if sc == nil {
			return nil, nil
		}
		if sc.String() == "fmt.Sprintf" {
			return call, env
		}
		if sc.Blocks == nil {
			return nil, nil
		}
		rets := ir.Returns(sc)
		if len(rets) != 1 || len(rets[0].Results) != 1 {
			return nil, nil
		}
		for i, p := range sc.Params {
			if i < len(call.Call.Args) {
				a := call.Call.Args[i]
				// compose with the environment of an outer helper
				if pp, isP := ir.Strip(ir.ResolveCell(a)).(*ssa.Parameter); isP && env[pp] != nil {
					a = env[pp]
				}
				env[p] = a
			}
		}
		v = ir.Origin(rets[0].Results[0])
	}
	return nil, nil
}

// sentinelMayStopHere: converting "err is the sentinel" into a nil return is
// the documented stop protocol only where the sentinel ends its journey: a
// sentinel the repository itself produces (ErrNoMoreDiffs) is consumed by its
// driver; a sentinel only user callbacks produce (ErrIterDone) must travel
// up to the exported API function — an inner level that swallows it makes the
// outer levels carry on.
func sentinelMayStopHere(fn *ssa.Function, sentinel ssa.Value) bool {
	ld, ok := sentinel.(*ssa.UnOp)
	if !ok {
		return true
	}
	g, ok := ld.X.(*ssa.Global)
	if !ok {
		return true
	}
	if currentFacts != nil && currentFacts.sentinelProduced(g) {
		return true
	}
	return fn.Parent() == nil && fn.Object() != nil && fn.Object().Exported()
}

// keyParts decomposes a cache key into (prefix value, name value): either
// fmt.Sprintf with a constant two-verb format that starts with a verb, or a
// string concatenation prefix + constant separators + name — possibly built by
// a helper (single return, depth ≤ 2; env maps the helper's parameters to the
// call's arguments). fs describes the shape for the report.
func keyParts(v ssa.Value) (parts []ssa.Value, fs string, env map[*ssa.Parameter]ssa.Value) {
	env = map[*ssa.Parameter]ssa.Value{}
	for d := 0; d < 3; d++ {
		if bin, ok := v.(*ssa.BinOp); ok && bin.Op == token.ADD {
			var leaves []ssa.Value
			var flat func(x ssa.Value)
			flat = func(x ssa.Value) {
				if b, ok := x.(*ssa.BinOp); ok && b.Op == token.ADD {
					flat(b.X)
					flat(b.Y)
					return
				}
				leaves = append(leaves, x)
			}
			flat(bin)
			if len(leaves) < 2 {
				return nil, "", nil
			}
			for _, m := range leaves[1 : len(leaves)-1] {
				if _, isC := m.(*ssa.Const); !isC {
					return nil, "", nil
				}
			}
			return []ssa.Value{leaves[0], leaves[len(leaves)-1]}, "prefix + sep + name", env
		}
		call, ok := v.(*ssa.Call)
		if !ok {
			return nil, "", nil
		}
		sc := ir.Callee(call.Call)
		if sc == nil {
			return nil, "", nil
		}
		if sc.String() == "fmt.Sprintf" {
			format, _ := call.Call.Args[0].(*ssa.Const)
			ps := varargValues(call.Call.Args[1])
			if format == nil || len(ps) != 2 {
				return nil, "", nil
			}
			f := strings.Trim(format.Value.ExactString(), "\"")
			if strings.Count(f, "%") != 2 || !strings.HasPrefix(f, "%") {
				return nil, "", nil
			}
			return ps, f, env
		}
		if sc.Blocks == nil {
			return nil, "", nil
		}
		rets := ir.Returns(sc)
		if len(rets) != 1 || len(rets[0].Results) != 1 {
			return nil, "", nil
		}
		for i, p := range sc.Params {
			if i < len(call.Call.Args) {
				a := call.Call.Args[i]
				if pp, isP := ir.Strip(ir.ResolveCell(a)).(*ssa.Parameter); isP && env[pp] != nil {
					a = env[pp]
				}
				env[p] = a
			}
		}
		v = ir.Origin(rets[0].Results[0])
	}
	return nil, "", nil
}

// ---- FLUSHNAME ---------------------------------------------------------------------

func runFLUSHNAME(c *Ctx) {
	P := c.P
	sh := findFlush(c)
	if sh == nil {
		return
	}
	F := sh.F
	ei := ir.ErrorResultIndex(F.Signature)
	if ei < 0 || F.Signature.Results().Len() < 2 {
		c.AnchorMissing("a (name, error) result of the function that drives the node store")
		return
	}
	ni := 1 - ei
	if ni < 0 || ni > 1 {
		ni = 0
	}
	// the names handed back by the node store
	nodeStore, _ := persistingStoreFn(c)
	stored := map[ssa.Value]bool{}
	for _, ci := range CallsOf(F) {
		call, isCall := ci.(*ssa.Call)
		if !isCall || call.Referrers() == nil {
			continue
		}
		for _, callee := range c.Facts.Callees(ci) {
			if callee != nodeStore && (!c.Facts.MayStore[callee] || callee.Parent() != nil) {
				continue
			}
			for _, r := range *call.Referrers() {
				if ex, ok := r.(*ssa.Extract); ok && ex.Index == 0 {
					stored[ex] = true
				}
			}
		}
	}
	emptyKnown := func(b *ssa.BasicBlock) string {
		for _, f := range ir.FactsAt(b) {
			if tv, tnn, ok := ir.NilTest(f.Cond); ok && f.Truth != tnn {
				if _, isRoot := rootLoad(tv); isRoot {
					return "root == nil"
				}
			}
			cond, truth := f.Cond, f.Truth
			if u, ok := cond.(*ssa.UnOp); ok && u.Op == token.NOT {
				cond, truth = u.X, !truth
			}
			if call, ok := cond.(*ssa.Call); ok && truth {
				if sc := ir.Callee(call.Call); sc != nil && sc.Name() == "isEmpty" {
					return "isEmpty(root node)"
				}
			}
		}
		return ""
	}
	for _, r := range ir.Returns(F) {
		if ei >= len(r.Results) || !ir.IsNilConst(r.Results[ei]) {
			continue
		}
		v := ir.ResolveCell(r.Results[ni])
		if ex, ok := ir.Origin(r.Results[ni]).(*ssa.Extract); ok && stored[ex] {
			v = ex
		}
		pos := P.InstrPos(r)
		what := "success return of " + ir.FuncName(F)
		switch {
		case stored[v]:
			c.OK(pos, what, "reports the name the node store returned for the root", false)
		case rootAsName(v):
			// `if name, persisted := m.root.(string); persisted { return name, nil }`: a root that is a name is the
			// version the tree was loaded from or last persisted as — the name the node store returned then
			c.OK(pos, what, "reports the root link itself, which is a name (the tree equals that persisted version)", false)
		case isEmptyStringConst(v):
			if why := emptyKnown(r.Block()); why != "" {
				c.OK(pos, what+" with the empty name", "only under "+why+": the tree has no entries", false)
			} else {
				c.Violation(F, pos, "success with the empty name for a tree that may have entries",
					"flush returns (\"\", nil) on a path where the tree is not known to be empty: MakeRoot records 'no root node' next to the tree's size, nothing was written, and the version it hands out cannot be loaded — although it reported success")
			}
		default:
			c.Violation(F, pos, "success with a name the node store did not return",
				"flush reports success with "+pathDesc(ir.Sym(v))+" as the root's name, which is not the name returned by the node store for the root: the Root handed out names something else than what was written")
		}
	}
}

func isEmptyStringConst(v ssa.Value) bool {
	k, ok := v.(*ssa.Const)
	return ok && k.Value != nil && k.Value.Kind() == constant.String && constant.StringVal(k.Value) == ""
}

func flushNodeStore(c *Ctx) *ssa.Function {
	f, _ := persistingStoreFn(c)
	return f
}

// rootAsName: v is the string half of `X.root.(string)` (comma-ok or plain assertion) for a *Mast X.
func rootAsName(v ssa.Value) bool {
	v = ir.ResolveCell(v)
	if ex, ok := v.(*ssa.Extract); ok && ex.Index == 0 {
		v = ex.Tuple
	}
	ta, ok := v.(*ssa.TypeAssert)
	if !ok {
		return false
	}
	if bt, isB := ta.AssertedType.Underlying().(*types.Basic); !isB || bt.Kind() != types.String {
		return false
	}
	_, isRoot := rootLoad(ta.X)
	return isRoot
}
