package rules

import (
	"go/types"
	"strings"

	"golang.org/x/tools/go/ssa"

	"mastcheck/ir"
)

// CACHETYPES: the node cache holds *decoded* nodes (Go values of the tree's key and value types) under a key made of
// the store's prefix and the node's name. The name identifies the bytes; what the bytes decode to depends on the
// tree's configuration (KeysLike, ValuesLike, the unmarshaler). Two trees that share a cache and a store, as the
// documentation allows, and whose nodes happen to serialise to the same bytes (1 as int and as int64; two struct types
// with the same JSON) get each other's decoded nodes.

func init() {
	Register(&Rule{ID: "CACHETYPES", Props: []string{"C11", "C02", "C05"}, Min: 1,
		Doc: "every key handed to NodeCache.Get/Add/Contains in package mast is built from something that identifies the decode configuration of the tree (the types of Mast.zeroKey / Mast.zeroValue), not only from the store prefix and the node name.",
		Run: runCACHETYPES})
}

func runCACHETYPES(c *Ctx) {
	P := c.P
	perFn := map[*ssa.Function]ssa.Instruction{}
	okFn := map[*ssa.Function]bool{}
	var order []*ssa.Function
	for _, fn := range P.Funcs {
		if fn.Pkg == nil || fn.Pkg.Pkg.Path() != ir.MastPath {
			continue
		}
		for _, ci := range CallsOf(fn) {
			ext := c.Facts.External(ci)
			if !strings.HasPrefix(ext, "NodeCache.") || len(ci.Common().Args) == 0 {
				continue
			}
			outer := ir.Outermost(fn)
			if _, seen := perFn[outer]; !seen {
				perFn[outer] = ci
				okFn[outer] = true
				order = append(order, outer)
			}
			if !mentionsDecodeConfig(ci.Common().Args[0], map[ssa.Value]bool{}, 0) {
				okFn[outer] = false
			}
		}
	}
	// one finding for the cache as a whole (where the key is put together is an implementation detail that helper
	// extraction moves around)
	var bad []string
	var first ssa.Instruction
	for _, fn := range order {
		if okFn[fn] {
			c.OK(P.InstrPos(perFn[fn]), "node cache keys in "+ir.FuncName(fn), "include the tree's key/value types", false)
		} else {
			bad = append(bad, ir.FuncName(fn)+" ("+P.InstrPos(perFn[fn])+")")
			if first == nil {
				first = perFn[fn]
			}
		}
	}
	if len(bad) > 0 {
		c.Violation(nil, P.InstrPos(first), "node cache keys do not identify the decode configuration",
			"the cache key is the store prefix and the node name only ("+strings.Join(bad, ", ")+"), while the cached object is the node as decoded for this tree's key and value types: a tree with other types sharing the cache and the store receives it for byte-identical nodes (Get fails with 'don't know how to compare int64 with int' or panics in reflect.Set), and what a captured root shows depends on which tree touched the cache first")
	}
}

// mentionsDecodeConfig: the value is computed from Mast.zeroKey / Mast.zeroValue (their types, typically).
func mentionsDecodeConfig(v ssa.Value, seen map[ssa.Value]bool, d int) bool {
	if v == nil || d > 10 || seen[v] {
		return false
	}
	seen[v] = true
	if mastFieldLoad(v, "zeroKey") || mastFieldLoad(v, "zeroValue") {
		return true
	}
	v = ir.ResolveCell(v)
	if ins, ok := v.(ssa.Instruction); ok {
		for _, op := range ins.Operands(nil) {
			if op != nil && *op != nil && mentionsDecodeConfig(*op, seen, d+1) {
				return true
			}
		}
	}
	// the varargs array of a formatting call
	if sl, ok := v.(*ssa.Slice); ok {
		if al, ok := sl.X.(*ssa.Alloc); ok && al.Referrers() != nil {
			for _, r := range *al.Referrers() {
				if ia, ok := r.(*ssa.IndexAddr); ok && ia.Referrers() != nil {
					for _, r2 := range *ia.Referrers() {
						if st, ok := r2.(*ssa.Store); ok && mentionsDecodeConfig(st.Val, seen, d+1) {
							return true
						}
					}
				}
			}
		}
	}
	return false
}

// ---- CACHESAFE ------------------------------------------------------------------------
//
// "One cache can be shared by any number of trees" — and those trees may be used from different goroutines. The cache
// NewNodeCache hands out therefore has to be safe for concurrent use: hashicorp's top-level lru package (Cache,
// ARCCache, TwoQueueCache) locks internally; its simplelru sub-package, a bare map, or a hand-written adapter does not.

func init() {
	Register(&Rule{ID: "CACHESAFE", Props: []string{"C11"}, Min: 1,
		Doc: "every value a NodeCache constructor of package mast returns is built by a constructor of github.com/hashicorp/golang-lru itself (whose caches lock internally; not its simplelru sub-package), " +
			"or is a type of the repository whose Add, Contains and Get each take the exclusive lock of a sync mutex of the receiver before anything else (a read lock does not do: an LRU lookup reorders the recency list).",
		Run: runCACHESAFE})
}

func runCACHESAFE(c *Ctx) {
	P := c.P
	n := 0
	for _, fn := range P.Funcs {
		if fn.Pkg == nil || fn.Pkg.Pkg.Path() != ir.MastPath || fn.Parent() != nil || fn.Signature.Recv() != nil {
			continue
		}
		res := fn.Signature.Results()
		if res.Len() != 1 {
			continue
		}
		named, ok := types.Unalias(res.At(0).Type()).(*types.Named)
		if !ok || named.Obj().Name() != "NodeCache" {
			continue
		}
		for _, r := range ir.Returns(fn) {
			n++
			pos := P.InstrPos(r)
			what := "cache returned by " + ir.FuncName(fn)
			v := ir.ResolveCell(r.Results[0])
			for i := 0; i < 4; i++ {
				switch x := v.(type) {
				case *ssa.MakeInterface:
					v = ir.ResolveCell(x.X)
				case *ssa.ChangeInterface:
					v = ir.ResolveCell(x.X)
				case *ssa.Extract:
					v = x.Tuple
				}
			}
			if call, ok := v.(*ssa.Call); ok {
				if sc := ir.Callee(call.Call); sc != nil && sc.Pkg != nil {
					switch path := sc.Pkg.Pkg.Path(); {
					case path == "github.com/hashicorp/golang-lru":
						c.OK(pos, what, "built by "+sc.String()+": hashicorp's top-level caches lock internally", false)
						continue
					case strings.HasPrefix(path, "github.com/hashicorp/golang-lru/"):
						c.Violation(fn, pos, "shared node cache is not safe for concurrent use",
							"the cache is built by "+sc.String()+", which does no locking (the sub-packages of golang-lru are the unsynchronised building blocks): trees that share the cache from different goroutines race on its map and lists — concurrent map writes crash the process, or a lookup observes a half-updated entry")
						continue
					}
				}
			}
			// a type of the repository: its three methods lock first
			t := v.Type()
			if pt, ok := t.Underlying().(*types.Pointer); ok {
				t = pt.Elem()
			}
			nt, isNamed := types.Unalias(t).(*types.Named)
			if !isNamed || nt.Obj().Pkg() == nil || !strings.HasPrefix(nt.Obj().Pkg().Path(), ir.MastPath) {
				c.Undecided(fn, pos, "node cache of unknown construction", "the returned cache is neither built by golang-lru nor a type of the repository: whether it locks cannot be decided")
				continue
			}
			bad := ""
			for _, mn := range []string{"Add", "Contains", "Get"} {
				var m *ssa.Function
				for _, f := range P.Funcs {
					if f.Name() == mn && f.Signature.Recv() != nil {
						rt := f.Signature.Recv().Type()
						if p, ok := rt.(*types.Pointer); ok {
							rt = p.Elem()
						}
						if types.Identical(types.Unalias(rt), nt) {
							m = f
						}
					}
				}
				if m == nil || len(m.Blocks) == 0 {
					bad = mn + " is promoted from an embedded value or missing"
					break
				}
				locked := false
				for _, ins := range m.Blocks[0].Instrs {
					if ci, ok := ins.(*ssa.Call); ok {
						if _, isLock := syncCall(ci, "Mutex", "Lock"); isLock {
							locked = true
						}
						if _, isLock := syncCall(ci, "RWMutex", "Lock"); isLock {
							locked = true
						}
						// a read lock does for a lookup that only reads (a plain map); it does not where the lookup goes
						// through another object's method — an LRU moves the entry to the front of its recency list
						if _, isLock := syncCall(ci, "RWMutex", "RLock"); isLock && mn != "Add" {
							pure := true
							for _, ci2 := range CallsOf(m) {
								com := ci2.Common()
								if _, isB := com.Value.(*ssa.Builtin); isB {
									continue
								}
								if g := ir.Callee(com); g != nil && g.Pkg != nil && g.Pkg.Pkg.Path() == "sync" {
									continue
								}
								pure = false
							}
							if pure {
								locked = true
							}
						}
						break // the first call decides
					}
				}
				if !locked {
					bad = mn + " does not start by taking a mutex"
					break
				}
			}
			if bad == "" {
				c.OK(pos, what, "a type of the repository whose Add, Contains and Get lock first", false)
			} else {
				c.Violation(fn, pos, "shared node cache is not safe for concurrent use",
					"the cache is a "+nt.Obj().Name()+" of the repository and "+bad+": trees that share the cache from different goroutines race on its state")
			}
		}
	}
	if n == 0 {
		c.AnchorMissing("a constructor of NodeCache in package mast")
	}
}

// ---- CACHEVERBATIM --------------------------------------------------------------------
//
// The trees key a shared NodeCache by "<store prefix>/<node name>" (CACHEKEY): the prefix is what keeps one store's
// nodes apart from another's, so that "the cache has it" means "this store has it". A cache type of the repository that
// re-keys what it is given — by the digest behind the name, "to save memory" (adv16-D-a1) — undoes that inside the
// cache, where no call site can see it: a cache shared by two stores vouches for nodes it saw in the other one and
// MakeRoot skips the writes.

func init() {
	Register(&Rule{ID: "CACHEVERBATIM", Props: []string{"C03", "C02", "C05", "C11", "C19"}, Min: 0,
		Doc: "a NodeCache implemented in the repository uses the key it is given as it is: in its Add, Contains and Get, every call that leaves the repository (the underlying LRU) and every map access takes the method's key parameter itself as its key — never a value computed from it (trimmed, hashed, decoded, re-formatted), and the key is not handed to a repository helper whose result is used instead. (Min 0: today NewNodeCache returns hashicorp's ARC directly and there is no such type.)",
		Run: runCACHEVERBATIM})
}

func runCACHEVERBATIM(c *Ctx) {
	P := c.P
	ifaceNamed := P.Named(ir.MastPath, "NodeCache")
	if ifaceNamed == nil {
		c.AnchorMissing("interface NodeCache")
		return
	}
	iface, _ := ifaceNamed.Underlying().(*types.Interface)
	if iface == nil {
		c.AnchorMissing("interface NodeCache")
		return
	}
	for _, fn := range P.Funcs {
		if fn.Parent() != nil || fn.Signature.Recv() == nil || fn.Pkg == nil {
			continue
		}
		if mn := fn.Name(); mn != "Add" && mn != "Contains" && mn != "Get" {
			continue
		}
		rt := fn.Signature.Recv().Type()
		if !types.Implements(rt, iface) && !types.Implements(types.NewPointer(rt), iface) {
			continue
		}
		if len(fn.Params) < 2 {
			continue
		}
		key := fn.Params[1]
		isKey := func(v ssa.Value) bool {
			v = ir.ResolveCell(v)
			for i := 0; i < 3; i++ {
				switch x := v.(type) {
				case *ssa.ChangeInterface:
					v = ir.ResolveCell(x.X)
				case *ssa.MakeInterface:
					v = ir.ResolveCell(x.X)
				}
			}
			return v == ssa.Value(key)
		}
		// does v depend on the key parameter?
		var dep func(v ssa.Value, d int) bool
		dep = func(v ssa.Value, d int) bool {
			if d > 8 || v == nil {
				return false
			}
			v = ir.ResolveCell(v)
			if v == ssa.Value(key) {
				return true
			}
			ins, ok := v.(ssa.Instruction)
			if !ok {
				return false
			}
			for _, op := range ins.Operands(nil) {
				if *op != nil && dep(*op, d+1) {
					return true
				}
			}
			return false
		}
		n := 0
		for _, g := range append([]*ssa.Function{fn}, fn.AnonFuncs...) {
			for _, b := range g.Blocks {
				for _, ins := range b.Instrs {
					pos := P.InstrPos(ins)
					switch x := ins.(type) {
					case ssa.CallInstruction:
						com := x.Common()
						if callee := ir.Callee(com); callee != nil && callee.Pkg != nil && strings.HasPrefix(callee.Pkg.Pkg.Path(), ir.MastPath) {
							for _, a := range com.Args {
								if dep(a, 0) && callee.Signature.Results().Len() > 0 {
									n++
									c.Violation(fn, pos, "cache key handed to "+callee.Name(),
										"the cache's "+fn.Name()+" hands its key to "+callee.Name()+" and goes on with the result: the trees key the cache by store prefix and node name so that a node seen in one store is not taken for present in another; a cache that re-keys internally (by digest, by trimmed name) merges the stores again, and MakeRoot skips writes to the second store")
								}
							}
							continue
						}
						for _, a := range com.Args {
							if isKey(a) {
								n++
								c.OK(pos, "key passed on by "+ir.FuncName(fn), "the key parameter itself", false)
							} else if dep(a, 0) {
								n++
								c.Violation(fn, pos, "cache key transformed in "+fn.Name(),
									"the underlying cache is addressed by "+pathDesc(ir.Sym(a))+", computed from the key, instead of the key the tree supplied: entries of different stores (different prefixes) can collide or an entry added under one key is not found under the same key")
							}
						}
					case *ssa.Lookup:
						if _, isMap := x.X.Type().Underlying().(*types.Map); isMap {
							n++
							if isKey(x.Index) {
								c.OK(pos, "map lookup in "+ir.FuncName(fn), "by the key parameter itself", false)
							} else if dep(x.Index, 0) {
								c.Violation(fn, pos, "cache key transformed in "+fn.Name(), "the map is read under a value computed from the key instead of the key itself")
							}
						}
					case *ssa.MapUpdate:
						n++
						if isKey(x.Key) {
							c.OK(pos, "map update in "+ir.FuncName(fn), "under the key parameter itself", false)
						} else if dep(x.Key, 0) {
							c.Violation(fn, pos, "cache key transformed in "+fn.Name(), "the map is written under a value computed from the key instead of the key itself")
						}
					}
				}
			}
		}
		_ = n
	}
}
