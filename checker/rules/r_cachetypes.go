package rules

import (
	"strings"

	"golang.org/x/tools/go/ssa"

	"mastcheck/ir"
)

// CACHETYPES: the node cache holds *decoded* nodes (Go values of the tree's key and value types) under a key made of
// the store's prefix and the node's name. The name identifies the bytes; what the bytes decode to depends on the
// tree's configuration (KeysLike, ValuesLike, the unmarshaler). Two trees that share a cache and a store, as the
// documentation allows, and whose nodes happen to serialise to the same bytes (1 as int and as int64; two struct types
// with the same JSON) get each other's decoded nodes.

func init() {
	Register(&Rule{ID: "CACHETYPES", Props: []string{"C11", "C02", "C05"}, Min: 1,
		Doc: "every key handed to NodeCache.Get/Add/Contains in package mast is built from something that identifies the decode configuration of the tree (the types of Mast.zeroKey / Mast.zeroValue), not only from the store prefix and the node name.",
		Run: runCACHETYPES})
}

func runCACHETYPES(c *Ctx) {
	P := c.P
	perFn := map[*ssa.Function]ssa.Instruction{}
	okFn := map[*ssa.Function]bool{}
	var order []*ssa.Function
	for _, fn := range P.Funcs {
		if fn.Pkg == nil || fn.Pkg.Pkg.Path() != ir.MastPath {
			continue
		}
		for _, ci := range CallsOf(fn) {
			ext := c.Facts.External(ci)
			if !strings.HasPrefix(ext, "NodeCache.") || len(ci.Common().Args) == 0 {
				continue
			}
			outer := ir.Outermost(fn)
			if _, seen := perFn[outer]; !seen {
				perFn[outer] = ci
				okFn[outer] = true
				order = append(order, outer)
			}
			if !mentionsDecodeConfig(ci.Common().Args[0], map[ssa.Value]bool{}, 0) {
				okFn[outer] = false
			}
		}
	}
	// one finding for the cache as a whole (where the key is put together is an implementation detail that helper
	// extraction moves around)
	var bad []string
	var first ssa.Instruction
	for _, fn := range order {
		if okFn[fn] {
			c.OK(P.InstrPos(perFn[fn]), "node cache keys in "+ir.FuncName(fn), "include the tree's key/value types", false)
		} else {
			bad = append(bad, ir.FuncName(fn)+" ("+P.InstrPos(perFn[fn])+")")
			if first == nil {
				first = perFn[fn]
			}
		}
	}
	if len(bad) > 0 {
		c.Violation(nil, P.InstrPos(first), "node cache keys do not identify the decode configuration",
			"the cache key is the store prefix and the node name only ("+strings.Join(bad, ", ")+"), while the cached object is the node as decoded for this tree's key and value types: a tree with other types sharing the cache and the store receives it for byte-identical nodes (Get fails with 'don't know how to compare int64 with int' or panics in reflect.Set), and what a captured root shows depends on which tree touched the cache first")
	}
}

// mentionsDecodeConfig: the value is computed from Mast.zeroKey / Mast.zeroValue (their types, typically).
func mentionsDecodeConfig(v ssa.Value, seen map[ssa.Value]bool, d int) bool {
	if v == nil || d > 10 || seen[v] {
		return false
	}
	seen[v] = true
	if mastFieldLoad(v, "zeroKey") || mastFieldLoad(v, "zeroValue") {
		return true
	}
	v = ir.ResolveCell(v)
	if ins, ok := v.(ssa.Instruction); ok {
		for _, op := range ins.Operands(nil) {
			if op != nil && *op != nil && mentionsDecodeConfig(*op, seen, d+1) {
				return true
			}
		}
	}
	// the varargs array of a formatting call
	if sl, ok := v.(*ssa.Slice); ok {
		if al, ok := sl.X.(*ssa.Alloc); ok && al.Referrers() != nil {
			for _, r := range *al.Referrers() {
				if ia, ok := r.(*ssa.IndexAddr); ok && ia.Referrers() != nil {
					for _, r2 := range *ia.Referrers() {
						if st, ok := r2.(*ssa.Store); ok && mentionsDecodeConfig(st.Val, seen, d+1) {
							return true
						}
					}
				}
			}
		}
	}
	return false
}
