package rules

import (
	"fmt"
	"go/token"
	"go/types"
	"sort"
	"strings"

	"golang.org/x/tools/go/ssa"

	"mastcheck/ir"
)

// The completion barrier of flush, modelled over abstract protocol objects so
// that it does not matter whether the WaitGroup, queue, semaphore, mutex and
// error variable are locals of flush captured by closures (today) or fields
// of a worker-pool struct with methods.

// objKey identifies a protocol object: a local variable (through closure
// captures), or a field of a repository struct type (one pool per flush).
func objKey(v ssa.Value) string { return objKeyDepth(v, 0) }

func objKeyDepth(v ssa.Value, depth int) string {
	for i := 0; i < 8; i++ {
		o := ir.Origin(v)
		switch x := o.(type) {
		case *ssa.Extract, *ssa.Call:
			// the object was handed out by a helper of the repository (startStoreWorkers returns the queue it made):
			// it is the object that every return of the helper yields at that position
			rs := returnedAt(o)
			if len(rs) == 0 || depth > 3 {
				return ""
			}
			key := objKeyDepth(rs[0], depth+1)
			for _, r := range rs[1:] {
				if objKeyDepth(r, depth+1) != key {
					return ""
				}
			}
			return key
		case *ssa.Alloc:
			return fmt.Sprintf("local:%s.%s", ir.FuncName(x.Parent()), x.Name())
		case *ssa.FieldAddr:
			t := x.X.Type()
			if p, ok := t.Underlying().(*types.Pointer); ok {
				t = p.Elem()
			}
			if n, ok := t.(*types.Named); ok {
				return "field:" + n.Obj().Name() + "." + ir.FieldName(x.X.Type(), x.Field)
			}
			return ""
		case *ssa.UnOp:
			if x.Op == token.MUL {
				v = x.X
				continue
			}
			return ""
		case *ssa.MakeChan:
			// channel value held in a variable: find the store
			if x.Referrers() != nil {
				for _, r := range *x.Referrers() {
					if st, ok := r.(*ssa.Store); ok && st.Val == ssa.Value(x) {
						return objKeyDepth(st.Addr, depth)
					}
				}
			}
			// never stored: the channel is only ever used through this value
			return fmt.Sprintf("local:%s.%s", ir.FuncName(x.Parent()), x.Name())
		case *ssa.Parameter:
			// the object was handed in by the caller (startStoreWorkers(storeQ, n)): it is the object every call
			// site of the helper passes at that position; only for unexported top-level functions of the repository
			// that are never used as values, so that the static call sites are all the callers there are
			fn := x.Parent()
			sites := objKeyCallers.sites(fn)
			idx := paramIndex(x)
			if len(sites) == 0 || idx < 0 || depth > 3 {
				return ""
			}
			key := ""
			for n, cs := range sites {
				args := cs.Common().Args
				if cs.Common().IsInvoke() || len(args) != len(fn.Params) {
					return ""
				}
				k := objKeyDepth(args[idx], depth+1)
				if k == "" || (n > 0 && k != key) {
					return ""
				}
				key = k
			}
			return key
		default:
			return ""
		}
	}
	return ""
}

// objKeyCallers: the call sites through which objKey may follow a parameter back to the argument (set by findFlush).
var objKeyCallers callerSites

type callerSites struct {
	callers   map[*ssa.Function][]ssa.CallInstruction
	addrTaken map[*ssa.Function]bool
}

func (cs callerSites) sites(fn *ssa.Function) []ssa.CallInstruction {
	if cs.callers == nil || fn == nil || fn.Parent() != nil || cs.addrTaken[fn] || fn.Object() == nil || fn.Object().Exported() {
		return nil
	}
	return cs.callers[fn]
}

// returnedAt: v is the result (or one component of the result) of a static call of a function of the repository
// with a body; the values its returns yield at that position (nil when v is not such a result, or a return cannot
// be read).
func returnedAt(v ssa.Value) []ssa.Value {
	idx := 0
	var call *ssa.Call
	switch x := v.(type) {
	case *ssa.Extract:
		call, _ = x.Tuple.(*ssa.Call)
		idx = x.Index
	case *ssa.Call:
		call = x
		if call.Call.Signature().Results().Len() != 1 {
			return nil
		}
	}
	if call == nil || call.Call.IsInvoke() {
		return nil
	}
	h := calleeOrClosure(&call.Call)
	if h == nil || h.Blocks == nil {
		return nil
	}
	var out []ssa.Value
	for _, r := range ir.Returns(h) {
		if len(r.Block().Preds) == 0 && r.Block().Index != 0 {
			continue // recover block
		}
		if idx >= len(r.Results) {
			return nil
		}
		out = append(out, r.Results[idx])
	}
	return out
}

// machCallee: the function a call of the flush machinery runs: a static callee, a local closure, or a closure that
// a helper handed out (q, finish := startStoreWorkers(n); ...; finish()) — every return of the helper yields a
// closure of the same function at that position.
func machCallee(com *ssa.CallCommon) *ssa.Function {
	if com.IsInvoke() {
		return nil
	}
	if f := calleeOrClosure(com); f != nil {
		return f
	}
	return returnedFunc(ir.Origin(com.Value), 0)
}

func returnedFunc(v ssa.Value, depth int) *ssa.Function {
	rs := returnedAt(v)
	if len(rs) == 0 || depth > 3 {
		return nil
	}
	var fn *ssa.Function
	for _, r := range rs {
		var f *ssa.Function
		switch x := ir.Origin(r).(type) {
		case *ssa.MakeClosure:
			f, _ = x.Fn.(*ssa.Function)
		case *ssa.Function:
			f = x
		case *ssa.Extract, *ssa.Call:
			f = returnedFunc(x, depth+1)
		}
		if f == nil || (fn != nil && f != fn) {
			return nil
		}
		fn = f
	}
	return fn
}

type flushShape struct {
	F      *ssa.Function             // the function that drives the node store under MakeRoot
	scope  map[*ssa.Function]bool    // F, the helpers it calls (not the node store), and goroutine bodies
	gos    []*ssa.Go                 // go statements in scope
	bodies map[*ssa.Go]*ssa.Function // body started by each go
	wkey   string                    // the WaitGroup waited on
	wait   ssa.CallInstruction       // the wait event in F: wg.Wait itself, or a call to a helper that waits on every path
	waitFn *ssa.Function             // the function containing the Wait call
	waitIn ssa.CallInstruction       // the Wait call itself
}

func findFlush(c *Ctx) *flushShape {
	objKeyCallers = callerSites{callers: c.P.Callers, addrTaken: c.Facts.addrTaken}
	mk := c.MustFunc("(*Mast).MakeRoot")
	sites := storeSites(c)
	if mk == nil || len(sites) == 0 {
		if len(sites) == 0 {
			c.AnchorMissing("Persist.Store call site")
		}
		return nil
	}
	store := ir.Outermost(sites[0].Parent())
	family := storeFamily(c, store)
	reach := c.Facts.Reach(mk)
	var F *ssa.Function
	for _, cs := range c.P.Callers[store] {
		caller := ir.Outermost(cs.Parent())
		if family[caller] || !reach[caller] {
			continue
		}
		if F != nil && F != caller {
			c.Undecided(caller, c.P.Pos(caller.Pos()), "second driver of the node store", "more than one function reachable from MakeRoot calls the node store")
			continue
		}
		F = caller
	}
	if F == nil {
		c.AnchorMissing("function reachable from MakeRoot that calls the node store")
		return nil
	}
	sh := &flushShape{F: F, scope: map[*ssa.Function]bool{}, bodies: map[*ssa.Go]*ssa.Function{}}
	var collect func(fn *ssa.Function, depth int)
	collect = func(fn *ssa.Function, depth int) {
		if fn == nil || sh.scope[fn] || fn.Blocks == nil || family[fn] || depth > 4 {
			return
		}
		sh.scope[fn] = true
		for _, a := range fn.AnonFuncs {
			collect(a, depth)
		}
		for _, b := range fn.Blocks {
			for _, ins := range b.Instrs {
				switch x := ins.(type) {
				case *ssa.Go:
					sh.gos = append(sh.gos, x)
					if body := goBody(x); body != nil {
						sh.bodies[x] = body
						collect(body, depth)
					}
				case *ssa.Call:
					if sc := ir.Callee(x.Call); sc != nil && isOwn(c.P, sc) && !c.Facts.MayLoad[sc] {
						// helpers of the worker machinery (pool constructor and methods); never the tree code
						if usesSync(sc) {
							collect(sc, depth+1)
						}
					}
				}
			}
		}
	}
	collect(F, 0)
	// the Wait call
	var fns []*ssa.Function
	for fn := range sh.scope {
		fns = append(fns, fn)
	}
	sort.Slice(fns, func(i, j int) bool { return ir.PosLess(fns[i].Pos(), fns[j].Pos()) })
	for _, fn := range fns {
		for _, ci := range CallsOf(fn) {
			if w, ok := syncCall(ci, "WaitGroup", "Wait"); ok {
				if sh.waitIn != nil {
					c.Note("several Wait calls in the flush machinery; using the first")
					continue
				}
				sh.waitIn, sh.waitFn, sh.wkey = ci, fn, objKey(w)
			}
		}
	}
	if sh.waitIn != nil {
		if sh.waitFn == F {
			sh.wait = sh.waitIn
		} else {
			// a call in F to the helper that waits on every path
			for _, ci := range CallsOf(F) {
				if machCallee(ci.Common()) == sh.waitFn && allReturnsPass(sh.waitFn, func(i ssa.Instruction) bool { return i == ssa.Instruction(sh.waitIn) }) {
					sh.wait = ci
				}
			}
		}
	}
	return sh
}

// usesSync: the function mentions sync primitives or channels (part of the worker machinery).
func usesSync(fn *ssa.Function) bool {
	for _, b := range fn.Blocks {
		for _, ins := range b.Instrs {
			switch x := ins.(type) {
			case *ssa.Go, *ssa.Send, *ssa.MakeChan:
				return true
			case *ssa.UnOp:
				if x.Op == token.ARROW {
					return true
				}
			case ssa.CallInstruction:
				if sc := ir.Callee(x.Common()); sc != nil && sc.Pkg != nil && sc.Pkg.Pkg.Path() == "sync" {
					return true
				}
				if b, ok := x.Common().Value.(*ssa.Builtin); ok && b.Name() == "close" {
					return true
				}
			}
		}
	}
	for _, a := range fn.AnonFuncs {
		if usesSync(a) {
			return true
		}
	}
	return false
}

func allReturnsPass(fn *ssa.Function, pred func(ssa.Instruction) bool) bool {
	rets := ir.Returns(fn)
	if len(rets) == 0 {
		return false
	}
	for _, r := range rets {
		if len(r.Block().Preds) == 0 && r.Block().Index != 0 {
			continue
		}
		if !ir.MustPass(r, pred) {
			return false
		}
	}
	return true
}

// storeFamily: the persisting node store and the helpers only it calls.
func storeFamily(c *Ctx, outer *ssa.Function) map[*ssa.Function]bool {
	family := map[*ssa.Function]bool{outer: true}
	for changed := true; changed; {
		changed = false
		for _, fn := range c.P.Funcs {
			if family[fn] || fn.Parent() != nil || len(c.P.Callers[fn]) == 0 {
				continue
			}
			all := true
			for _, cs := range c.P.Callers[fn] {
				if !family[ir.Outermost(cs.Parent())] {
					all = false
				}
			}
			if all {
				family[fn] = true
				changed = true
			}
		}
	}
	return family
}

// eventsIn lists, in function fn, the instructions that (transitively through
// helpers in scope) perform the action recognised by pred on every path of the
// helper: the instruction itself, or a call to such a helper.
func (sh *flushShape) eventsIn(fn *ssa.Function, pred func(ssa.Instruction) bool) []ssa.Instruction {
	var out []ssa.Instruction
	for _, b := range fn.Blocks {
		for _, ins := range b.Instrs {
			if pred(ins) {
				out = append(out, ins)
				continue
			}
			if call, ok := ins.(*ssa.Call); ok {
				if sc := machCallee(&call.Call); sc != nil && sh.scope[sc] && sc != fn {
					if allReturnsPass(sc, func(i ssa.Instruction) bool {
						if pred(i) {
							return true
						}
						return false
					}) {
						out = append(out, ins)
					}
				}
			}
		}
	}
	return out
}

// spawnsIn: instructions of fn that start a goroutine (go statement, or a call
// to a helper in scope that contains one).
func (sh *flushShape) spawnsIn(fn *ssa.Function) []ssa.Instruction {
	var out []ssa.Instruction
	var has func(f *ssa.Function, seen map[*ssa.Function]bool) bool
	has = func(f *ssa.Function, seen map[*ssa.Function]bool) bool {
		if seen[f] {
			return false
		}
		seen[f] = true
		for _, b := range f.Blocks {
			for _, ins := range b.Instrs {
				if _, ok := ins.(*ssa.Go); ok {
					return true
				}
				if call, ok := ins.(*ssa.Call); ok {
					if sc := ir.Callee(call.Call); sc != nil && sh.scope[sc] && has(sc, seen) {
						return true
					}
				}
			}
		}
		return false
	}
	for _, b := range fn.Blocks {
		for _, ins := range b.Instrs {
			if _, ok := ins.(*ssa.Go); ok {
				out = append(out, ins)
			} else if call, ok := ins.(*ssa.Call); ok {
				if sc := ir.Callee(call.Call); sc != nil && sh.scope[sc] && sc != fn && has(sc, map[*ssa.Function]bool{}) {
					out = append(out, ins)
				}
			}
		}
	}
	return out
}

func runBARRIER(c *Ctx) {
	P := c.P
	sh := findFlush(c)
	if sh == nil {
		return
	}
	F := sh.F
	if len(sh.gos) == 0 {
		c.Note("the node store's driver starts no goroutines: nothing concurrent to wait for")
		c.OK(P.Pos(F.Pos()), "no goroutines in the flush machinery", "writes are synchronous", true)
		return
	}
	if sh.waitIn == nil {
		c.Violation(F, P.Pos(F.Pos()), "no wg.Wait", "the function that starts the store goroutines never waits for them: MakeRoot can return before the writes have completed")
		return
	}
	isW := func(v ssa.Value) bool { return sh.wkey != "" && objKey(v) == sh.wkey }
	// (1) Add before each go
	usedAdd := map[ssa.Instruction]bool{}
	for _, g := range sh.gos {
		fn := g.Parent()
		var found ssa.CallInstruction
		for _, ci := range CallsOf(fn) {
			w, ok := syncCall(ci, "WaitGroup", "Add")
			if !ok || !isW(w) || usedAdd[ci] || !ir.Before(ci, g) {
				continue
			}
			if k, isK := ir.ConstInt(ci.Common().Args[1]); !isK || k < 1 {
				continue
			}
			found = ci
		}
		body := "?"
		if b := sh.bodies[g]; b != nil {
			body = ir.FuncName(b)
		}
		if found == nil {
			c.Violation(fn, P.InstrPos(g), "go "+body+" without preceding wg.Add",
				"a goroutine is started without a wg.Add that happens before it in the spawning goroutine: Wait can return before this goroutine's Done")
		} else {
			usedAdd[found] = true
			c.OK(P.InstrPos(g), "(1) go "+body+" in "+ir.FuncName(fn), "dominated by its own wg.Add at "+P.InstrPos(found), false)
		}
	}
	// (2) Done on every exit of each body
	for _, body := range sh.bodies {
		isDone := func(ins ssa.Instruction) bool {
			ci, ok := ins.(ssa.CallInstruction)
			if !ok {
				return false
			}
			w, ok := syncCall(ci, "WaitGroup", "Done")
			return ok && isW(w)
		}
		nret := 0
		for _, r := range ir.Returns(body) {
			if len(r.Block().Preds) == 0 && r.Block().Index != 0 {
				continue // recover block
			}
			nret++
			if ir.MustPass(r, isDone) {
				c.OK(P.InstrPos(r), "(2) exit of "+ir.FuncName(body), "every path to this return runs (or has deferred) wg.Done", false)
			} else {
				c.Violation(body, P.InstrPos(r), "exit without wg.Done", "a path through the goroutine body returns without wg.Done: flush's Wait never returns (MakeRoot hangs)")
			}
		}
		if nret == 0 {
			c.Violation(body, P.Pos(body.Pos()), "goroutine never exits", "the goroutine body has no return: wg.Done is never called and Wait never returns")
		}
	}
	// (3) returns of F after the first spawn are dominated by the wait event (no writer outlives the call)
	ei := ir.ErrorResultIndex(F.Signature)
	spawns := sh.spawnsIn(F)
	var successRets, lateRets []*ssa.Return
	for _, r := range ir.Returns(F) {
		after := false
		for _, s := range spawns {
			if ir.InstrReaches(s, r) {
				after = true
			}
		}
		if !after {
			continue
		}
		if ei >= 0 && ir.IsNilConst(r.Results[ei]) {
			successRets = append(successRets, r)
			if sh.wait != nil && ir.Before(sh.wait, r) {
				c.OK(P.InstrPos(r), "(3) success return of "+ir.FuncName(F), "dominated by wg.Wait ("+P.InstrPos(sh.wait)+")", false)
			} else {
				c.Violation(F, P.InstrPos(r), "success return not dominated by wg.Wait", "flush can report success before the concurrent Store calls have completed")
			}
		} else if sh.wait == nil || !ir.Before(sh.wait, r) {
			lateRets = append(lateRets, r)
		}
	}
	if len(successRets) == 0 {
		c.Undecided(F, P.Pos(F.Pos()), "no success return after go", "flush has no nil-error return after starting the writers")
	}
	// (4) close(queue): after the last enqueue, before Wait
	qkey := ""
	for _, body := range sh.bodies {
		for _, b := range body.Blocks {
			for _, ins := range b.Instrs {
				if u, ok := ins.(*ssa.UnOp); ok && u.Op == token.ARROW {
					if ch, ok := u.X.Type().Underlying().(*types.Chan); ok {
						if _, isFn := ch.Elem().Underlying().(*types.Signature); isFn {
							qkey = objKey(u.X)
						}
					}
				}
			}
		}
	}
	// (3b) an error return that leaves the writers running is a leak while nothing has been queued; once the node
	// store was handed the queue, writes may be in flight and must be waited for before any return
	for _, r := range lateRets {
		var enq ssa.Instruction
		for _, ci := range CallsOf(F) {
			if _, isB := ci.Common().Value.(*ssa.Builtin); isB || qkey == "" {
				continue
			}
			for _, a := range ci.Common().Args {
				if objKey(a) == qkey && ir.InstrReaches(ci, r) {
					enq = ci
				}
			}
		}
		for _, b := range F.Blocks {
			for _, ins := range b.Instrs {
				if snd, ok := ins.(*ssa.Send); ok && qkey != "" && objKey(snd.Chan) == qkey && ir.InstrReaches(snd, r) {
					enq = snd
				}
			}
		}
		if enq != nil {
			c.Violation(F, P.InstrPos(r), "return while queued writes are in flight", "flush returns (with an error) after handing nodes to the store queue ("+P.InstrPos(enq)+") without waiting for the writers: Persist.Store calls are still running when MakeRoot has returned, so nodes it already marked persisted are not in the store yet and a retry can report success before they are")
		} else {
			c.Violation(F, P.InstrPos(r), "return after the writers were started without stopping them",
				"flush returns after it has started the dispatcher goroutine and before it closed the queue and waited: nothing ever stops that goroutine, every such call (e.g. a MakeRoot refused because KeysLike/ValuesLike is missing) leaves one blocked for ever")
		}
	}
	if qkey == "" {
		c.Undecided(F, P.Pos(F.Pos()), "work queue", "cannot find the channel of closures the dispatcher receives from")
	} else {
		isClose := func(i ssa.Instruction) bool {
			com, ok := builtinCall(i, "close")
			return ok && objKey(com.Args[0]) == qkey
		}
		// inside the function that waits: close precedes Wait; otherwise in F: the closing event precedes the wait event
		okClose := false
		var closeEvt ssa.Instruction
		for _, ci := range sh.eventsIn(sh.waitFn, isClose) {
			if ir.Before(ci, sh.waitIn) {
				okClose, closeEvt = true, ci
			}
		}
		if !okClose && sh.waitFn != F && sh.wait != nil {
			for _, ci := range sh.eventsIn(F, isClose) {
				if ir.Before(ci, sh.wait) {
					okClose, closeEvt = true, ci
				}
			}
		}
		if okClose {
			c.OK(P.InstrPos(closeEvt), "(4) close(queue) before Wait", "close dominates Wait", false)
		} else {
			c.Violation(sh.waitFn, P.InstrPos(sh.waitIn), "queue not closed before wg.Wait", "Wait is reached with the queue still open (or never closed): the dispatcher blocks on receive and Wait deadlocks")
		}
		// the enqueueing call (the node store is handed the queue) precedes the closing event in F
		closeInF := closeEvt
		if closeEvt != nil && closeEvt.Parent() != F {
			closeInF = sh.wait
		}
		for _, ci := range CallsOf(F) {
			if ci == closeInF || ci == sh.wait {
				continue
			}
			if _, isB := ci.Common().Value.(*ssa.Builtin); isB {
				continue
			}
			passes := false
			for _, a := range ci.Common().Args {
				if objKey(a) == qkey {
					passes = true
				}
			}
			if !passes || closeInF == nil {
				continue
			}
			if ir.Before(ci, closeInF) && !ir.InstrReaches(closeInF, ci) {
				c.OK(P.InstrPos(ci), "(4) enqueueing call precedes close(queue)", "call dominates close and cannot follow it", false)
			} else {
				c.Violation(F, P.InstrPos(ci), "enqueue after close(queue)", "a call that sends on the queue may run after the queue was closed (send on closed channel panics) or the close does not wait for it")
			}
		}
	}
	// the error cell: an error-typed object a goroutine body stores into
	ekey := sh.errKey()
	if ekey == "" {
		c.Violation(F, P.Pos(F.Pos()), "no error cell", "no goroutine records a store error in a variable that outlives it: a failed Persist.Store cannot be surfaced")
		return
	}
	isE := func(addr ssa.Value) bool { return objKey(addr) == ekey }
	// (5) success conditioned on the cell, read after Wait
	for _, r := range successRets {
		ok := false
		for _, f := range ir.FactsAt(r.Block()) {
			tv, tnn, isNil := ir.NilTest(f.Cond)
			if !isNil || f.Truth == tnn {
				continue
			}
			if sh.cellAfterWait(tv, isE) {
				ok = true
			}
		}
		if ok {
			c.OK(P.InstrPos(r), "(5) success return tests the error cell after Wait", "dominated by a nil test of the writers' first error, read after Wait", false)
		} else {
			c.Violation(F, P.InstrPos(r), "success not conditioned on the store-error cell", "flush returns success without (after Wait) checking the error recorded by the writers: a failed Persist.Store is not reported")
		}
	}
	// (7a) accesses of the cell outside goroutine bodies happen after Wait or before any spawn
	isBody := sh.workerFns()
	for fn := range sh.scope {
		if isBody[fn] {
			continue
		}
		for _, b := range fn.Blocks {
			for _, ins := range b.Instrs {
				var addr ssa.Value
				switch x := ins.(type) {
				case *ssa.UnOp:
					if x.Op == token.MUL {
						addr = x.X
					}
				case *ssa.Store:
					addr = x.Addr
				}
				if addr == nil || !isE(addr) {
					continue
				}
				safe := false
				if fn == sh.waitFn && ir.Before(sh.waitIn, ins) {
					safe = true
				}
				if fn == F && sh.wait != nil && ir.Before(sh.wait, ins) {
					safe = true
				}
				before := true
				for _, s := range sh.spawnsIn(fn) {
					if ir.InstrReaches(s, ins) {
						before = false
					}
				}
				if before && fn == F {
					safe = true
				}
				if _, isSt := ins.(*ssa.Store); isSt && len(sh.spawnsIn(fn)) == 0 && fn != F && fn != sh.waitFn {
					safe = true // constructor initialising the pool before it is started
				}
				_, isStore := ins.(*ssa.Store)
				if !safe && !isStore && mustHeldAt(ins) {
					safe = true // an accessor of the cell that takes the mutex itself
				}
				if !safe && isStore && mustHeldAt(ins) {
					c.Violation(fn, P.InstrPos(ins), "unsynchronised access of the error cell in flush", "the error cell is written outside the workers while queued writes may not have started: the workers skip a queued node write only because 'a store has already failed', so writing anything else into the cell leaves nodes unwritten that the walk already marked clean")
					continue
				}
				if safe {
					c.OK(P.InstrPos(ins), "(7) access of the error cell in "+ir.FuncName(fn), "after Wait / before the first go / mutex held", false)
				} else {
					c.Violation(fn, P.InstrPos(ins), "unsynchronised access of the error cell in flush", "the error cell is read or written while writers may still be running, without the mutex")
				}
			}
		}
	}
	// (6)+(7b) in goroutine bodies
	recorded := false
	var ranCalls []*ssa.Call
	for fn := range isBody {
		for _, b := range fn.Blocks {
			for _, ins := range b.Instrs {
				var addr ssa.Value
				switch x := ins.(type) {
				case *ssa.UnOp:
					if x.Op == token.MUL {
						addr = x.X
					}
				case *ssa.Store:
					addr = x.Addr
				}
				if addr == nil || !isE(addr) {
					continue
				}
				held := ir.FlowHeld(ins,
					func(i ssa.Instruction) bool {
						ci, ok := i.(*ssa.Call)
						if !ok {
							return false
						}
						_, ok = syncCall(ci, "Mutex", "Lock")
						return ok
					},
					func(i ssa.Instruction) bool {
						ci, ok := i.(*ssa.Call)
						if !ok {
							return false
						}
						_, ok = syncCall(ci, "Mutex", "Unlock")
						return ok
					})
				if held {
					c.OK(P.InstrPos(ins), "(7) access of the error cell in "+ir.FuncName(fn), "mutex held on every path", false)
				} else {
					c.Violation(fn, P.InstrPos(ins), "error cell accessed without the mutex", "concurrent writers read/write the first-error variable without holding the lock (data race; an error can be lost)")
				}
				if st, ok := ins.(*ssa.Store); ok {
					// the recording may be conditioned only on nil tests (of the result, of the cell) and on
					// the machinery's own "has a store failed already" helper
					onlyNilTests := func(b *ssa.BasicBlock) bool {
						for _, f := range ir.FactsAt(b) {
							if tv, tnn, isNil := ir.NilTest(f.Cond); isNil {
								// "first error wins": the cell may be required to be still nil, never to be non-nil
								if _, ok := sh.cellValue(tv, isE); ok && f.Truth == tnn {
									return false
								}
								continue
							}
							if call, ok := f.Cond.(*ssa.Call); ok {
								if h := calleeOrClosure(&call.Call); h != nil && isBody[h] && returnsCellTest(h, isE) {
									// the helper's answer is a nil test of the cell: as above, the recording may require the
									// cell to be nil still, never to be non-nil already
									if tnn, ok := cellTestPolarity(h, isE); ok && f.Truth == tnn {
										return false
									}
									continue
								}
							}
							return false
						}
						return true
					}
					if call, isCall := ir.Origin(st.Val).(*ssa.Call); isCall && nilFactOn(b, st.Val, false) {
						if onlyNilTests(b) {
							recorded = true
							ranCalls = append(ranCalls, call)
							c.OK(P.InstrPos(st), "(6) worker records the queued closure's error", "store of "+call.Name()+"'s non-nil result into the error cell", false)
						}
					} else if prm, isParam := st.Val.(*ssa.Parameter); isParam && onlyNilTests(b) {
						// noteStoreError(cberr): the helper stores its parameter; the worker passes the non-nil result
						idx := -1
						for i, q := range fn.Params {
							if q == prm {
								idx = i
							}
						}
						for wf := range isBody {
							for _, ci := range CallsOf(wf) {
								if calleeOrClosure(ci.Common()) != fn || idx < 0 {
									continue
								}
								args := ci.Common().Args
								ai := idx - (len(fn.Params) - len(args))
								if ai < 0 || ai >= len(args) {
									continue
								}
								if call, isCall := ir.Origin(args[ai]).(*ssa.Call); isCall && nilFactOn(ci.Block(), args[ai], false) && onlyNilTests(ci.Block()) {
									recorded = true
									ranCalls = append(ranCalls, call)
									c.OK(P.InstrPos(ci), "(6) worker records the queued closure's error", "passes "+call.Name()+"'s non-nil result to "+ir.FuncName(fn)+", which stores it into the error cell", false)
								}
							}
						}
					}
				}
			}
		}
	}
	// (11) no call made with the mutex held runs code that locks the same mutex again (sync.Mutex is not reentrant:
	// the worker blocks on itself, never calls Done, and Wait never returns)
	locksMutex := map[*ssa.Function]string{}
	for fn := range isBody {
		for _, ci := range CallsOf(fn) {
			if mv, ok := syncCall(ci, "Mutex", "Lock"); ok {
				locksMutex[fn] = objKey(mv)
			}
		}
	}
	for fn := range isBody {
		for _, ci := range CallsOf(fn) {
			call, isCall := ci.(*ssa.Call)
			if !isCall {
				continue
			}
			h := calleeOrClosure(&call.Call)
			if h == nil || locksMutex[h] == "" {
				continue
			}
			heldKey := ""
			held := ir.FlowHeld(call,
				func(i ssa.Instruction) bool {
					c2, ok := i.(*ssa.Call)
					if !ok {
						return false
					}
					mv, ok := syncCall(c2, "Mutex", "Lock")
					if ok {
						heldKey = objKey(mv)
					}
					return ok
				},
				func(i ssa.Instruction) bool {
					c2, ok := i.(*ssa.Call)
					if !ok {
						return false
					}
					_, ok = syncCall(c2, "Mutex", "Unlock")
					return ok
				})
			mayHold := held
			if !mayHold {
				// held on some path is enough for a deadlock: may-analysis over the same events
				mayHold = mayHeldAt(call)
			}
			if mayHold && (heldKey == "" || heldKey == locksMutex[h]) {
				c.Violation(fn, P.InstrPos(call), "mutex locked again while held", "the call runs "+ir.FuncName(h)+", which locks the mutex guarding the first-error variable, at a point where this goroutine already holds it: sync.Mutex is not reentrant, the worker blocks on itself, wg.Done is never reached and MakeRoot hangs on the first failing store")
			} else {
				c.OK(P.InstrPos(call), "(11) call of "+ir.FuncName(h)+" (locks the mutex)", "made with the mutex released", false)
			}
		}
	}
	// (12) the dispatcher leaves its receive loop only when the queue is closed: any other exit stops the receiving
	// while the node store may still be sending on the unbuffered queue, which then blocks for ever
	for fn := range isBody {
		for _, b := range fn.Blocks {
			for _, ins := range b.Instrs {
				recv, ok := ins.(*ssa.UnOp)
				if !ok || recv.Op != token.ARROW || objKey(recv.X) != qkey || !inCycle(b) {
					continue
				}
				// exits of the cycle
				for _, cb := range fn.Blocks {
					if !inCycle(cb) || !ir.ReachableFrom(b, nil)[cb] || !ir.ReachableFrom(cb, nil)[b] {
						continue
					}
					for si, sb := range cb.Succs {
						if ir.ReachableFrom(sb, nil)[b] {
							continue // stays in the loop
						}
						okExit := false
						if iff, isIf := cb.Instrs[len(cb.Instrs)-1].(*ssa.If); isIf {
							if tv, tnn, isNil := ir.NilTest(iff.Cond); isNil && ir.ResolveCell(tv) == ssa.Value(recv) {
								// the nil edge: si == 0 is the true edge
								if (si == 0) != tnn {
									okExit = true
								}
							}
							if ex, isEx := iff.Cond.(*ssa.Extract); isEx && ex.Tuple == ssa.Value(recv) && ex.Index == 1 && si == 1 {
								okExit = true // v, ok := <-q; !ok
							}
						}
						if okExit {
							c.OK(P.InstrPos(cb.Instrs[len(cb.Instrs)-1]), "(12) dispatcher leaves its loop", "only when the queue was closed", false)
						} else {
							c.Violation(fn, P.InstrPos(cb.Instrs[len(cb.Instrs)-1]), "dispatcher stops receiving before the queue is closed",
								"the goroutine that receives the queued writes can leave its loop for another reason than the closed queue (e.g. once a store has failed): the tree walk is still sending on the unbuffered queue and blocks for ever, so MakeRoot hangs instead of reporting the error")
						}
					}
				}
			}
		}
	}
	// (10) no worker path ends with the mutex still held (the next worker would block forever and Wait never returns)
	for fn := range isBody {
		hasDeferUnlock := false
		for _, b := range fn.Blocks {
			for _, ins := range b.Instrs {
				if d, ok := ins.(*ssa.Defer); ok {
					if _, ok := syncCall(d, "Mutex", "Unlock"); ok {
						hasDeferUnlock = true
					}
				}
			}
		}
		n := len(fn.Blocks)
		in, out := make([]bool, n), make([]bool, n)
		step := func(b *ssa.BasicBlock, st bool, visit func(ssa.Instruction, bool)) bool {
			for _, ins := range b.Instrs {
				if visit != nil {
					visit(ins, st)
				}
				if ci, ok := ins.(*ssa.Call); ok {
					if _, ok := syncCall(ci, "Mutex", "Lock"); ok {
						st = true
					}
					if _, ok := syncCall(ci, "Mutex", "Unlock"); ok {
						st = false
					}
				}
			}
			return st
		}
		for changed := true; changed; {
			changed = false
			for _, b := range fn.Blocks {
				v := false
				for _, p := range b.Preds {
					v = v || out[p.Index]
				}
				o := step(b, v, nil)
				if v != in[b.Index] || o != out[b.Index] {
					in[b.Index], out[b.Index] = v, o
					changed = true
				}
			}
		}
		locks := false
		for _, b := range fn.Blocks {
			step(b, in[b.Index], func(ins ssa.Instruction, held bool) {
				if ci, ok := ins.(*ssa.Call); ok {
					if _, ok := syncCall(ci, "Mutex", "Lock"); ok {
						locks = true
					}
				}
				if r, ok := ins.(*ssa.Return); ok {
					if len(b.Preds) == 0 && b.Index != 0 {
						return
					}
					if held && !hasDeferUnlock {
						c.Violation(fn, P.InstrPos(r), "worker can return with the mutex held", "on some path the lock taken around the first-error variable is not released before the goroutine ends: every later worker blocks on Lock, Wait never returns and MakeRoot hangs")
					} else if locks {
						c.OK(P.InstrPos(r), "(10) exit of "+ir.FuncName(fn), "mutex released on every path to this return", false)
					}
				}
			})
		}
	}
	// (9) the dequeued closure runs unless a store has already failed: its call is conditioned on nothing but
	// nil tests of the error cell (directly or through the machinery's own helper)
	for _, call := range ranCalls {
		bad := ""
		for _, f := range ir.FactsAt(call.Block()) {
			if tv, _, isNil := ir.NilTest(f.Cond); isNil {
				if _, ok := sh.cellValue(tv, isE); ok {
					continue
				}
				bad = "a nil test of something other than the error cell"
				continue
			}
			if hc, ok := f.Cond.(*ssa.Call); ok {
				if h := calleeOrClosure(&hc.Call); h != nil && isBody[h] && returnsCellTest(h, isE) {
					continue
				}
			}
			bad = "a condition other than 'a store has already failed'"
		}
		if bad == "" {
			c.OK(P.InstrPos(call), "(9) the queued closure is run unless a store already failed", "its call is conditioned only on the error cell being nil", false)
		} else {
			c.Violation(call.Parent(), P.InstrPos(call), "queued store skipped on another condition", "the worker skips a queued node write on "+bad+": flush then reports success (the error cell stays nil) although a node was never written")
		}
	}
	if !recorded {
		c.Violation(F, P.Pos(F.Pos()), "worker never records a store error", "no goroutine stores the non-nil result of the queued closure into the error cell: Persist.Store failures vanish and MakeRoot reports success")
	}
	// (8) semaphore: a receive before starting a worker is matched by a send on every exit of the worker
	for g, body := range sh.bodies {
		sp := g.Parent()
		for _, b := range sp.Blocks {
			for _, ins := range b.Instrs {
				u, ok := ins.(*ssa.UnOp)
				if !ok || u.Op != token.ARROW || !ir.Before(u, g) {
					continue
				}
				ch := objKey(u.X)
				if ch == "" || ch == qkey {
					continue
				}
				sends := func(i ssa.Instruction) bool {
					switch y := i.(type) {
					case *ssa.Send:
						return objKey(y.Chan) == ch
					case *ssa.Defer:
						if fn := ir.Callee(y.Call); fn != nil {
							for _, bb := range fn.Blocks {
								for _, ii := range bb.Instrs {
									if s, ok := ii.(*ssa.Send); ok && objKey(s.Chan) == ch {
										return true
									}
								}
							}
						}
					}
					return false
				}
				allOK := true
				for _, r := range ir.Returns(body) {
					if len(r.Block().Preds) == 0 && r.Block().Index != 0 {
						continue
					}
					if !ir.MustPass(r, sends) {
						allOK = false
						c.Violation(body, P.InstrPos(r), "semaphore slot not released", "the worker exits on some path without returning the slot it was given: after 40 writes the dispatcher blocks forever and MakeRoot hangs")
					}
				}
				if allOK {
					c.OK(P.InstrPos(u), "(8) semaphore acquire before go "+ir.FuncName(body), "released on every exit of the worker", false)
				}
			}
		}
	}
}

// isLocalTo: the object is a local variable of fn itself (not captured from outside).
func isLocalTo(key string, fn *ssa.Function) bool {
	return strings.HasPrefix(key, "local:"+ir.FuncName(fn)+".")
}

// cellAfterWait: v is the writers' error, read after the barrier: a load of the
// cell after the wait event, or the result of the waiting helper that returns
// such a load.
func (sh *flushShape) cellAfterWait(v ssa.Value, isE func(ssa.Value) bool) bool {
	if ld, ok := sh.cellValue(v, isE); ok {
		if ld.Parent() == sh.waitFn && ir.Before(sh.waitIn, ld) {
			return true
		}
		if ld.Parent() == sh.F && sh.wait != nil && ir.Before(sh.wait, ld) {
			return true
		}
		if _, direct := ld.(*ssa.UnOp); direct {
			return false
		}
	}
	// result of the waiting helper
	var call *ssa.Call
	switch x := v.(type) {
	case *ssa.Call:
		call = x
	case *ssa.Extract:
		call, _ = x.Tuple.(*ssa.Call)
	}
	if call != nil && sh.wait != nil && ssa.Instruction(call) == ssa.Instruction(sh.wait) {
		for _, r := range ir.Returns(sh.waitFn) {
			okRet := false
			for _, res := range r.Results {
				if ld, ok := sh.cellValue(res, isE); ok && ir.Before(sh.waitIn, ld) {
					okRet = true
				}
			}
			if !okRet {
				return false
			}
		}
		return true
	}
	return false
}

// workerFns: the goroutine bodies, their nested closures, and the helpers of the flush machinery they call
// (local closures such as noteStoreError, or pool methods): the code that runs concurrently with flush.
func (sh *flushShape) workerFns() map[*ssa.Function]bool {
	out := map[*ssa.Function]bool{}
	var add func(fn *ssa.Function)
	add = func(fn *ssa.Function) {
		if fn == nil || out[fn] || !sh.scope[fn] || fn == sh.F {
			return
		}
		out[fn] = true
		for _, a := range fn.AnonFuncs {
			// a closure defined inside a worker runs in it (defers) or is called by it
			add(a)
		}
		for _, ci := range CallsOf(fn) {
			if _, isGo := ci.(*ssa.Go); isGo {
				continue
			}
			add(calleeOrClosure(ci.Common()))
		}
	}
	for _, b := range sh.bodies {
		add(b)
	}
	return out
}

// errKey: the writers' first-error object: an error-typed variable or field,
// not local to the goroutine, that a goroutine body stores into.
func (sh *flushShape) errKey() string {
	ekey := ""
	var bodies []*ssa.Function
	for body := range sh.workerFns() {
		bodies = append(bodies, body)
	}
	sort.Slice(bodies, func(i, j int) bool { return ir.PosLess(bodies[i].Pos(), bodies[j].Pos()) })
	for _, body := range bodies {
		for _, b := range body.Blocks {
			for _, ins := range b.Instrs {
				if st, ok := ins.(*ssa.Store); ok && ir.IsErrorType(st.Val.Type()) {
					if k := objKey(st.Addr); k != "" && !isLocalTo(k, body) {
						ekey = k
					}
				}
			}
		}
	}
	return ekey
}

// cellTestPolarity: for a helper accepted by returnsCellTest, whether its answer true means "the cell is non-nil";
// ok is false when its returns disagree.
func cellTestPolarity(h *ssa.Function, isE func(ssa.Value) bool) (trueMeansNonNil bool, ok bool) {
	first := true
	for _, r := range ir.Returns(h) {
		if len(r.Block().Preds) == 0 && r.Block().Index != 0 {
			continue
		}
		if len(r.Results) != 1 {
			return false, false
		}
		_, tnn, isNil := ir.NilTest(ir.ResolveCell(r.Results[0]))
		if !isNil {
			return false, false
		}
		if first {
			trueMeansNonNil, first = tnn, false
		} else if tnn != trueMeansNonNil {
			return false, false
		}
	}
	return trueMeansNonNil, !first
}

// returnsCellTest: every return of h yields a nil test of the error cell (storeFailed()).
func returnsCellTest(h *ssa.Function, isE func(ssa.Value) bool) bool {
	rets := ir.Returns(h)
	n := 0
	for _, r := range rets {
		if len(r.Block().Preds) == 0 && r.Block().Index != 0 {
			continue // recover block
		}
		if len(r.Results) != 1 {
			return false
		}
		tv, _, isNil := ir.NilTest(ir.ResolveCell(r.Results[0]))
		if !isNil {
			return false
		}
		ld, ok := tv.(*ssa.UnOp)
		if !ok || ld.Op != token.MUL || !isE(ld.X) {
			return false
		}
		n++
	}
	return n > 0
}

// mayHeldAt: on some path to ins a sync.Mutex Lock is not followed by an Unlock (may-dataflow).
func mayHeldAt(ins ssa.Instruction) bool {
	fn := ins.Parent()
	n := len(fn.Blocks)
	in, out := make([]bool, n), make([]bool, n)
	step := func(b *ssa.BasicBlock, st bool, upto ssa.Instruction) bool {
		for _, i := range b.Instrs {
			if i == upto {
				break
			}
			if ci, ok := i.(*ssa.Call); ok {
				if _, ok := syncCall(ci, "Mutex", "Lock"); ok {
					st = true
				}
				if _, ok := syncCall(ci, "Mutex", "Unlock"); ok {
					st = false
				}
			}
		}
		return st
	}
	for changed := true; changed; {
		changed = false
		for _, b := range fn.Blocks {
			v := false
			for _, p := range b.Preds {
				v = v || out[p.Index]
			}
			o := step(b, v, nil)
			if v != in[b.Index] || o != out[b.Index] {
				in[b.Index], out[b.Index] = v, o
				changed = true
			}
		}
	}
	return step(ins.Block(), in[ins.Block().Index], ins)
}

// cellValue: v is the value of the error cell: a load of it, or the result of a getter of the flush machinery —
// a helper in scope (other than flush itself) whose every return yields a load of the cell. at is the load, or
// the call of the getter (the moment the cell is read, for ordering against Wait).
func (sh *flushShape) cellValue(v ssa.Value, isE func(ssa.Value) bool) (at ssa.Instruction, ok bool) {
	if ld, ok := v.(*ssa.UnOp); ok && ld.Op == token.MUL && isE(ld.X) {
		return ld, true
	}
	call, isCall := v.(*ssa.Call)
	if !isCall {
		return nil, false
	}
	h := machCallee(&call.Call)
	if h == nil || h == sh.F || !sh.scope[h] || h.Blocks == nil {
		return nil, false
	}
	n := 0
	for _, r := range ir.Returns(h) {
		if len(r.Block().Preds) == 0 && r.Block().Index != 0 {
			continue // recover block
		}
		if len(r.Results) != 1 {
			return nil, false
		}
		ld, ok := ir.ResolveCell(r.Results[0]).(*ssa.UnOp) // (a deferred Unlock spills the result)
		if !ok || ld.Op != token.MUL || !isE(ld.X) {
			return nil, false
		}
		n++
	}
	if n == 0 {
		return nil, false
	}
	return call, true
}

// mustHeldAt: on every path to ins a sync.Mutex Lock is not followed by an Unlock.
func mustHeldAt(ins ssa.Instruction) bool {
	return ir.FlowHeld(ins,
		func(i ssa.Instruction) bool {
			ci, ok := i.(*ssa.Call)
			if !ok {
				return false
			}
			_, ok = syncCall(ci, "Mutex", "Lock")
			return ok
		},
		func(i ssa.Instruction) bool {
			ci, ok := i.(*ssa.Call)
			if !ok {
				return false
			}
			_, ok = syncCall(ci, "Mutex", "Unlock")
			return ok
		})
}
