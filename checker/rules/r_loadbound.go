package rules

import (
	"fmt"
	"go/token"
	"sort"

	"golang.org/x/tools/go/ssa"

	"mastcheck/ir"
)

func init() {
	Register(&Rule{
		ID:    "LOADBOUND",
		Props: []string{"C16"},
		Min:   10,
		Doc: "point operations read only the search path: with constant-false and Mast.debug=false edges pruned (after verifying that nothing sets " +
			"Mast.debug) and panic-bound blocks excluded, in everything reachable from Get, Insert, Delete (not entering the tabled height-change " +
			"functions grow/shrink), LoadMast, Clone and Cursor: no call that may reach Persist.Load sits in a CFG loop; per invocation a function " +
			"performs at most 2 node reads and at most 2 recursive calls on any path (1 and 1 for what Get reaches), a recursive descent starts no " +
			"other descent, an entry point starts at most 2 descents (Get: 1), and LoadMast, Clone and Cursor start none and read at most one node " +
			"(Cursor: Clone's read plus the reload of the clone's root).",
		Run: runLOADBOUND,
	})
	Assume("C16", "each recursive call of a descent (findNode, split, mergeNodes) moves one level down the tree, so the recursion depth is at most height+1 (LOADBOUND bounds reads per level, not levels)",
		"Cursor.Min/Max/Forward/Backward/Ceil are not point operations of the property and are not bounded by LOADBOUND")
}

// lbCost is the per-invocation read cost of a function on its worst path.
type lbCost struct {
	L int // node reads (Persist.Load reached through non-recursive calls)
	R int // calls back into the function's own call-graph SCC
	D int // calls that start a recursive descent in another SCC
}

type lbAnalysis struct {
	c      *Ctx
	pr     *lpPrune
	res    *lpResolver
	exempt map[*ssa.Function]bool
	calls  map[*ssa.Function][]lbCall // call sites in active blocks
	mayLd  map[*ssa.Function]bool
	scc    map[*ssa.Function]int
	cyclic map[int]bool
	cost   map[*ssa.Function]lbCost
	done   map[*ssa.Function]bool
	// loopMemo: classification of the read calls that sit in CFG loops
	loopMemo map[*ssa.Function]*lbLoopInfo
}

type lbCall struct {
	ci      ssa.CallInstruction
	callees []*ssa.Function
	ext     string
}

func (A *lbAnalysis) callsOf(fn *ssa.Function) []lbCall {
	if cs, ok := A.calls[fn]; ok {
		return cs
	}
	f := A.pr.of(fn)
	var out []lbCall
	for _, b := range fn.Blocks {
		if !f.active(b) {
			continue
		}
		for _, ins := range b.Instrs {
			ci, ok := ins.(ssa.CallInstruction)
			if !ok {
				continue
			}
			lc := lbCall{ci: ci, ext: A.c.Facts.External(ci)}
			for _, g := range A.res.Callees(ci) {
				if !A.exempt[g] {
					lc.callees = append(lc.callees, g)
				}
			}
			out = append(out, lc)
		}
	}
	A.calls[fn] = out
	return out
}

// reach: functions reachable from the entries through calls in active blocks,
// never entering an exempt function; closures created in active blocks are
// included (they run at most when created code calls them).
func (A *lbAnalysis) reach(entries []*ssa.Function) (map[*ssa.Function]bool, map[*ssa.Function]*ssa.Function) {
	seen := map[*ssa.Function]bool{}
	prev := map[*ssa.Function]*ssa.Function{}
	var q []*ssa.Function
	for _, e := range entries {
		if e != nil && !seen[e] {
			seen[e] = true
			q = append(q, e)
		}
	}
	for len(q) > 0 {
		fn := q[0]
		q = q[1:]
		var next []*ssa.Function
		for _, lc := range A.callsOf(fn) {
			next = append(next, lc.callees...)
		}
		f := A.pr.of(fn)
		for _, b := range fn.Blocks {
			if !f.active(b) {
				continue
			}
			for _, ins := range b.Instrs {
				if mc, ok := ins.(*ssa.MakeClosure); ok {
					if g, ok := mc.Fn.(*ssa.Function); ok && !A.exempt[g] {
						next = append(next, g)
					}
				}
			}
		}
		for _, g := range next {
			if !seen[g] && g.Blocks != nil {
				seen[g] = true
				prev[g] = fn
				q = append(q, g)
			}
		}
	}
	return seen, prev
}

func lbChain(prev map[*ssa.Function]*ssa.Function, fn *ssa.Function) []string {
	var chain []string
	for f := fn; f != nil; f = prev[f] {
		chain = append([]string{ir.FuncName(f)}, chain...)
		if len(chain) > 20 {
			break
		}
	}
	return chain
}

// computeMayLoad: pruned may-reach-Persist.Load over all functions.
func (A *lbAnalysis) computeMayLoad() {
	for _, fn := range A.c.P.Funcs {
		for _, lc := range A.callsOf(fn) {
			if lc.ext == "Persist.Load" {
				A.mayLd[fn] = true
			}
		}
	}
	for changed := true; changed; {
		changed = false
		for _, fn := range A.c.P.Funcs {
			if A.mayLd[fn] || A.exempt[fn] {
				continue
			}
			for _, lc := range A.callsOf(fn) {
				for _, g := range lc.callees {
					if A.mayLd[g] {
						A.mayLd[fn] = true
						changed = true
					}
				}
			}
		}
	}
}

// sccs: Tarjan over the pruned call graph restricted to fns.
func (A *lbAnalysis) sccs(fns []*ssa.Function) {
	index := map[*ssa.Function]int{}
	low := map[*ssa.Function]int{}
	on := map[*ssa.Function]bool{}
	var stack []*ssa.Function
	n, id := 0, 0
	inSet := map[*ssa.Function]bool{}
	for _, f := range fns {
		inSet[f] = true
	}
	var strong func(v *ssa.Function)
	strong = func(v *ssa.Function) {
		n++
		index[v], low[v] = n, n
		stack = append(stack, v)
		on[v] = true
		self := false
		for _, lc := range A.callsOf(v) {
			for _, w := range lc.callees {
				if !inSet[w] {
					continue
				}
				if w == v {
					self = true
				}
				if index[w] == 0 {
					strong(w)
					if low[w] < low[v] {
						low[v] = low[w]
					}
				} else if on[w] && index[w] < low[v] {
					low[v] = index[w]
				}
			}
		}
		if low[v] == index[v] {
			id++
			size := 0
			for {
				w := stack[len(stack)-1]
				stack = stack[:len(stack)-1]
				on[w] = false
				A.scc[w] = id
				size++
				if w == v {
					break
				}
			}
			if size > 1 || self {
				A.cyclic[id] = true
			}
		}
	}
	for _, f := range fns {
		if index[f] == 0 {
			strong(f)
		}
	}
}

func (A *lbAnalysis) recursive(fn *ssa.Function) bool { return A.cyclic[A.scc[fn]] }

// callWeight is the cost a call site adds to a path through fn.
func (A *lbAnalysis) callWeight(fn *ssa.Function, lc lbCall) lbCost {
	var w lbCost
	if lc.ext == "Persist.Load" {
		w.L = 1
	}
	for _, g := range lc.callees {
		var x lbCost
		switch {
		case !A.mayLd[g]:
		case A.scc[g] == A.scc[fn] && A.recursive(fn):
			x.R = 1
		case A.isDescent(g):
			x.D = 1
		default:
			gc := A.costOf(g)
			x.L, x.D = gc.L, gc.D
		}
		if x.L > w.L {
			w.L = x.L
		}
		if x.R > w.R {
			w.R = x.R
		}
		if x.D > w.D {
			w.D = x.D
		}
	}
	return w
}

// costOf: maximum, over acyclic paths of active blocks from the entry, of the
// summed call weights (each component maximised separately: an upper bound).
func (A *lbAnalysis) costOf(fn *ssa.Function) lbCost {
	if c, ok := A.cost[fn]; ok {
		return c
	}
	A.cost[fn] = lbCost{} // cut (mutual recursion is handled through R)
	f := A.pr.of(fn)
	wt := map[*ssa.BasicBlock]lbCost{}
	for _, lc := range A.callsOf(fn) {
		w := A.callWeight(fn, lc)
		b := lc.ci.Block()
		x := wt[b]
		x.L += w.L
		x.R += w.R
		x.D += w.D
		wt[b] = x
	}
	// longest path on the condensation of the active CFG: memoised DFS that
	// ignores back edges (a block on the current stack); loops contribute
	// their blocks once — loads inside loops are reported separately.
	memo := map[*ssa.BasicBlock]lbCost{}
	state := map[*ssa.BasicBlock]int{}
	var dfs func(b *ssa.BasicBlock) lbCost
	dfs = func(b *ssa.BasicBlock) lbCost {
		if state[b] == 2 {
			return memo[b]
		}
		if state[b] == 1 {
			return lbCost{}
		}
		state[b] = 1
		var best lbCost
		for _, s := range f.succ[b] {
			if !f.active(s) {
				continue
			}
			c := dfs(s)
			if c.L > best.L {
				best.L = c.L
			}
			if c.R > best.R {
				best.R = c.R
			}
			if c.D > best.D {
				best.D = c.D
			}
		}
		w := wt[b]
		best.L += w.L
		best.R += w.R
		best.D += w.D
		state[b] = 2
		memo[b] = best
		return best
	}
	var res lbCost
	if len(fn.Blocks) > 0 && f.active(fn.Blocks[0]) {
		res = dfs(fn.Blocks[0])
	}
	if !A.recursive(fn) && A.mayLd[fn] && len(A.loopInfo(fn).ok) > 0 {
		// a descent loop: each iteration is one level, like one recursive call
		res.R = 1
	}
	A.cost[fn] = res
	return res
}

type lbEntry struct {
	name       string
	maxL, maxD int // bounds for the entry function itself
	recL, recR int // bounds for every recursive function it reaches
	// iter: functions that perform the iteration the property exempts for
	// this entry (tabled by name); they are not entered, so what is bounded is
	// the seek that precedes the iteration.
	iter []string
}

func runLOADBOUND(c *Ctx) {
	P := c.P
	pr := newLpPrune(c)
	if pr.debugFalse {
		c.OK("-", "Mast.debug is never set: edges guarded by it are pruned", pr.debugWhy, false)
	} else {
		c.Note("Mast.debug may be set (%s): debug-print paths are NOT pruned", pr.debugWhy)
		c.Undecided(nil, "-", "Mast.debug may be set", "cannot prune debug-print paths: "+pr.debugWhy+"; the bound would have to hold with full-tree dumps enabled")
	}
	res := newLpResolver(c)
	mk := func(extra []string) *lbAnalysis {
		A := &lbAnalysis{c: c, pr: pr, res: res, exempt: map[*ssa.Function]bool{}, calls: map[*ssa.Function][]lbCall{},
			mayLd: map[*ssa.Function]bool{}, scc: map[*ssa.Function]int{}, cyclic: map[int]bool{}, cost: map[*ssa.Function]lbCost{}, loopMemo: map[*ssa.Function]*lbLoopInfo{}}
		// the property exempts height changes: table of the two height-change functions
		for _, n := range append([]string{"(*Mast).grow", "(*Mast).shrink"}, extra...) {
			if fn := c.MustFunc(n); fn != nil {
				A.exempt[fn] = true
			}
		}
		A.computeMayLoad()
		A.sccs(append([]*ssa.Function(nil), c.P.Funcs...))
		return A
	}
	A := mk(nil)
	table := []lbEntry{
		{"(*Mast).Get", 1, 1, 1, 1, nil},
		{"(*Mast).Insert", 2, 2, 2, 2, nil},
		{"(*Mast).Delete", 2, 2, 2, 2, nil},
		{"(*Root).LoadMast", 1, 0, 0, 0, nil},
		{"(*Mast).Clone", 1, 0, 0, 0, nil},
		{"(*Mast).Cursor", 2, 0, 0, 0, nil},
		// SeekIter = a lookup-like seek (one read per level down to the leaves,
		// height+1 in all) followed by the exempt iteration
		{"(*Mast).SeekIter", 1, 1, 1, 1, []string{"(*mastNode).seekIter"}},
	}

	// anchor: the read primitive must exist
	anyLoad := false
	for _, fn := range P.Funcs {
		if A.mayLd[fn] {
			anyLoad = true
		}
	}
	if !anyLoad {
		c.AnchorMissing("a call of Persist.Load")
		return
	}

	reportedLoop := map[string]bool{}
	checkedFn := map[*ssa.Function]lbEntry{} // strictest bounds seen for a recursive function
	A0 := A
	for _, e := range table {
		entry := c.MustFunc(e.name)
		if entry == nil {
			continue
		}
		A := A0
		if len(e.iter) > 0 {
			A = mk(e.iter)
		}
		reach, prev := A.reach([]*ssa.Function{entry})
		var fns []*ssa.Function
		for fn := range reach {
			fns = append(fns, fn)
		}
		sort.Slice(fns, func(i, j int) bool { return ir.PosLess(fns[i].Pos(), fns[j].Pos()) })

		// (a) no may-load call inside a loop of a reachable function
		for _, fn := range fns {
			f := pr.of(fn)
			for _, lc := range A.callsOf(fn) {
				ml := lc.ext == "Persist.Load"
				name := lc.ext
				for _, g := range lc.callees {
					if A.mayLd[g] {
						ml = true
						name = ir.FuncName(g)
					}
				}
				if !ml {
					continue
				}
				what := fmt.Sprintf("read call %s in %s (from %s)", name, ir.FuncName(fn), e.name)
				if why, ok := A.loopInfo(fn).ok[lc.ci]; ok && f.inCycle(lc.ci.Block()) {
					c.OK(P.InstrPos(lc.ci), what, why, false)
				} else if f.inCycle(lc.ci.Block()) {
					key := ir.FuncName(fn) + "|" + name
					construct := "read in loop: call " + name
					chain := lbChain(prev, fn)
					msg := fmt.Sprintf("%s calls %s inside a loop: the number of nodes read grows with the width of a node or the size of the tree; reached from %s via %s",
						ir.FuncName(fn), name, e.name, fmtChain(chain))
					if why := A.loopInfo(fn).reject[lc.ci]; why != "" {
						msg += "; not a one-level-per-iteration descent loop: " + why
					}
					if !reportedLoop[key] {
						reportedLoop[key] = true
					}
					c.Violation(fn, P.InstrPos(lc.ci), construct, msg, "chain: "+fmtChain(chain))
				} else {
					c.OK(P.InstrPos(lc.ci), what, "not in a loop of live, non-panicking blocks", false)
				}
			}
			// closures that may load and are not called directly
			for _, b := range fn.Blocks {
				if !f.active(b) {
					continue
				}
				for _, ins := range b.Instrs {
					mc, ok := ins.(*ssa.MakeClosure)
					if !ok {
						continue
					}
					g, _ := mc.Fn.(*ssa.Function)
					if g == nil || !A.mayLd[g] {
						continue
					}
					direct := true
					if mc.Referrers() != nil {
						for _, r := range *mc.Referrers() {
							if _, ok := r.(*ssa.DebugRef); ok {
								continue
							}
							ci, ok := r.(ssa.CallInstruction)
							if !ok || ci.Common().Value != ssa.Value(mc) {
								direct = false
							}
						}
					}
					if !direct {
						c.Undecided(fn, P.InstrPos(mc), "closure "+g.Name()+" may read nodes",
							"a function literal that may reach Persist.Load is passed around as a value; how often it runs cannot be bounded")
					}
				}
			}
		}

		// (b) per-invocation bounds of the recursive functions reached
		for _, fn := range fns {
			if !A.mayLd[fn] || !A.isDescent(fn) {
				continue
			}
			k := A.costOf(fn)
			chain := lbChain(prev, fn)
			what := fmt.Sprintf("descent %s reached from %s: reads=%d recursive calls=%d nested descents=%d (bounds %d/%d/0)",
				ir.FuncName(fn), e.name, k.L, k.R, k.D, e.recL, e.recR)
			old, seen := checkedFn[fn]
			_ = old
			bad := false
			if e.recL == 0 && e.recR == 0 {
				// entries that must not descend at all are handled at the entry
				continue
			}
			if k.L > e.recL {
				bad = true
				c.Violation(fn, P.Pos(fn.Pos()), fmt.Sprintf("reads per invocation > %d", e.recL),
					fmt.Sprintf("%s can read %d nodes per invocation on one path (bound %d for what %s reaches): reads per level exceed the search path; via %s",
						ir.FuncName(fn), k.L, e.recL, e.name, fmtChain(chain)), "chain: "+fmtChain(chain))
			}
			if k.R > e.recR {
				bad = true
				c.Violation(fn, P.Pos(fn.Pos()), fmt.Sprintf("recursive calls per invocation > %d", e.recR),
					fmt.Sprintf("%s can call itself %d times per invocation on one path (bound %d for what %s reaches): the recursion fans out over the tree; via %s",
						ir.FuncName(fn), k.R, e.recR, e.name, fmtChain(chain)), "chain: "+fmtChain(chain))
			}
			if k.D > 0 {
				bad = true
				c.Violation(fn, P.Pos(fn.Pos()), "descent inside a descent",
					fmt.Sprintf("%s is recursive and on each level starts another recursive descent that reads nodes (%d): reads are not bounded by 2·(height+1); via %s",
						ir.FuncName(fn), k.D, fmtChain(chain)), "chain: "+fmtChain(chain))
			}
			if !bad {
				c.OK(P.Pos(fn.Pos()), what, "within bounds on every path", false)
			}
			if !seen {
				checkedFn[fn] = e
			}
		}

		// (c) the entry point itself
		k := A.costOf(entry)
		if A.recursive(entry) {
			c.Undecided(entry, P.Pos(entry.Pos()), "entry point is recursive", "entry point "+e.name+" is part of a call-graph cycle; the per-operation bound is not defined for it")
			continue
		}
		what := fmt.Sprintf("entry %s: reads outside descents=%d (bound %d), descents started=%d (bound %d)", e.name, k.L, e.maxL, k.D, e.maxD)
		bad := false
		if k.D > e.maxD {
			bad = true
			// name the descents
			var names []string
			for _, fn := range fns {
				if A.mayLd[fn] && A.isDescent(fn) {
					names = append(names, ir.FuncName(fn))
				}
			}
			sort.Strings(names)
			construct := fmt.Sprintf("descents > %d", e.maxD)
			msg := fmt.Sprintf("%s can start %d recursive descents that read nodes on one path (bound %d); recursive readers reachable: %v", e.name, k.D, e.maxD, names)
			if e.maxD == 0 {
				construct = "reads below the top node"
				msg = fmt.Sprintf("%s must read at most the top node but reaches recursive reader(s) %v", e.name, names)
			}
			c.Violation(entry, P.Pos(entry.Pos()), construct, msg)
		}
		if k.L > e.maxL {
			bad = true
			c.Violation(entry, P.Pos(entry.Pos()), fmt.Sprintf("reads > %d", e.maxL),
				fmt.Sprintf("%s can read %d nodes outside its descents on one path (bound %d)", e.name, k.L, e.maxL))
		}
		if !bad {
			c.OK(P.Pos(entry.Pos()), what, "within bounds on every path", false)
		}
	}
}

// ---- descent loops ---------------------------------------------------------------
//
// The iterative form of the one-child-per-level recursion:
//
//	for { …; if cur == target { return }; child := load(…node…); cur--; node = child }
//
// A CFG loop of fn is a descent loop when (1) it contains exactly one call that
// may read nodes, that call reads at most one node, starts no other descent,
// and runs at most once per iteration; (2) the node it returns becomes the
// loop's current node on every back edge, and the call reads from the current
// node; (3) every iteration that goes round steps a counter by exactly one, and
// a test of that counter, executed before the read in every iteration, leaves
// the loop. Such a loop reads one node per iteration and — under the same
// assumption as for the recursive form, that the counter measures the levels
// left — runs at most height times: the function is then accounted as a
// descent with one read and one "recursive call" per level.

type lbLoopInfo struct {
	ok     map[ssa.CallInstruction]string // accepted read calls -> why
	reject map[ssa.CallInstruction]string // read calls in loops that are not descent loops -> why not
}

func lbMayLoadCall(A *lbAnalysis, lc lbCall) bool {
	if lc.ext == "Persist.Load" {
		return true
	}
	for _, g := range lc.callees {
		if A.mayLd[g] {
			return true
		}
	}
	return false
}

// lbSCC returns the cyclic strongly connected components of fn's active CFG.
func lbSCC(f *lpFunc) [][]*ssa.BasicBlock {
	index := map[*ssa.BasicBlock]int{}
	low := map[*ssa.BasicBlock]int{}
	on := map[*ssa.BasicBlock]bool{}
	var stack []*ssa.BasicBlock
	var out [][]*ssa.BasicBlock
	n := 0
	var strong func(v *ssa.BasicBlock)
	strong = func(v *ssa.BasicBlock) {
		n++
		index[v], low[v] = n, n
		stack = append(stack, v)
		on[v] = true
		self := false
		for _, w := range f.succ[v] {
			if !f.active(w) {
				continue
			}
			if w == v {
				self = true
			}
			if index[w] == 0 {
				strong(w)
				if low[w] < low[v] {
					low[v] = low[w]
				}
			} else if on[w] && index[w] < low[v] {
				low[v] = index[w]
			}
		}
		if low[v] == index[v] {
			var comp []*ssa.BasicBlock
			for {
				w := stack[len(stack)-1]
				stack = stack[:len(stack)-1]
				on[w] = false
				comp = append(comp, w)
				if w == v {
					break
				}
			}
			if len(comp) > 1 || self {
				out = append(out, comp)
			}
		}
	}
	for _, b := range f.fn.Blocks {
		if f.active(b) && index[b] == 0 {
			strong(b)
		}
	}
	return out
}

// lbDerives: v is the current node (isCur) or is read out of it.
func lbDerives(v ssa.Value, isCur func(ssa.Value) bool, d int) bool {
	if isCur(v) {
		return true
	}
	if d > 8 {
		return false
	}
	switch x := v.(type) {
	case *ssa.UnOp:
		return lbDerives(x.X, isCur, d+1)
	case *ssa.FieldAddr:
		return lbDerives(x.X, isCur, d+1)
	case *ssa.IndexAddr:
		return lbDerives(x.X, isCur, d+1)
	case *ssa.MakeInterface:
		return lbDerives(x.X, isCur, d+1)
	case *ssa.ChangeInterface:
		return lbDerives(x.X, isCur, d+1)
	}
	return false
}

func lbConstOne(v ssa.Value) bool {
	n, ok := lmConstInt(v)
	return ok && n == 1
}

// loopInfo classifies the read calls that sit in CFG loops of fn.
func (A *lbAnalysis) loopInfo(fn *ssa.Function) *lbLoopInfo {
	if li, ok := A.loopMemo[fn]; ok {
		return li
	}
	li := &lbLoopInfo{ok: map[ssa.CallInstruction]string{}, reject: map[ssa.CallInstruction]string{}}
	A.loopMemo[fn] = li
	f := A.pr.of(fn)
	for _, comp := range lbSCC(f) {
		in := map[*ssa.BasicBlock]bool{}
		for _, b := range comp {
			in[b] = true
		}
		var reads []lbCall
		for _, lc := range A.callsOf(fn) {
			if in[lc.ci.Block()] && lbMayLoadCall(A, lc) {
				reads = append(reads, lc)
			}
		}
		if len(reads) == 0 {
			continue
		}
		why := A.descentLoop(fn, f, comp, in, reads)
		for _, lc := range reads {
			if why == "" {
				li.ok[lc.ci] = "descent loop: the only read of the loop, at most one node per iteration; its result becomes the current node on every back edge; every iteration steps a counter that an exit test checks before the read"
			} else {
				li.reject[lc.ci] = why
			}
		}
	}
	return li
}

// descentLoop returns "" if the loop is a descent loop, else why it is not.
func (A *lbAnalysis) descentLoop(fn *ssa.Function, f *lpFunc, comp []*ssa.BasicBlock, in map[*ssa.BasicBlock]bool, reads []lbCall) string {
	// (1) exactly one read call, one node at most, no descent, once per iteration
	if len(reads) != 1 {
		return fmt.Sprintf("the loop contains %d calls that may read nodes", len(reads))
	}
	rd := reads[0]
	call, ok := rd.ci.(*ssa.Call)
	if !ok {
		return "the read is a go/defer statement"
	}
	var w lbCost
	if rd.ext == "Persist.Load" {
		w.L = 1
	}
	for _, g := range rd.callees {
		if !A.mayLd[g] {
			continue
		}
		if A.scc[g] == A.scc[fn] && A.recursive(fn) {
			return "the read call is a recursive call"
		}
		if A.isDescent(g) {
			return "the call in the loop starts a descent of its own (" + ir.FuncName(g) + ")"
		}
		gc := A.costOf(g)
		if gc.D > 0 {
			return "the call in the loop starts a descent of its own (inside " + ir.FuncName(g) + ")"
		}
		if gc.L > w.L {
			w.L = gc.L
		}
	}
	if w.L > 1 {
		return fmt.Sprintf("one iteration can read %d nodes", w.L)
	}
	var hdr *ssa.BasicBlock
	for _, b := range comp {
		for _, p := range b.Preds {
			if !in[p] && f.active(p) {
				if hdr != nil && hdr != b {
					return "the loop has several entry blocks"
				}
				hdr = b
			}
		}
		if b == fn.Blocks[0] {
			if hdr != nil && hdr != b {
				return "the loop has several entry blocks"
			}
			hdr = b
		}
	}
	if hdr == nil {
		return "the loop has no entry block"
	}
	// once per iteration: without the header the read's block is on no cycle
	{
		seen := map[*ssa.BasicBlock]bool{}
		work := []*ssa.BasicBlock{}
		for _, s := range f.succ[call.Block()] {
			if in[s] && s != hdr && f.active(s) {
				work = append(work, s)
			}
		}
		for len(work) > 0 {
			x := work[len(work)-1]
			work = work[:len(work)-1]
			if seen[x] {
				continue
			}
			seen[x] = true
			for _, s := range f.succ[x] {
				if in[s] && s != hdr && f.active(s) {
					work = append(work, s)
				}
			}
		}
		if seen[call.Block()] {
			return "the read sits in an inner loop: it can run several times per iteration"
		}
	}
	// (2) the loaded node becomes the current node on every back edge
	var loaded []ssa.Value
	if isNodePtr(call.Type()) {
		loaded = append(loaded, call)
	}
	if call.Referrers() != nil {
		for _, r := range *call.Referrers() {
			if ex, ok := r.(*ssa.Extract); ok && isNodePtr(ex.Type()) {
				loaded = append(loaded, ex)
			}
		}
	}
	var latches []*ssa.BasicBlock
	for _, p := range hdr.Preds {
		if in[p] && f.active(p) {
			latches = append(latches, p)
		}
	}
	var cur *ssa.Phi
	for _, ins := range hdr.Instrs {
		phi, ok := ins.(*ssa.Phi)
		if !ok {
			break
		}
		if !isNodePtr(phi.Type()) {
			continue
		}
		all := true
		for i, e := range phi.Edges {
			if !in[hdr.Preds[i]] || !f.active(hdr.Preds[i]) {
				continue
			}
			is := false
			for _, l := range loaded {
				if e == l {
					is = true
				}
			}
			if !is {
				all = false
			}
		}
		if all && len(latches) > 0 {
			cur = phi
			break
		}
	}
	// the current node may live in a cell (a variable captured by a function
	// literal): then the loop stores the read node into the cell before every
	// back edge, nothing else writes the cell in the loop, and the read starts
	// from a load of the cell.
	var cell *ssa.Alloc
	if cur == nil && len(latches) > 0 {
		cell = lbNodeCell(comp, loaded, latches)
	}
	isCur := func(v ssa.Value) bool {
		if cur != nil {
			return v == ssa.Value(cur)
		}
		u, ok := v.(*ssa.UnOp)
		return ok && u.Op == token.MUL && u.X == ssa.Value(cell)
	}
	if cur == nil && cell == nil {
		return "the node that was read does not become the loop's current node on every back edge (the next iteration may read the same child again, or reads are made for each entry of one node)"
	}
	fromCur := false
	for _, a := range call.Call.Args {
		if lbDerives(a, isCur, 0) {
			fromCur = true
		}
	}
	if !fromCur {
		return "the read does not start from the loop's current node"
	}
	// (3) a counter stepped by one in every iteration, tested before the read
	domLatches := func(b *ssa.BasicBlock) bool {
		for _, l := range latches {
			if b != l && !b.Dominates(l) {
				return false
			}
		}
		return true
	}
	// counter candidates: symbolic address (memory) or phi (register)
	type counter struct {
		sym string   // "*"+address for memory counters
		phi *ssa.Phi // register counters
	}
	var counters []counter
	for _, b := range comp {
		for _, ins := range b.Instrs {
			st, ok := ins.(*ssa.Store)
			if !ok || !domLatches(b) {
				continue
			}
			bin, ok := st.Val.(*ssa.BinOp)
			if !ok || (bin.Op != token.ADD && bin.Op != token.SUB) || !lbConstOne(bin.Y) {
				continue
			}
			ld, ok := bin.X.(*ssa.UnOp)
			if !ok || ld.Op != token.MUL || ir.Sym(ld.X) != ir.Sym(st.Addr) {
				continue
			}
			// no other store to the counter in the loop
			only := true
			for _, bb := range comp {
				for _, x := range bb.Instrs {
					if o, ok := x.(*ssa.Store); ok && o != st && ir.Sym(o.Addr) == ir.Sym(st.Addr) {
						only = false
					}
				}
			}
			if only {
				counters = append(counters, counter{sym: "*" + ir.Sym(st.Addr)})
			}
		}
	}
	for _, ins := range hdr.Instrs {
		phi, ok := ins.(*ssa.Phi)
		if !ok {
			break
		}
		if !lmIsInt(phi.Type()) {
			continue
		}
		all := true
		for i, e := range phi.Edges {
			if !in[hdr.Preds[i]] || !f.active(hdr.Preds[i]) {
				continue
			}
			if n, ok := lmPhiPlus(e, phi); !ok || (n != 1 && n != -1) {
				all = false
			}
		}
		if all {
			counters = append(counters, counter{phi: phi})
		}
	}
	if len(counters) == 0 {
		return "no counter is stepped by one in every iteration that reads (nothing bounds the number of iterations by the height)"
	}
	mentions := func(v ssa.Value, ct counter) bool {
		v = ir.ResolveCell(v)
		if ct.phi != nil {
			if _, ok := lmPhiPlus(v, ct.phi); ok {
				return true
			}
			return false
		}
		if b, ok := v.(*ssa.BinOp); ok && (b.Op == token.ADD || b.Op == token.SUB) {
			if _, isC := lmConstInt(b.Y); isC {
				v = b.X
			}
		}
		for i := 0; i < 3; i++ {
			if cv, ok := v.(*ssa.Convert); ok {
				v = cv.X
			}
		}
		return ir.Sym(v) == ct.sym
	}
	for _, ct := range counters {
		for _, b := range comp {
			if len(b.Instrs) == 0 {
				continue
			}
			iff, ok := b.Instrs[len(b.Instrs)-1].(*ssa.If)
			if !ok {
				continue
			}
			leaves := false
			for _, s := range b.Succs {
				if !in[s] {
					leaves = true
				}
			}
			if !leaves || !(b == call.Block() || b.Dominates(call.Block())) {
				continue
			}
			if b == call.Block() {
				continue // the test follows the read in its block
			}
			cond := iff.Cond
			for {
				u, ok := cond.(*ssa.UnOp)
				if !ok || u.Op != token.NOT {
					break
				}
				cond = u.X
			}
			bin, ok := cond.(*ssa.BinOp)
			if !ok || lpNegOp(bin.Op) == token.ILLEGAL {
				continue
			}
			if mentions(bin.X, ct) || mentions(bin.Y, ct) {
				return ""
			}
		}
	}
	return "a counter is stepped in every iteration, but no test of it that leaves the loop is executed before the read"
}

// isDescent: fn reads one level per recursive call or per loop iteration.
func (A *lbAnalysis) isDescent(fn *ssa.Function) bool {
	if A.recursive(fn) {
		return true
	}
	return A.mayLd[fn] && len(A.loopInfo(fn).ok) > 0
}

// lbNodeCell finds the cell holding the loop's current node: a local *mastNode
// variable spilled to the heap, whose only store inside the loop stores the
// node that was read, in a block every back edge passes through, and which no
// function literal capturing it writes.
func lbNodeCell(comp []*ssa.BasicBlock, loaded []ssa.Value, latches []*ssa.BasicBlock) *ssa.Alloc {
	in := map[*ssa.BasicBlock]bool{}
	for _, b := range comp {
		in[b] = true
	}
	for _, b := range comp {
		for _, ins := range b.Instrs {
			st, ok := ins.(*ssa.Store)
			if !ok {
				continue
			}
			c, ok := st.Addr.(*ssa.Alloc)
			if !ok || !isNodePtr(st.Val.Type()) {
				continue
			}
			is := false
			for _, l := range loaded {
				if st.Val == l {
					is = true
				}
			}
			if !is {
				continue
			}
			good := true
			for _, l := range latches {
				if b != l && !b.Dominates(l) {
					good = false
				}
			}
			if c.Referrers() == nil {
				continue
			}
			for _, r := range *c.Referrers() {
				switch x := r.(type) {
				case *ssa.Store:
					if x.Addr != ssa.Value(c) || (x != st && in[x.Block()]) {
						good = false
					}
				case *ssa.UnOp, *ssa.DebugRef:
				case *ssa.MakeClosure:
					g, _ := x.Fn.(*ssa.Function)
					for i, bnd := range x.Bindings {
						if bnd != ssa.Value(c) || g == nil || i >= len(g.FreeVars) {
							continue
						}
						fv := g.FreeVars[i]
						if fv.Referrers() == nil {
							continue
						}
						for _, rr := range *fv.Referrers() {
							switch rr.(type) {
							case *ssa.UnOp, *ssa.DebugRef:
							default:
								good = false // written or passed on inside the literal
							}
						}
					}
				default:
					good = false
				}
			}
			if good {
				return c
			}
		}
	}
	return nil
}
