package rules

import (
	"fmt"
	"sort"

	"golang.org/x/tools/go/ssa"

	"mastcheck/ir"
)

func init() {
	Register(&Rule{
		ID:    "LOADBOUND",
		Props: []string{"C16"},
		Min:   10,
		Doc: "point operations read only the search path: with constant-false and Mast.debug=false edges pruned (after verifying that nothing sets " +
			"Mast.debug) and panic-bound blocks excluded, in everything reachable from Get, Insert, Delete (not entering the tabled height-change " +
			"functions grow/shrink), LoadMast, Clone and Cursor: no call that may reach Persist.Load sits in a CFG loop; per invocation a function " +
			"performs at most 2 node reads and at most 2 recursive calls on any path (1 and 1 for what Get reaches), a recursive descent starts no " +
			"other descent, an entry point starts at most 2 descents (Get: 1), and LoadMast, Clone and Cursor start none and read at most one node " +
			"(Cursor: Clone's read plus the reload of the clone's root).",
		Run: runLOADBOUND,
	})
	Assume("C16", "each recursive call of a descent (findNode, split, mergeNodes) moves one level down the tree, so the recursion depth is at most height+1 (LOADBOUND bounds reads per level, not levels)",
		"Cursor.Min/Max/Forward/Backward/Ceil are not point operations of the property and are not bounded by LOADBOUND")
}

// lbCost is the per-invocation read cost of a function on its worst path.
type lbCost struct {
	L int // node reads (Persist.Load reached through non-recursive calls)
	R int // calls back into the function's own call-graph SCC
	D int // calls that start a recursive descent in another SCC
}

type lbAnalysis struct {
	c      *Ctx
	pr     *lpPrune
	res    *lpResolver
	exempt map[*ssa.Function]bool
	calls  map[*ssa.Function][]lbCall // call sites in active blocks
	mayLd  map[*ssa.Function]bool
	scc    map[*ssa.Function]int
	cyclic map[int]bool
	cost   map[*ssa.Function]lbCost
	done   map[*ssa.Function]bool
}

type lbCall struct {
	ci      ssa.CallInstruction
	callees []*ssa.Function
	ext     string
}

func (A *lbAnalysis) callsOf(fn *ssa.Function) []lbCall {
	if cs, ok := A.calls[fn]; ok {
		return cs
	}
	f := A.pr.of(fn)
	var out []lbCall
	for _, b := range fn.Blocks {
		if !f.active(b) {
			continue
		}
		for _, ins := range b.Instrs {
			ci, ok := ins.(ssa.CallInstruction)
			if !ok {
				continue
			}
			lc := lbCall{ci: ci, ext: A.c.Facts.External(ci)}
			for _, g := range A.res.Callees(ci) {
				if !A.exempt[g] {
					lc.callees = append(lc.callees, g)
				}
			}
			out = append(out, lc)
		}
	}
	A.calls[fn] = out
	return out
}

// reach: functions reachable from the entries through calls in active blocks,
// never entering an exempt function; closures created in active blocks are
// included (they run at most when created code calls them).
func (A *lbAnalysis) reach(entries []*ssa.Function) (map[*ssa.Function]bool, map[*ssa.Function]*ssa.Function) {
	seen := map[*ssa.Function]bool{}
	prev := map[*ssa.Function]*ssa.Function{}
	var q []*ssa.Function
	for _, e := range entries {
		if e != nil && !seen[e] {
			seen[e] = true
			q = append(q, e)
		}
	}
	for len(q) > 0 {
		fn := q[0]
		q = q[1:]
		var next []*ssa.Function
		for _, lc := range A.callsOf(fn) {
			next = append(next, lc.callees...)
		}
		f := A.pr.of(fn)
		for _, b := range fn.Blocks {
			if !f.active(b) {
				continue
			}
			for _, ins := range b.Instrs {
				if mc, ok := ins.(*ssa.MakeClosure); ok {
					if g, ok := mc.Fn.(*ssa.Function); ok && !A.exempt[g] {
						next = append(next, g)
					}
				}
			}
		}
		for _, g := range next {
			if !seen[g] && g.Blocks != nil {
				seen[g] = true
				prev[g] = fn
				q = append(q, g)
			}
		}
	}
	return seen, prev
}

func lbChain(prev map[*ssa.Function]*ssa.Function, fn *ssa.Function) []string {
	var chain []string
	for f := fn; f != nil; f = prev[f] {
		chain = append([]string{ir.FuncName(f)}, chain...)
		if len(chain) > 20 {
			break
		}
	}
	return chain
}

// computeMayLoad: pruned may-reach-Persist.Load over all functions.
func (A *lbAnalysis) computeMayLoad() {
	for _, fn := range A.c.P.Funcs {
		for _, lc := range A.callsOf(fn) {
			if lc.ext == "Persist.Load" {
				A.mayLd[fn] = true
			}
		}
	}
	for changed := true; changed; {
		changed = false
		for _, fn := range A.c.P.Funcs {
			if A.mayLd[fn] || A.exempt[fn] {
				continue
			}
			for _, lc := range A.callsOf(fn) {
				for _, g := range lc.callees {
					if A.mayLd[g] {
						A.mayLd[fn] = true
						changed = true
					}
				}
			}
		}
	}
}

// sccs: Tarjan over the pruned call graph restricted to fns.
func (A *lbAnalysis) sccs(fns []*ssa.Function) {
	index := map[*ssa.Function]int{}
	low := map[*ssa.Function]int{}
	on := map[*ssa.Function]bool{}
	var stack []*ssa.Function
	n, id := 0, 0
	inSet := map[*ssa.Function]bool{}
	for _, f := range fns {
		inSet[f] = true
	}
	var strong func(v *ssa.Function)
	strong = func(v *ssa.Function) {
		n++
		index[v], low[v] = n, n
		stack = append(stack, v)
		on[v] = true
		self := false
		for _, lc := range A.callsOf(v) {
			for _, w := range lc.callees {
				if !inSet[w] {
					continue
				}
				if w == v {
					self = true
				}
				if index[w] == 0 {
					strong(w)
					if low[w] < low[v] {
						low[v] = low[w]
					}
				} else if on[w] && index[w] < low[v] {
					low[v] = index[w]
				}
			}
		}
		if low[v] == index[v] {
			id++
			size := 0
			for {
				w := stack[len(stack)-1]
				stack = stack[:len(stack)-1]
				on[w] = false
				A.scc[w] = id
				size++
				if w == v {
					break
				}
			}
			if size > 1 || self {
				A.cyclic[id] = true
			}
		}
	}
	for _, f := range fns {
		if index[f] == 0 {
			strong(f)
		}
	}
}

func (A *lbAnalysis) recursive(fn *ssa.Function) bool { return A.cyclic[A.scc[fn]] }

// callWeight is the cost a call site adds to a path through fn.
func (A *lbAnalysis) callWeight(fn *ssa.Function, lc lbCall) lbCost {
	var w lbCost
	if lc.ext == "Persist.Load" {
		w.L = 1
	}
	for _, g := range lc.callees {
		var x lbCost
		switch {
		case !A.mayLd[g]:
		case A.scc[g] == A.scc[fn] && A.recursive(fn):
			x.R = 1
		case A.recursive(g):
			x.D = 1
		default:
			gc := A.costOf(g)
			x.L, x.D = gc.L, gc.D
		}
		if x.L > w.L {
			w.L = x.L
		}
		if x.R > w.R {
			w.R = x.R
		}
		if x.D > w.D {
			w.D = x.D
		}
	}
	return w
}

// costOf: maximum, over acyclic paths of active blocks from the entry, of the
// summed call weights (each component maximised separately: an upper bound).
func (A *lbAnalysis) costOf(fn *ssa.Function) lbCost {
	if c, ok := A.cost[fn]; ok {
		return c
	}
	A.cost[fn] = lbCost{} // cut (mutual recursion is handled through R)
	f := A.pr.of(fn)
	wt := map[*ssa.BasicBlock]lbCost{}
	for _, lc := range A.callsOf(fn) {
		w := A.callWeight(fn, lc)
		b := lc.ci.Block()
		x := wt[b]
		x.L += w.L
		x.R += w.R
		x.D += w.D
		wt[b] = x
	}
	// longest path on the condensation of the active CFG: memoised DFS that
	// ignores back edges (a block on the current stack); loops contribute
	// their blocks once — loads inside loops are reported separately.
	memo := map[*ssa.BasicBlock]lbCost{}
	state := map[*ssa.BasicBlock]int{}
	var dfs func(b *ssa.BasicBlock) lbCost
	dfs = func(b *ssa.BasicBlock) lbCost {
		if state[b] == 2 {
			return memo[b]
		}
		if state[b] == 1 {
			return lbCost{}
		}
		state[b] = 1
		var best lbCost
		for _, s := range f.succ[b] {
			if !f.active(s) {
				continue
			}
			c := dfs(s)
			if c.L > best.L {
				best.L = c.L
			}
			if c.R > best.R {
				best.R = c.R
			}
			if c.D > best.D {
				best.D = c.D
			}
		}
		w := wt[b]
		best.L += w.L
		best.R += w.R
		best.D += w.D
		state[b] = 2
		memo[b] = best
		return best
	}
	var res lbCost
	if len(fn.Blocks) > 0 && f.active(fn.Blocks[0]) {
		res = dfs(fn.Blocks[0])
	}
	A.cost[fn] = res
	return res
}

type lbEntry struct {
	name       string
	maxL, maxD int // bounds for the entry function itself
	recL, recR int // bounds for every recursive function it reaches
}

func runLOADBOUND(c *Ctx) {
	P := c.P
	pr := newLpPrune(c)
	if pr.debugFalse {
		c.OK("-", "Mast.debug is never set: edges guarded by it are pruned", pr.debugWhy, false)
	} else {
		c.Note("Mast.debug may be set (%s): debug-print paths are NOT pruned", pr.debugWhy)
		c.Undecided(nil, "-", "Mast.debug may be set", "cannot prune debug-print paths: "+pr.debugWhy+"; the bound would have to hold with full-tree dumps enabled")
	}
	A := &lbAnalysis{c: c, pr: pr, res: newLpResolver(c), exempt: map[*ssa.Function]bool{}, calls: map[*ssa.Function][]lbCall{},
		mayLd: map[*ssa.Function]bool{}, scc: map[*ssa.Function]int{}, cyclic: map[int]bool{}, cost: map[*ssa.Function]lbCost{}}
	// the property exempts height changes: table of the two height-change functions
	for _, n := range []string{"(*Mast).grow", "(*Mast).shrink"} {
		if fn := c.MustFunc(n); fn != nil {
			A.exempt[fn] = true
		}
	}
	table := []lbEntry{
		{"(*Mast).Get", 1, 1, 1, 1},
		{"(*Mast).Insert", 2, 2, 2, 2},
		{"(*Mast).Delete", 2, 2, 2, 2},
		{"(*Root).LoadMast", 1, 0, 0, 0},
		{"(*Mast).Clone", 1, 0, 0, 0},
		{"(*Mast).Cursor", 2, 0, 0, 0},
	}
	A.computeMayLoad()
	var all []*ssa.Function
	all = append(all, P.Funcs...)
	A.sccs(all)

	// anchor: the read primitive must exist
	anyLoad := false
	for _, fn := range P.Funcs {
		if A.mayLd[fn] {
			anyLoad = true
		}
	}
	if !anyLoad {
		c.AnchorMissing("a call of Persist.Load")
		return
	}

	reportedLoop := map[string]bool{}
	checkedFn := map[*ssa.Function]lbEntry{} // strictest bounds seen for a recursive function
	for _, e := range table {
		entry := c.MustFunc(e.name)
		if entry == nil {
			continue
		}
		reach, prev := A.reach([]*ssa.Function{entry})
		var fns []*ssa.Function
		for fn := range reach {
			fns = append(fns, fn)
		}
		sort.Slice(fns, func(i, j int) bool { return fns[i].Pos() < fns[j].Pos() })

		// (a) no may-load call inside a loop of a reachable function
		for _, fn := range fns {
			f := pr.of(fn)
			for _, lc := range A.callsOf(fn) {
				ml := lc.ext == "Persist.Load"
				name := lc.ext
				for _, g := range lc.callees {
					if A.mayLd[g] {
						ml = true
						name = ir.FuncName(g)
					}
				}
				if !ml {
					continue
				}
				what := fmt.Sprintf("read call %s in %s (from %s)", name, ir.FuncName(fn), e.name)
				if f.inCycle(lc.ci.Block()) {
					key := ir.FuncName(fn) + "|" + name
					construct := "read in loop: call " + name
					chain := lbChain(prev, fn)
					msg := fmt.Sprintf("%s calls %s inside a loop: the number of nodes read grows with the width of a node or the size of the tree; reached from %s via %s",
						ir.FuncName(fn), name, e.name, fmtChain(chain))
					if !reportedLoop[key] {
						reportedLoop[key] = true
					}
					c.Violation(fn, P.InstrPos(lc.ci), construct, msg, "chain: "+fmtChain(chain))
				} else {
					c.OK(P.InstrPos(lc.ci), what, "not in a loop of live, non-panicking blocks", false)
				}
			}
			// closures that may load and are not called directly
			for _, b := range fn.Blocks {
				if !f.active(b) {
					continue
				}
				for _, ins := range b.Instrs {
					mc, ok := ins.(*ssa.MakeClosure)
					if !ok {
						continue
					}
					g, _ := mc.Fn.(*ssa.Function)
					if g == nil || !A.mayLd[g] {
						continue
					}
					direct := true
					if mc.Referrers() != nil {
						for _, r := range *mc.Referrers() {
							if _, ok := r.(*ssa.DebugRef); ok {
								continue
							}
							ci, ok := r.(ssa.CallInstruction)
							if !ok || ci.Common().Value != ssa.Value(mc) {
								direct = false
							}
						}
					}
					if !direct {
						c.Undecided(fn, P.InstrPos(mc), "closure "+g.Name()+" may read nodes",
							"a function literal that may reach Persist.Load is passed around as a value; how often it runs cannot be bounded")
					}
				}
			}
		}

		// (b) per-invocation bounds of the recursive functions reached
		for _, fn := range fns {
			if !A.mayLd[fn] || !A.recursive(fn) {
				continue
			}
			k := A.costOf(fn)
			chain := lbChain(prev, fn)
			what := fmt.Sprintf("descent %s reached from %s: reads=%d recursive calls=%d nested descents=%d (bounds %d/%d/0)",
				ir.FuncName(fn), e.name, k.L, k.R, k.D, e.recL, e.recR)
			old, seen := checkedFn[fn]
			_ = old
			bad := false
			if e.recL == 0 && e.recR == 0 {
				// entries that must not descend at all are handled at the entry
				continue
			}
			if k.L > e.recL {
				bad = true
				c.Violation(fn, P.Pos(fn.Pos()), fmt.Sprintf("reads per invocation > %d", e.recL),
					fmt.Sprintf("%s can read %d nodes per invocation on one path (bound %d for what %s reaches): reads per level exceed the search path; via %s",
						ir.FuncName(fn), k.L, e.recL, e.name, fmtChain(chain)), "chain: "+fmtChain(chain))
			}
			if k.R > e.recR {
				bad = true
				c.Violation(fn, P.Pos(fn.Pos()), fmt.Sprintf("recursive calls per invocation > %d", e.recR),
					fmt.Sprintf("%s can call itself %d times per invocation on one path (bound %d for what %s reaches): the recursion fans out over the tree; via %s",
						ir.FuncName(fn), k.R, e.recR, e.name, fmtChain(chain)), "chain: "+fmtChain(chain))
			}
			if k.D > 0 {
				bad = true
				c.Violation(fn, P.Pos(fn.Pos()), "descent inside a descent",
					fmt.Sprintf("%s is recursive and on each level starts another recursive descent that reads nodes (%d): reads are not bounded by 2·(height+1); via %s",
						ir.FuncName(fn), k.D, fmtChain(chain)), "chain: "+fmtChain(chain))
			}
			if !bad {
				c.OK(P.Pos(fn.Pos()), what, "within bounds on every path", false)
			}
			if !seen {
				checkedFn[fn] = e
			}
		}

		// (c) the entry point itself
		k := A.costOf(entry)
		if A.recursive(entry) {
			c.Undecided(entry, P.Pos(entry.Pos()), "entry point is recursive", "entry point "+e.name+" is part of a call-graph cycle; the per-operation bound is not defined for it")
			continue
		}
		what := fmt.Sprintf("entry %s: reads outside descents=%d (bound %d), descents started=%d (bound %d)", e.name, k.L, e.maxL, k.D, e.maxD)
		bad := false
		if k.D > e.maxD {
			bad = true
			// name the descents
			var names []string
			for _, fn := range fns {
				if A.mayLd[fn] && A.recursive(fn) {
					names = append(names, ir.FuncName(fn))
				}
			}
			sort.Strings(names)
			construct := fmt.Sprintf("descents > %d", e.maxD)
			msg := fmt.Sprintf("%s can start %d recursive descents that read nodes on one path (bound %d); recursive readers reachable: %v", e.name, k.D, e.maxD, names)
			if e.maxD == 0 {
				construct = "reads below the top node"
				msg = fmt.Sprintf("%s must read at most the top node but reaches recursive reader(s) %v", e.name, names)
			}
			c.Violation(entry, P.Pos(entry.Pos()), construct, msg)
		}
		if k.L > e.maxL {
			bad = true
			c.Violation(entry, P.Pos(entry.Pos()), fmt.Sprintf("reads > %d", e.maxL),
				fmt.Sprintf("%s can read %d nodes outside its descents on one path (bound %d)", e.name, k.L, e.maxL))
		}
		if !bad {
			c.OK(P.Pos(entry.Pos()), what, "within bounds on every path", false)
		}
	}
}
