package rules

import (
	"go/token"
	"regexp"
	"strings"

	"golang.org/x/tools/go/ssa"

	"mastcheck/ir"
)

// Thin helpers around the cursor's path (`func (c *Cursor) push(e pathEntry) { c.path = append(c.path, e) }`,
// `func (c *Cursor) pop() { c.path = c.path[:len(c.path)-1] }`): the cursor rules read a call of one as the
// store it stands for.

// pathHelperStore: ins is a call of a repository function that calls nothing but builtins and whose only store
// into navigation state is one store to the path field of a *Cursor parameter (index k). kind is "push" (the
// stored value is an append to the path), "cut" (a reslice with an upper bound) or "" (no such helper).
// must: every return of the helper is preceded by that store.
func pathHelperStore(ins ssa.Instruction) (h *ssa.Function, st *ssa.Store, k int, kind string, must bool) {
	return pathHelperStoreD(ins, 0)
}

func pathHelperStoreD(ins ssa.Instruction, depth int) (h *ssa.Function, st *ssa.Store, k int, kind string, must bool) {
	call, ok := ins.(*ssa.Call)
	if !ok {
		return nil, nil, 0, "", false
	}
	h = ir.Callee(call.Call)
	if h == nil || h.Blocks == nil || h.Pkg == nil || h.Pkg.Pkg.Path() != ir.MastPath {
		return nil, nil, 0, "", false
	}
	// the one effect: a store of the helper's own, or a call of another such helper on the helper's own cursor
	// (`func (c *Cursor) descend(n *mastNode) { c.push(pathEntry{node: n}) }`)
	var inner *ssa.Call
	var innerSt *ssa.Store
	var innerKind string
	var innerMust bool
	var innerP *ssa.Parameter
	for _, b := range h.Blocks {
		for _, i := range b.Instrs {
			switch x := i.(type) {
			case *ssa.Call:
				if _, isB := x.Call.Value.(*ssa.Builtin); !isB {
					if depth >= 2 || inner != nil || st != nil {
						return nil, nil, 0, "", false
					}
					_, st2, k2, kind2, must2 := pathHelperStoreD(x, depth+1)
					if kind2 == "" {
						return nil, nil, 0, "", false
					}
					p2, isP := x.Call.Args[k2].(*ssa.Parameter)
					if !isP || p2.Parent() != h {
						return nil, nil, 0, "", false
					}
					inner, innerSt, innerKind, innerMust, innerP = x, st2, kind2, must2, p2
				}
			case *ssa.Go, *ssa.Defer:
				return nil, nil, 0, "", false
			case *ssa.Store:
				if navStateRoot(x.Addr) == nil {
					continue
				}
				if st != nil || inner != nil || !isCursorPath(x.Addr) {
					return nil, nil, 0, "", false
				}
				st = x
			}
		}
	}
	if inner != nil {
		k = paramIndex(innerP)
		if k < 0 || k >= len(call.Call.Args) {
			return nil, nil, 0, "", false
		}
		target := inner
		must = innerMust && allReturnsPass(h, func(j ssa.Instruction) bool { return j == ssa.Instruction(target) })
		return h, innerSt, k, innerKind, must
	}
	if st == nil {
		return nil, nil, 0, "", false
	}
	p, ok := st.Addr.(*ssa.FieldAddr).X.(*ssa.Parameter)
	if !ok || p.Parent() != h {
		return nil, nil, 0, "", false
	}
	k = paramIndex(p)
	if k < 0 || k >= len(call.Call.Args) {
		return nil, nil, 0, "", false
	}
	switch v := st.Val.(type) {
	case *ssa.Call:
		if b, isB := v.Call.Value.(*ssa.Builtin); isB && b.Name() == "append" && len(v.Call.Args) >= 1 {
			if ld, ok := v.Call.Args[0].(*ssa.UnOp); ok && ld.Op == token.MUL && isCursorPath(ld.X) {
				kind = "push"
			}
		}
	case *ssa.Slice:
		if v.High != nil {
			kind = "cut"
		}
	}
	if kind == "" {
		return nil, nil, 0, "", false
	}
	target := st
	must = allReturnsPass(h, func(j ssa.Instruction) bool { return j == ssa.Instruction(target) })
	return h, st, k, kind, must
}

// pathHelperLoc: the location the helper's store writes, in the caller's terms.
func pathHelperLoc(ins ssa.Instruction) string {
	_, st, k, kind, _ := pathHelperStore(ins)
	if kind == "" {
		return ""
	}
	s := navSym(st.Addr)
	// the store may sit in an inner helper: it names the cursor by that helper's parameter
	pn, an := "P:"+st.Addr.(*ssa.FieldAddr).X.(*ssa.Parameter).Name(), ir.Sym(ins.(*ssa.Call).Call.Args[k])
	if pn != an {
		s = regexp.MustCompile(regexp.QuoteMeta(pn)+`\b`).ReplaceAllString(s, strings.ReplaceAll(an, "$", "$$"))
	}
	return s
}
