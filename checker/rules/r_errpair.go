package rules

import (
	"fmt"
	"go/types"

	"golang.org/x/tools/go/ssa"

	"mastcheck/ir"
)

// ERRPAIR: `v, err := f()` hands back v together with an error; when err is non-nil v is the zero value (an empty
// name, a nil node). Writing v into the tree (a link slot, the root, a field of a node or of the Mast) before err
// has been looked at replaces live state by that zero value on the failure path: the operation reports the error,
// but the tree it leaves behind has lost a subtree.

func init() {
	Register(&Rule{ID: "ERRPAIR", Props: []string{"C03", "C12"}, Min: 4,
		Doc: "a value returned together with an error by a call that can fail (a repository function, Persist.Load/Store, a user callback) is stored into memory that outlives the call " +
			"(through a pointer, a slice element, a parameter's field, a global) only where that error is known to be nil: on the failure edge the value is the zero value and the store would overwrite live tree state with it.",
		Run: runERRPAIR})
}

func runERRPAIR(c *Ctx) {
	P := c.P
	for _, fn := range P.Funcs {
		if fn.Pkg == nil || fn.Pkg.Pkg.Path() != ir.MastPath || c.Facts.debugOnlyFunc(fn) != "" {
			continue
		}
		for _, ci := range CallsOf(fn) {
			call, isCall := ci.(*ssa.Call)
			if !isCall {
				continue
			}
			sig := ci.Common().Signature()
			ei := ir.ErrorResultIndex(sig)
			if ei < 0 || sig.Results().Len() < 2 {
				continue
			}
			may := false
			ext := c.Facts.External(ci)
			for _, f := range c.Facts.Callees(ci) {
				if c.Facts.MayFail[f] {
					may = true
				}
			}
			if ext != "" {
				may = true
			}
			if !may || call.Referrers() == nil {
				continue
			}
			var errV ssa.Value
			var vals []ssa.Value
			for _, r := range *call.Referrers() {
				if ex, ok := r.(*ssa.Extract); ok {
					if ex.Index == ei {
						errV = ex
					} else {
						vals = append(vals, ex)
					}
				}
			}
			for _, v := range vals {
				for _, st := range heapStoresOf(v) {
					what := fmt.Sprintf("result of %s stored to %s", calleeLabel(c, ci), ir.Sym(st.Addr))
					pos := P.InstrPos(st)
					if errV != nil && (nilFactOn(st.Block(), errV, true) || errNilByFlow(st, errV)) {
						c.OK(pos, what, "stored only where the call's error is known to be nil", false)
					} else if base, _, _, isNode := nodeBaseOfAddr(st.Addr); isNode && c.Facts.Own().Classify(base, st).Own == Fresh {
						c.OK(pos, what, "written into a node allocated by this very call (a private copy nobody else sees; it is dropped with the error)", false)
					} else {
						c.Violation(fn, pos, "result stored before its error is checked: "+ir.Sym(st.Addr),
							"the value comes back together with an error and is written into the tree before that error is tested: when the call fails the slot is overwritten with the zero value (an empty name, a nil node) and the subtree it named is lost although the operation reports an error")
					}
				}
			}
		}
	}
}

func calleeLabel(c *Ctx, ci ssa.CallInstruction) string {
	if f := ir.Callee(ci.Common()); f != nil {
		return ir.FuncName(f)
	}
	if ext := c.Facts.External(ci); ext != "" {
		return ext
	}
	return "a fallible call"
}

// errNilByFlow: on every path to st a test has established errV == nil (the test may sit in a block that does not
// dominate the store's block by a single edge, e.g. after a merged diagnostic branch).
func errNilByFlow(st ssa.Instruction, errV ssa.Value) bool {
	return ir.FlowFact(st, func(fc ir.Fact) bool {
		tv, tnn, ok := ir.NilTest(fc.Cond)
		return ok && tv == errV && tnn != fc.Truth
	}, func(ssa.Instruction) bool { return false })
}

// heapStoresOf: the stores of v (possibly boxed into an interface or converted) whose address is reached through a
// pointer, a slice, a parameter, a free variable or a global.
func heapStoresOf(v ssa.Value) []*ssa.Store {
	var out []*ssa.Store
	seen := map[ssa.Value]bool{}
	var walk func(x ssa.Value, d int)
	walk = func(x ssa.Value, d int) {
		if seen[x] || d > 4 || x.Referrers() == nil {
			return
		}
		seen[x] = true
		for _, r := range *x.Referrers() {
			switch y := r.(type) {
			case *ssa.Store:
				if y.Val == x && !localAddr(y.Addr) {
					out = append(out, y)
				}
			case *ssa.MakeInterface:
				walk(y, d+1)
			case *ssa.ChangeType:
				walk(y, d+1)
			case *ssa.ChangeInterface:
				walk(y, d+1)
			case *ssa.Convert:
				walk(y, d+1)
			}
		}
	}
	walk(v, 0)
	return out
}

// localAddr: the address names (part of) a local variable of the enclosing function that no closure or callee sees
// unless the function hands it out itself: an Alloc, or a field / array element of one.
func localAddr(a ssa.Value) bool {
	for i := 0; i < 16; i++ {
		switch x := a.(type) {
		case *ssa.Alloc:
			return true
		case *ssa.FreeVar:
			return i == 0 // the captured variable itself (a local of the enclosing function), not what it points to
		case *ssa.FieldAddr:
			a = x.X
		case *ssa.IndexAddr:
			// element of an array addressed in place; a slice element is heap memory
			if _, isSlice := x.X.Type().Underlying().(*types.Slice); isSlice {
				// a slice made by this very call (`out := make(…)`) is dropped with the error like any local
				_, fresh := ir.ResolveCell(x.X).(*ssa.MakeSlice)
				return fresh
			}
			a = x.X
		default:
			return false
		}
	}
	return false
}
