package rules

import (
	"fmt"
	"go/token"
	"go/types"

	"golang.org/x/tools/go/ssa"

	"mastcheck/ir"
)

// ERRPAIR: `v, err := f()` hands back v together with an error; when err is non-nil v is the zero value (an empty
// name, a nil node). Writing v into the tree (a link slot, the root, a field of a node or of the Mast) before err
// has been looked at replaces live state by that zero value on the failure path: the operation reports the error,
// but the tree it leaves behind has lost a subtree.

func init() {
	Register(&Rule{ID: "ERRPAIR", Props: []string{"C03", "C12"}, Min: 4,
		Doc: "a value returned together with an error by a call that can fail (a repository function, Persist.Load/Store, a user callback) is stored into memory that outlives the call " +
			"(through a pointer, a slice element, a parameter's field, a global) only where that error is known to be nil: on the failure edge the value is the zero value and the store would overwrite live tree state with it.",
		Run: runERRPAIR})
}

func runERRPAIR(c *Ctx) {
	P := c.P
	for _, fn := range P.Funcs {
		if fn.Pkg == nil || fn.Pkg.Pkg.Path() != ir.MastPath || c.Facts.debugOnlyFunc(fn) != "" {
			continue
		}
		for _, ci := range CallsOf(fn) {
			call, isCall := ci.(*ssa.Call)
			if !isCall {
				continue
			}
			sig := ci.Common().Signature()
			ei := ir.ErrorResultIndex(sig)
			if ei < 0 || sig.Results().Len() < 2 {
				continue
			}
			may := false
			ext := c.Facts.External(ci)
			for _, f := range c.Facts.Callees(ci) {
				if c.Facts.MayFail[f] {
					may = true
				}
			}
			if ext != "" {
				may = true
			}
			if !may || call.Referrers() == nil {
				continue
			}
			var errV ssa.Value
			var vals []ssa.Value
			for _, r := range *call.Referrers() {
				if ex, ok := r.(*ssa.Extract); ok {
					if ex.Index == ei {
						errV = ex
					} else {
						vals = append(vals, ex)
					}
				}
			}
			for _, v := range vals {
				var safeAt func(ssa.Instruction) bool
				if errV != nil {
					ev := errV
					safeAt = func(i ssa.Instruction) bool { return errKnownNil(i, ev) }
				}
				stores, edges := heapStoresOf(v, safeAt)
				for _, st := range stores {
					what := fmt.Sprintf("result of %s stored to %s", calleeLabel(c, ci), ir.Sym(st.Addr))
					pos := P.InstrPos(st)
					atEdges := errV != nil && len(edges[st]) > 0
					for _, pt := range edges[st] {
						atEdges = atEdges && (errKnownNil(pt, errV) || errNilOnEdge(pt, errV))
					}
					if errV != nil && recordedWithError(st, errV) {
						c.OK(pos, what, "recorded side by side with its error in the same scratch object (whoever reads the value reads the error first)", false)
					} else if errV != nil && (atEdges || errKnownNil(st, errV)) {
						c.OK(pos, what, "stored only where the call's error is known to be nil", false)
					} else if base, _, _, isNode := nodeBaseOfAddr(st.Addr); isNode && c.Facts.Own().Classify(base, st).Own == Fresh {
						c.OK(pos, what, "written into a node allocated by this very call (a private copy nobody else sees; it is dropped with the error)", false)
					} else {
						c.Violation(fn, pos, "result stored before its error is checked: "+ir.Sym(st.Addr),
							"the value comes back together with an error and is written into the tree before that error is tested: when the call fails the slot is overwritten with the zero value (an empty name, a nil node) and the subtree it named is lost although the operation reports an error")
					}
				}
			}
		}
	}
}

func calleeLabel(c *Ctx, ci ssa.CallInstruction) string {
	if f := ir.Callee(ci.Common()); f != nil {
		return ir.FuncName(f)
	}
	if ext := c.Facts.External(ci); ext != "" {
		return ext
	}
	return "a fallible call"
}

// errNilByFlow: on every path to st a test has established errV == nil (the test may sit in a block that does not
// dominate the store's block by a single edge, e.g. after a merged diagnostic branch).
func errNilByFlow(st ssa.Instruction, errV ssa.Value) bool {
	return ir.FlowFact(st, func(fc ir.Fact) bool {
		tv, tnn, ok := ir.NilTest(fc.Cond)
		return ok && tv == errV && tnn != fc.Truth
	}, func(ssa.Instruction) bool { return false })
}

// heapStoresOf: the stores of v (possibly boxed into an interface, converted, or merged with the values of sibling
// arms by a φ) whose address is reached through a pointer, a slice, a parameter, a free variable or a global.
// edges[st] lists, for a store reached through φ nodes, the ends of the predecessor blocks through which v itself
// flows into the merge: where the error was tested inside the arm (`l, err := split(); if err != nil { return }`
// in one arm, the store after the arms meet), it is at those points that it is known to be nil.
func heapStoresOf(v ssa.Value, safeAt func(ssa.Instruction) bool) (out []*ssa.Store, edges map[*ssa.Store][]ssa.Instruction) {
	edges = map[*ssa.Store][]ssa.Instruction{}
	seen := map[ssa.Value]bool{}
	var walk func(x ssa.Value, d int, via []ssa.Instruction)
	walk = func(x ssa.Value, d int, via []ssa.Instruction) {
		if seen[x] || d > 4 || x.Referrers() == nil {
			return
		}
		seen[x] = true
		for _, r := range *x.Referrers() {
			switch y := r.(type) {
			case *ssa.Store:
				if y.Val == x && !localAddr(y.Addr) {
					out = append(out, y)
					edges[y] = via
				} else if y.Val == x && !(safeAt != nil && safeAt(y)) {
					// (a local variable written where the error is already known to be nil needs no following)
					// the value goes into a local composite (pathEntry{node: node}, the varargs array of an append):
					// what is made of that composite carries it on
					root := y.Addr
					for i := 0; i < 8; i++ {
						switch a := root.(type) {
						case *ssa.FieldAddr:
							root = a.X
							continue
						case *ssa.IndexAddr:
							root = a.X
							continue
						}
						break
					}
					if al, ok := root.(*ssa.Alloc); ok && al.Referrers() != nil {
						for _, r2 := range *al.Referrers() {
							switch z := r2.(type) {
							case *ssa.Slice:
								walk(z, d+1, via)
							case *ssa.UnOp:
								if z.Op == token.MUL {
									walk(z, d+1, via)
								}
							}
						}
					}
				}
			case *ssa.Call:
				// append(S, …composite…): the grown slice holds the value
				if b, ok := y.Call.Value.(*ssa.Builtin); ok && b.Name() == "append" {
					for ai, a := range y.Call.Args {
						if ai > 0 && a == x {
							walk(y, d+1, via)
						}
					}
				}
			case *ssa.MakeInterface:
				walk(y, d+1, via)
			case *ssa.Phi:
				if len(via) > 0 {
					walk(y, d+1, via) // a second merge: keep the innermost points
					continue
				}
				var pts []ssa.Instruction
				for i, e := range y.Edges {
					if e == x && i < len(y.Block().Preds) {
						pb := y.Block().Preds[i]
						if len(pb.Instrs) > 0 {
							pts = append(pts, pb.Instrs[len(pb.Instrs)-1])
						}
					}
				}
				walk(y, d+1, pts)
			case *ssa.ChangeType:
				walk(y, d+1, via)
			case *ssa.ChangeInterface:
				walk(y, d+1, via)
			case *ssa.Convert:
				walk(y, d+1, via)
			}
		}
	}
	walk(v, 0, nil)
	return out, edges
}

// localAddr: the address names (part of) a local variable of the enclosing function that no closure or callee sees
// unless the function hands it out itself: an Alloc, or a field / array element of one.
func localAddr(a ssa.Value) bool {
	for i := 0; i < 16; i++ {
		switch x := a.(type) {
		case *ssa.Alloc:
			return true
		case *ssa.FreeVar:
			return i == 0 // the captured variable itself (a local of the enclosing function), not what it points to
		case *ssa.FieldAddr:
			a = x.X
		case *ssa.IndexAddr:
			// element of an array addressed in place; a slice element is heap memory
			if _, isSlice := x.X.Type().Underlying().(*types.Slice); isSlice {
				// a slice made by this very call (`out := make(…)`) is dropped with the error like any local
				_, fresh := ir.ResolveCell(x.X).(*ssa.MakeSlice)
				return fresh
			}
			a = x.X
		default:
			return false
		}
	}
	return false
}

// errKnownNil: the call's error — or the merge of it with the errors of sibling arms (`name, err = f()` in one arm
// of a switch, `if err != nil` after the arms meet: on the paths that came through the call the merged value is the
// call's error) — is known to be nil at st.
func errKnownNil(st ssa.Instruction, errV ssa.Value) bool {
	cands := []ssa.Value{errV}
	for i := 0; i < len(cands) && i < 6; i++ {
		if refs := cands[i].Referrers(); refs != nil {
			for _, r := range *refs {
				if phi, ok := r.(*ssa.Phi); ok {
					dup := false
					for _, x := range cands {
						dup = dup || x == ssa.Value(phi)
					}
					if !dup {
						cands = append(cands, phi)
					}
				}
			}
		}
	}
	for _, e := range cands {
		if nilFactOn(st.Block(), e, true) || errNilByFlow(st, e) {
			return true
		}
	}
	return false
}

// errNilOnEdge: pt ends a block with `if err != nil` (or == nil) on the call's error and the merge the value flows
// into is the successor taken when it is nil.
func errNilOnEdge(pt ssa.Instruction, errV ssa.Value) bool {
	iff, ok := pt.(*ssa.If)
	if !ok {
		return false
	}
	tv, tnn, isNil := ir.NilTest(iff.Cond)
	if !isNil || !sameValue(tv, errV) {
		return false
	}
	b := iff.Block()
	// the successor on which the error is nil: Succs[1] when "true means non-nil", Succs[0] otherwise
	nilSucc := b.Succs[0]
	if tnn {
		nilSucc = b.Succs[1]
	}
	// the φ this point was taken from sits in that successor (the other one returns the error)
	for _, ins := range nilSucc.Instrs {
		if _, isPhi := ins.(*ssa.Phi); isPhi {
			return true
		}
		break
	}
	return false
}

// recordedWithError: `p.cmp, p.err = f()` — the value goes into a field of a private (non-tree) struct and the error
// into another field of the very same object in the same block: a recorded pair, not tree state overwritten.
func recordedWithError(st *ssa.Store, errV ssa.Value) bool {
	fa, ok := st.Addr.(*ssa.FieldAddr)
	if !ok {
		return false
	}
	t := fa.X.Type()
	if pt, isP := t.Underlying().(*types.Pointer); isP {
		t = pt.Elem()
	}
	nt, isN := types.Unalias(t).(*types.Named)
	if !isN || nt.Obj().Name() == "Mast" || nt.Obj().Name() == "mastNode" || nt.Obj().Name() == "Node" || nt.Obj().Name() == "Cursor" || nt.Obj().Name() == "DiffCursor" {
		return false
	}
	for _, ins := range st.Block().Instrs {
		if o, ok := ins.(*ssa.Store); ok && o.Val == errV {
			if fb, ok := o.Addr.(*ssa.FieldAddr); ok && fb.X == fa.X && fb.Field != fa.Field {
				return true
			}
		}
	}
	return false
}
