package rules

// Abstract interpretation of the binary node encoder: the byte-slice value a
// function returns is evaluated into an emission term — a sequence of
//   U(x)      binary.PutUvarint of x, the bytes written appended
//   V(x)      binary.PutVarint (signed)
//   B(x)      the bytes of x appended
//   RAW[n](x) a fixed-width n-byte field appended
//   {over X: …}  the body repeated for every element of X
// where x is a symbolic description of the value in terms of the root
// function's parameters. Static callees are inlined, so the term does not
// depend on how the encoder is split into helpers.

import (
	"fmt"
	"go/constant"
	"go/token"
	"go/types"
	"strings"

	"golang.org/x/tools/go/ssa"

	"mastcheck/ir"
)

type emTerm struct {
	Scratch int64  // for U/V: length of the scratch array the varint is written into
	Kind    string // U V B RAW REP
	Arg     string
	Over    string
	Body    []emTerm
	Pos     ssa.Instruction
	Fn      *ssa.Function
}

func (t emTerm) String() string {
	if t.Kind == "REP" {
		return "{over " + t.Over + ": " + emString(t.Body) + "}"
	}
	return t.Kind + "(" + t.Arg + ")"
}

func emString(ts []emTerm) string {
	var s []string
	for _, t := range ts {
		s = append(s, t.String())
	}
	return strings.Join(s, " ")
}

// emFlat flattens a term list into tokens, with the instruction of each.
func emFlat(ts []emTerm) (toks []string, at []emTerm) {
	for _, t := range ts {
		if t.Kind == "REP" {
			toks = append(toks, "{over "+t.Over+":")
			at = append(at, t)
			bt, ba := emFlat(t.Body)
			toks = append(toks, bt...)
			at = append(at, ba...)
			toks = append(toks, "}")
			at = append(at, t)
			continue
		}
		toks = append(toks, t.String())
		at = append(at, t)
	}
	return
}

type emBinding struct {
	arg  ssa.Value
	env  *emEnv
	desc string // fixed description (root parameters)
}

type emEnv struct {
	fn     *ssa.Function
	params map[*ssa.Parameter]emBinding
	free   map[*ssa.FreeVar]emBinding // closures: the captured cells, in the environment that made the closure
	// loop state
	marker   map[*ssa.Phi]bool // buffer phis being expanded
	loopIdx  map[ssa.Value]bool
	depth    int
	undecide *[]string
}

type emErr struct{ msg string }

func (e emErr) Error() string { return e.msg }

func emFail(format string, a ...interface{}) error { return emErr{fmt.Sprintf(format, a...)} }

// emRoot prepares the evaluation of fn with its parameters described by name.
func emRoot(fn *ssa.Function, names map[*ssa.Parameter]string) *emEnv {
	env := &emEnv{fn: fn, params: map[*ssa.Parameter]emBinding{}, marker: map[*ssa.Phi]bool{}, loopIdx: map[ssa.Value]bool{}}
	for p, n := range names {
		env.params[p] = emBinding{desc: n}
	}
	return env
}

// emReturn evaluates the byte slice fn returns on success.
func (env *emEnv) emReturn() ([]emTerm, error) {
	rets := fxSuccessReturns(env.fn)
	// `return helper(buf, …)` forwarding (bytes, error): where the error is nil
	// the bytes are what the helper returns on success (evaluated by callBuf)
	if ei := ir.ErrorResultIndex(env.fn.Signature); ei > 0 {
		for _, r := range ir.Returns(env.fn) {
			if ei >= len(r.Results) {
				continue
			}
			e0, ok0 := r.Results[0].(*ssa.Extract)
			e1, ok1 := r.Results[ei].(*ssa.Extract)
			if !ok0 || !ok1 || e0.Tuple != e1.Tuple || e0.Index != 0 {
				continue
			}
			call, ok := e0.Tuple.(*ssa.Call)
			if !ok || call.Call.IsInvoke() {
				continue
			}
			if callee := ir.Callee(call.Call); callee != nil && callee.Blocks != nil && ir.ErrorResultIndex(callee.Signature) == e1.Index {
				rets = append(rets, r)
			}
		}
	}
	var vals []ssa.Value
	var at []*ssa.Return
	for _, r := range rets {
		if len(r.Results) == 0 {
			continue
		}
		dup := false
		for _, v := range vals {
			if v == r.Results[0] {
				dup = true
			}
		}
		if !dup {
			vals = append(vals, r.Results[0])
			at = append(at, r)
		}
	}
	if len(vals) == 0 {
		return nil, emFail("%s has no success return", env.fn.Name())
	}
	if len(vals) == 1 {
		return env.buf(vals[0])
	}
	// several success returns: one full emission, the others early exits that
	// are taken only when the list(s) still to be written are empty and that
	// have emitted exactly what precedes those (then empty) repetitions
	terms := make([][]emTerm, len(vals))
	main := 0
	for i, v := range vals {
		t, err := env.buf(v)
		if err != nil {
			return nil, err
		}
		terms[i] = t
		if len(t) > len(terms[main]) {
			main = i
		}
	}
	for i, t := range terms {
		if i == main {
			continue
		}
		full := terms[main]
		if len(t) >= len(full) || emString(t) != emString(full[:len(t)]) {
			return nil, emFail("%s has several success returns with different emissions", env.fn.Name())
		}
		for _, rest := range full[len(t):] {
			if rest.Kind != "REP" {
				return nil, emFail("%s returns early without emitting %s", env.fn.Name(), rest.String())
			}
			if !env.emptyAt(at[i].Block(), rest.Over) {
				return nil, emFail("%s returns early, skipping the elements of %s, on a path where that list is not known to be empty", env.fn.Name(), rest.Over)
			}
		}
	}
	return terms[main], nil
}

// emptyAt: on entry to block b a dominating branch established len(X) == 0
// for the list described as over.
func (env *emEnv) emptyAt(b *ssa.BasicBlock, over string) bool {
	for _, f := range ir.FactsAt(b) {
		bin, ok := f.Cond.(*ssa.BinOp)
		if !ok {
			continue
		}
		x, y := bin.X, bin.Y
		op := bin.Op
		if fxConst(x) != nil {
			x, y = y, x
			op = map[token.Token]token.Token{token.LSS: token.GTR, token.GTR: token.LSS, token.LEQ: token.GEQ, token.GEQ: token.LEQ, token.EQL: token.EQL, token.NEQ: token.NEQ}[op]
		}
		a, isLen := lenArg(x)
		k := fxConst(y)
		if !isLen || k == nil {
			continue
		}
		d, err := env.desc(a)
		if err != nil || d != over {
			continue
		}
		// the fact (len op k) == f.Truth must imply len == 0
		holds := func(n int64) bool {
			return constant.Compare(constant.MakeInt64(n), op, k) == f.Truth
		}
		if holds(0) && !holds(1) && !holds(2) && !holds(1<<40) {
			return true
		}
	}
	return false
}

func isByteSlice(t types.Type) bool {
	s, ok := t.Underlying().(*types.Slice)
	if !ok {
		return false
	}
	b, ok := s.Elem().Underlying().(*types.Basic)
	return ok && b.Kind() == types.Uint8
}

// buf evaluates v as an output buffer.
func (env *emEnv) buf(v ssa.Value) ([]emTerm, error) {
	if env.depth > 12 {
		return nil, emFail("inlining too deep")
	}
	v = ir.ResolveCell(v)
	switch x := v.(type) {
	case *ssa.Const:
		if x.Value == nil {
			return nil, nil
		}
		return nil, emFail("buffer is the constant %s", x.Value)
	case *ssa.Parameter:
		b, ok := env.params[x]
		if !ok {
			return nil, emFail("buffer parameter %s is unbound", x.Name())
		}
		if b.env == nil {
			return nil, emFail("root parameter %s used as output buffer", x.Name())
		}
		return b.env.buf(b.arg)
	case *ssa.Extract:
		call, ok := x.Tuple.(*ssa.Call)
		if !ok || x.Index != 0 {
			return nil, emFail("buffer comes from %s", ir.Sym(x))
		}
		return env.callBuf(call)
	case *ssa.Call:
		if b, ok := x.Call.Value.(*ssa.Builtin); ok && b.Name() == "append" {
			head, err := env.buf(x.Call.Args[0])
			if err != nil {
				return nil, err
			}
			t, err := env.appended(x, x.Call.Args[1])
			if err != nil {
				return nil, err
			}
			return append(head, t), nil
		}
		return env.callBuf(x)
	case *ssa.Phi:
		if env.marker[x] {
			return []emTerm{{Kind: "<phi>", Arg: x.Name()}}, nil
		}
		return env.loop(x)
	case *ssa.Slice:
		// buf[:0] or buf[:] of an empty/whole buffer
		if x.Low == nil && x.High == nil {
			return env.buf(x.X)
		}
	}
	return nil, emFail("output buffer value %s not recognised", ir.Sym(v))
}

func (env *emEnv) callBuf(call *ssa.Call) ([]emTerm, error) {
	callee := ir.Callee(call.Call)
	if callee != nil && callee.Blocks == nil && !call.Call.IsInvoke() && len(call.Call.Args) == 2 {
		// binary.AppendUvarint(buf, x) / binary.AppendVarint(buf, x): the varint
		// of x appended to buf — the bytes PutUvarint/PutVarint write, with no
		// scratch array that could be too small (the library sizes it itself:
		// binary.MaxVarintLen64)
		if kind := map[string]string{"encoding/binary.AppendUvarint": "U", "encoding/binary.AppendVarint": "V"}[fxFullName(callee)]; kind != "" {
			head, err := env.buf(call.Call.Args[0])
			if err != nil {
				return nil, err
			}
			d, err := env.desc(call.Call.Args[1])
			if err != nil {
				return nil, err
			}
			return append(head, emTerm{Kind: kind, Arg: d, Scratch: emMaxVarintLen64, Pos: call, Fn: env.fn}), nil
		}
	}
	if callee == nil || callee.Blocks == nil {
		return nil, emFail("buffer is produced by a call the rule cannot inline: %s", ir.Sym(call))
	}
	return env.subEnv(call, callee).emReturn()
}

// emMaxVarintLen64 is encoding/binary.MaxVarintLen64: what AppendUvarint can
// write at most, i.e. every uint64 is encodable.
const emMaxVarintLen64 = 10

// subEnv prepares the evaluation of callee, statically called at call: its
// parameters are the call's arguments and, for a closure, its free variables
// the cells the closure was made over, all evaluated in env.
func (env *emEnv) subEnv(call *ssa.Call, callee *ssa.Function) *emEnv {
	sub := &emEnv{fn: callee, params: map[*ssa.Parameter]emBinding{}, marker: map[*ssa.Phi]bool{}, loopIdx: map[ssa.Value]bool{}, depth: env.depth + 1}
	for i, p := range callee.Params {
		if i < len(call.Call.Args) {
			sub.params[p] = emBinding{arg: call.Call.Args[i], env: env}
		}
	}
	if mc, ok := call.Call.Value.(*ssa.MakeClosure); ok && len(mc.Bindings) == len(callee.FreeVars) {
		sub.free = map[*ssa.FreeVar]emBinding{}
		for i, fv := range callee.FreeVars {
			sub.free[fv] = emBinding{arg: mc.Bindings[i], env: env}
		}
	}
	return sub
}

// loop expands a buffer phi at a loop header.
func (env *emEnv) loop(phi *ssa.Phi) ([]emTerm, error) {
	h := phi.Block()
	if len(phi.Edges) != 2 {
		return nil, emFail("buffer merges %d paths", len(phi.Edges))
	}
	var init, back ssa.Value
	for i, e := range phi.Edges {
		if h.Dominates(h.Preds[i]) {
			back = e
		} else {
			init = e
		}
	}
	if init == nil || back == nil {
		return nil, emFail("buffer phi %s is not a loop-carried value", phi.Name())
	}
	// the iteration: header ends in `idx < len(X)`
	iff, ok := h.Instrs[len(h.Instrs)-1].(*ssa.If)
	if !ok {
		return nil, emFail("loop header does not end in a test")
	}
	cond, ok := iff.Cond.(*ssa.BinOp)
	if !ok || cond.Op != token.LSS {
		return nil, emFail("loop condition %s is not idx < len(X)", ir.Sym(iff.Cond))
	}
	overV, ok := lenArg(cond.Y)
	if !ok {
		return nil, emFail("loop bound %s is not len(X)", ir.Sym(cond.Y))
	}
	over, err := env.desc(overV)
	if err != nil {
		return nil, err
	}
	if !isFullRangeIndex(cond.X, h) {
		return nil, emFail("loop index %s does not run from 0 in steps of 1", ir.Sym(cond.X))
	}
	head, err := env.buf(init)
	if err != nil {
		return nil, err
	}
	env.marker[phi] = true
	env.loopIdx[cond.X] = true
	body, err := env.buf(back)
	delete(env.marker, phi)
	delete(env.loopIdx, cond.X)
	if err != nil {
		return nil, err
	}
	if len(body) == 0 || body[0].Kind != "<phi>" || body[0].Arg != phi.Name() {
		return nil, emFail("the loop does not extend the buffer it carries")
	}
	for _, t := range body[1:] {
		if t.Kind == "<phi>" {
			return nil, emFail("nested use of the carried buffer")
		}
	}
	rep := emTerm{Kind: "REP", Over: over, Body: body[1:], Fn: env.fn}
	if len(h.Instrs) > 0 {
		rep.Pos = h.Instrs[len(h.Instrs)-1]
	}
	return append(head, rep), nil
}

func lenArg(v ssa.Value) (ssa.Value, bool) {
	c, ok := v.(*ssa.Call)
	if !ok {
		return nil, false
	}
	b, ok := c.Call.Value.(*ssa.Builtin)
	if !ok || b.Name() != "len" {
		return nil, false
	}
	return c.Call.Args[0], true
}

// isFullRangeIndex: idx is the index of a loop over 0..n-1 at header h:
// either phi(-1, idx) + 1 (range loops) or phi(0, phi+1) (for loops).
func isFullRangeIndex(idx ssa.Value, h *ssa.BasicBlock) bool {
	if bin, ok := idx.(*ssa.BinOp); ok && bin.Op == token.ADD && fxIsIntConst(bin.Y, 1) {
		p, ok := bin.X.(*ssa.Phi)
		if !ok || p.Block() != h || len(p.Edges) < 2 {
			return false
		}
		for i, e := range p.Edges {
			if h.Dominates(h.Preds[i]) {
				if e != ssa.Value(bin) {
					return false
				}
			} else if !fxIsIntConst(e, -1) {
				return false
			}
		}
		return true
	}
	if p, ok := idx.(*ssa.Phi); ok && p.Block() == h {
		for i, e := range p.Edges {
			if h.Dominates(h.Preds[i]) {
				bin, ok := e.(*ssa.BinOp)
				if !ok || bin.Op != token.ADD || bin.X != ssa.Value(p) || !fxIsIntConst(bin.Y, 1) {
					return false
				}
			} else if !fxIsIntConst(e, 0) {
				return false
			}
		}
		return true
	}
	return false
}

// appended describes the bytes `append(buf, y...)` adds.
func (env *emEnv) appended(at *ssa.Call, y ssa.Value) (emTerm, error) {
	t := emTerm{Pos: at, Fn: env.fn}
	y = ir.ResolveCell(y)
	if sl, ok := y.(*ssa.Slice); ok {
		if a, ok := sl.X.(*ssa.Alloc); ok {
			if arr, ok := a.Type().Underlying().(*types.Pointer).Elem().Underlying().(*types.Array); ok && sl.Low == nil {
				// a scratch array: which writer filled it, and how much of it is appended
				writer, wcall := scratchWriter(a)
				if sl.High != nil {
					hc, _ := sl.High.(*ssa.Call)
					if hc != nil && hc == wcall && (writer == "encoding/binary.PutUvarint" || writer == "encoding/binary.PutVarint") {
						d, err := env.desc(wcall.Call.Args[1])
						if err != nil {
							return t, err
						}
						t.Kind = map[string]string{"encoding/binary.PutUvarint": "U", "encoding/binary.PutVarint": "V"}[writer]
						t.Arg = d
						t.Scratch = arr.Len()
						return t, nil
					}
					return t, emFail("scratch array appended up to %s, which is not the count its writer returned", ir.Sym(sl.High))
				}
				t.Kind = fmt.Sprintf("RAW[%d]", arr.Len())
				t.Arg = writer
				if wcall != nil && len(wcall.Call.Args) > 1 {
					if d, err := env.desc(wcall.Call.Args[len(wcall.Call.Args)-1]); err == nil {
						t.Arg = writer + " " + d
					}
				}
				return t, nil
			}
		}
	}
	d, err := env.desc(y)
	if err != nil {
		return t, err
	}
	t.Kind, t.Arg = "B", d
	return t, nil
}

// scratchWriter finds the call that fills scratch array a through a[:].
func scratchWriter(a *ssa.Alloc) (string, *ssa.Call) {
	name, n := "", 0
	var call *ssa.Call
	for _, r := range *a.Referrers() {
		sl, ok := r.(*ssa.Slice)
		if !ok || sl.Referrers() == nil {
			continue
		}
		for _, rr := range *sl.Referrers() {
			c, ok := rr.(*ssa.Call)
			if !ok {
				continue
			}
			if _, isB := c.Call.Value.(*ssa.Builtin); isB {
				continue
			}
			uses := false
			for _, a := range c.Call.Args {
				if a == ssa.Value(sl) {
					uses = true
				}
			}
			if uses {
				n++
				call = c
				if sc := ir.Callee(c.Call); sc != nil {
					name = fxFullName(sc)
				} else if c.Call.IsInvoke() {
					name = c.Call.Method.FullName()
				}
			}
		}
	}
	if n != 1 {
		return fmt.Sprintf("%d writers", n), nil
	}
	return name, call
}

// desc describes a value symbolically in terms of the root parameters.
func (env *emEnv) desc(v ssa.Value) (string, error) {
	v = ir.ResolveCell(v)
	switch x := v.(type) {
	case *ssa.Const:
		if x.Value == nil {
			return "nil", nil
		}
		return x.Value.ExactString(), nil
	case *ssa.Parameter:
		b, ok := env.params[x]
		if !ok {
			return "", emFail("parameter %s is unbound", x.Name())
		}
		if b.env == nil {
			return b.desc, nil
		}
		return b.env.desc(b.arg)
	case *ssa.MakeInterface:
		return env.desc(x.X)
	case *ssa.ChangeType:
		return env.desc(x.X)
	case *ssa.ChangeInterface:
		return env.desc(x.X)
	case *ssa.Convert:
		d, err := env.desc(x.X)
		if err != nil {
			return "", err
		}
		// integer conversions that may lose bits are part of the layout
		if tb, ok := x.Type().Underlying().(*types.Basic); ok && tb.Info()&types.IsInteger != 0 {
			if sb, ok := x.X.Type().Underlying().(*types.Basic); ok && sb.Info()&types.IsInteger != 0 {
				if intBits(tb) < intBits(sb) {
					return "narrow" + fmt.Sprint(intBits(tb)) + "(" + d + ")", nil
				}
			}
		}
		return d, nil
	case *ssa.UnOp:
		if x.Op != token.MUL {
			d, err := env.desc(x.X)
			return x.Op.String() + d, err
		}
		switch a := x.X.(type) {
		case *ssa.FieldAddr:
			base, path, ok := fxFieldAddr(a)
			if !ok {
				return "", emFail("field access %s", ir.Sym(x))
			}
			d, err := env.desc(base)
			if err != nil {
				return "", err
			}
			return d + "." + path, nil
		case *ssa.IndexAddr:
			if !env.loopIdx[a.Index] {
				return "", emFail("element %s is not indexed by the enclosing loop's index", ir.Sym(x))
			}
			d, err := env.desc(a.X)
			if err != nil {
				return "", err
			}
			return d + "[]", nil
		case *ssa.FreeVar:
			// a variable of the enclosing function read in a closure: the value
			// its cell holds, when that is stored exactly once
			if b, ok := env.free[a]; ok && b.env != nil {
				if cell, ok := b.arg.(*ssa.Alloc); ok {
					if st := ir.SingleStore(cell); st != nil {
						return b.env.desc(st.Val)
					}
				}
			}
			return "", emFail("captured variable %s is not a cell written once", a.Name())
		}
	case *ssa.Field:
		d, err := env.desc(x.X)
		if err != nil {
			return "", err
		}
		n := fxFieldNameOf(x.X.Type(), x.Field)
		if n == "" {
			return d, nil
		}
		return d + "." + n, nil
	case *ssa.Call:
		if b, ok := x.Call.Value.(*ssa.Builtin); ok && b.Name() == "len" {
			d, err := env.desc(x.Call.Args[0])
			return "len(" + d + ")", err
		}
		return env.callDesc(x)
	case *ssa.Extract:
		if c, ok := x.Tuple.(*ssa.Call); ok && x.Index == 0 {
			return env.callDesc(c)
		}
		if ta, ok := x.Tuple.(*ssa.TypeAssert); ok && x.Index == 0 {
			d, err := env.desc(ta.X)
			// `s, ok := x.(string)`: the string, or "" when x holds no string (nil)
			if err == nil && ta.CommaOk && fxShortType(ta.AssertedType) == "string" {
				return "str(" + d + ")", nil
			}
			return d, err
		}
	case *ssa.TypeAssert:
		return env.desc(x.X)
	case *ssa.BinOp:
		a, err := env.desc(x.X)
		if err != nil {
			return "", err
		}
		b, err := env.desc(x.Y)
		if err != nil {
			return "", err
		}
		return "(" + a + x.Op.String() + b + ")", nil
	case *ssa.Phi:
		return env.strPhi(x)
	}
	return "", emFail("value %s not recognised", ir.Sym(v))
}

func intBits(b *types.Basic) int {
	switch b.Kind() {
	case types.Int8, types.Uint8:
		return 8
	case types.Int16, types.Uint16:
		return 16
	case types.Int32, types.Uint32:
		return 32
	}
	return 64
}

// callDesc describes result #0 of a call: through a function-valued parameter
// (the element marshaler) M(arg); of a static callee with a body (a helper
// computing the value) what the helper returns, in terms of its arguments.
func (env *emEnv) callDesc(c *ssa.Call) (string, error) {
	if callee := ir.Callee(c.Call); callee != nil && callee.Blocks != nil && !c.Call.IsInvoke() {
		return env.inlineDesc(c, callee)
	}
	if c.Call.IsInvoke() || ir.Callee(c.Call) != nil {
		return "", emFail("call %s is not the element marshaler", ir.Sym(c))
	}
	if _, isSig := c.Call.Value.Type().Underlying().(*types.Signature); !isSig || len(c.Call.Args) != 1 {
		return "", emFail("call %s is not the element marshaler", ir.Sym(c))
	}
	f, err := env.desc(c.Call.Value)
	if err != nil {
		return "", err
	}
	a, err := env.desc(c.Call.Args[0])
	if err != nil {
		return "", err
	}
	return f + "(" + a + ")", nil
}

// inlineDesc describes result #0 of the helper callee called at c: the value
// of its success returns, evaluated with the parameters bound to the call's
// arguments. Several returns must describe the same value; the one accepted
// difference is the early-return form of str(x) (see strPhi):
//
//	if x == nil { return "" }; s, ok := x.(string); …; return s
//
// — "" is returned only where a dominating test established that x is nil,
// every other return is the string asserted out of that same x.
func (env *emEnv) inlineDesc(c *ssa.Call, callee *ssa.Function) (string, error) {
	if env.depth > 12 {
		return "", emFail("inlining too deep")
	}
	sub := env.subEnv(c, callee)
	var empties []*ssa.Return
	var descs []string
	var subjs []ssa.Value
	for _, r := range fxSuccessReturns(callee) {
		if len(r.Results) == 0 {
			continue
		}
		v := ir.ResolveCell(r.Results[0])
		if k := fxConst(v); k != nil && k.ExactString() == `""` {
			empties = append(empties, r)
			continue
		}
		d, err := sub.desc(v)
		if err != nil {
			return "", err
		}
		var subj ssa.Value
		switch o := v.(type) {
		case *ssa.Extract:
			if ta, ok := o.Tuple.(*ssa.TypeAssert); ok && o.Index == 0 && fxShortType(ta.AssertedType) == "string" {
				subj = ta.X
			}
		case *ssa.TypeAssert:
			if fxShortType(o.AssertedType) == "string" {
				subj = o.X
			}
		}
		descs = append(descs, d)
		subjs = append(subjs, subj)
	}
	if len(descs) == 0 {
		if len(empties) > 0 {
			return `""`, nil
		}
		return "", emFail("%s has no success return", callee.Name())
	}
	if len(empties) == 0 {
		for _, d := range descs[1:] {
			if d != descs[0] {
				return "", emFail("%s returns different values (%s, %s)", callee.Name(), descs[0], d)
			}
		}
		return descs[0], nil
	}
	// "" on some paths: all the others are the string held by one subject …
	subj := ir.ResolveCell(subjs[0])
	for _, s := range subjs {
		if s == nil || subj == nil || ir.ResolveCell(s) != subj {
			return "", emFail("%s returns the empty string on some paths and %s on others", callee.Name(), strings.Join(descs, ", "))
		}
	}
	d, err := sub.desc(subj)
	if err != nil {
		return "", err
	}
	// … and "" is returned only for a nil subject
	for _, r := range empties {
		if !blockHasNil(r.Block(), func(v ssa.Value) bool { return ir.ResolveCell(v) == subj }, true) {
			return "", emFail("%s: the empty string is not returned exactly for a nil %s", callee.Name(), ir.Sym(subj))
		}
	}
	return "str(" + d + ")", nil
}

// strPhi recognises `s := ""; if x != nil { s = x.(string) }`: str(x).
func (env *emEnv) strPhi(p *ssa.Phi) (string, error) {
	if len(p.Edges) != 2 {
		return "", emFail("value merges %d paths", len(p.Edges))
	}
	b := p.Block()
	for i, e := range p.Edges {
		k := fxConst(e)
		if k == nil || k.ExactString() != `""` {
			continue
		}
		other := p.Edges[1-i]
		var subj ssa.Value
		switch o := other.(type) {
		case *ssa.Extract:
			if ta, ok := o.Tuple.(*ssa.TypeAssert); ok && o.Index == 0 && fxShortType(ta.AssertedType) == "string" {
				subj = ta.X
			}
		case *ssa.TypeAssert:
			if fxShortType(o.AssertedType) == "string" {
				subj = o.X
			}
		}
		if subj == nil {
			break
		}
		// the "" edge is taken exactly when subj is nil
		pred := b.Preds[i]
		if !edgeHasNil(pred, b, func(v ssa.Value) bool { return v == subj }, true) {
			return "", emFail("the empty string is not chosen exactly for a nil %s", ir.Sym(subj))
		}
		d, err := env.desc(subj)
		if err != nil {
			return "", err
		}
		return "str(" + d + ")", nil
	}
	return "", emFail("merged value %s not recognised", ir.Sym(p))
}
